package main

// WH — write history (C06, DESIGN.md §4 WH): necessary conditions of C06 that
// are visible in code shape.

import (
	"fmt"
	"go/token"
	"go/types"
	"sort"
	"strings"

	"golang.org/x/tools/go/ssa"
)

func init() {
	register("C06", "other", LoadOpts{TC: true, SSA: true}, checkC06)
}

func (c *Ctx) sinkOps() *Ops {
	t := c.U.NewTaint(sinkSeeds(c)...)
	return BuildOps(c.U, t)
}

// incrementedFields: receiver fields that fn increments by a positive constant.
func incrementedFields(fn *ssa.Function) []*types.Var {
	var out []*types.Var
	if fn == nil || len(fn.Params) == 0 {
		return nil
	}
	for _, b := range fn.Blocks {
		for _, ins := range b.Instrs {
			s, ok := ins.(*ssa.Store)
			if !ok {
				continue
			}
			fa, ok := s.Addr.(*ssa.FieldAddr)
			if !ok || fa.X != ssa.Value(fn.Params[0]) {
				continue
			}
			f := fieldOf(fa)
			if bo, ok := s.Val.(*ssa.BinOp); ok && bo.Op == token.ADD && loadOf(bo.X, f, fa.X) {
				if _, isC := bo.Y.(*ssa.Const); isC {
					out = append(out, f)
				}
			}
		}
	}
	return out
}

// appendedFields: slice fields (of the receiver or of structs embedded in it) that fn stores an append(...) result or an
// updated slice into — the per-row quantities of a Field implementation's Add.
func appendedFields(fn *ssa.Function) []*types.Var {
	var out []*types.Var
	if fn == nil {
		return nil
	}
	for _, b := range fn.Blocks {
		for _, ins := range b.Instrs {
			s, ok := ins.(*ssa.Store)
			if !ok {
				continue
			}
			f := fieldOf(s.Addr)
			if f == nil {
				continue
			}
			if _, isSlice := f.Type().Underlying().(*types.Slice); isSlice {
				out = append(out, f)
			}
		}
	}
	return out
}

// nonZeroTest: cond/truth establishes q != 0 where isQ recognises the quantity.
func nonZeroTest(cond ssa.Value, truth bool, isQ func(ssa.Value) bool) bool {
	bo, ok := cond.(*ssa.BinOp)
	if !ok {
		return false
	}
	x, y, op := bo.X, bo.Y, bo.Op
	if isQ(y) && !isQ(x) {
		// normalise: quantity on the left
		x, y = y, x
		switch op {
		case token.LSS:
			op = token.GTR
		case token.GTR:
			op = token.LSS
		case token.LEQ:
			op = token.GEQ
		case token.GEQ:
			op = token.LEQ
		}
	}
	if !isQ(x) {
		return false
	}
	switch {
	case constIs(y, 0):
		return (op == token.NEQ && truth) || (op == token.EQL && !truth) || (op == token.GTR && truth) || (op == token.LEQ && !truth)
	case constIs(y, 1):
		return (op == token.GEQ && truth) || (op == token.LSS && !truth)
	}
	return false
}

// runWHEmpty: every sink write reachable from ParquetWriter.Write is guarded by a test that a row quantity is non-zero.
func runWHEmpty(c *Ctx, rule string) {
	r, u := c.R, c.U
	ops := c.sinkOps()
	for _, path := range u.TC {
		short := strings.TrimPrefix(path, "uni/")
		wr := u.Func(path, "ParquetWriter.Write")
		add := u.Func(path, "ParquetWriter.Add")
		if wr == nil || add == nil {
			r.failf("ParquetWriter.Write/Add missing in %s", path)
			continue
		}
		r.count(rule, 1)
		key := short + ".(*ParquetWriter).Write"
		pos := u.Pos(wr.Pos())
		counters := map[*types.Var]bool{}
		// (in Add itself or in a method of the writer Add hands the record to)
		for _, g := range unitFns(u, add) {
			if g != add && (g.Signature.Recv() == nil || len(g.Params) == 0 || !types.Identical(g.Params[0].Type(), add.Params[0].Type())) {
				continue
			}
			for _, f := range incrementedFields(g) {
				counters[f] = true
			}
		}
		if len(counters) == 0 {
			r.undecided(rule, key, pos, "no row counter discovered in Add")
			continue
		}
		// level A: all sink-touching call sites in Write are guarded by counter != 0
		isQ := func(v ssa.Value) bool {
			f := fieldOfLoad(v)
			return f != nil && counters[f]
		}
		sites := ops.byFn[wr]
		if len(sites) == 0 {
			r.undecided(rule, key, pos, "Write contains no sink-touching call site")
			continue
		}
		allA := true
		var unguarded []string
		for _, s := range sites {
			if !guarded(s.Site.Block(), func(iff *ssa.If, truth bool) bool { return nonZeroTest(iff.Cond, truth, isQ) }, 0) {
				allA = false
				unguarded = append(unguarded, u.Pos(s.Site.Pos()))
			}
		}
		if allA {
			r.ok(rule, key, pos, fmt.Sprintf("all %d sink-touching call sites in Write are guarded by a `rows pending != 0` test on the counter Add increments", len(sites)))
			continue
		}
		// level B: every Field implementation's Write guards its sink writes by len(row slice) != 0
		allB, nB := true, 0
		var whyB []string
		fieldIface := u.SSAPkgs[path].Pkg.Scope().Lookup("Field")
		if fieldIface != nil {
			it := fieldIface.Type().Underlying().(*types.Interface)
			for _, m := range u.SSAPkgs[path].Members {
				tm, ok := m.(*ssa.Type)
				if !ok {
					continue
				}
				named, ok := tm.Type().(*types.Named)
				if !ok || !types.Implements(types.NewPointer(named), it) {
					continue
				}
				fw := u.Func(path, named.Obj().Name()+".Write")
				fa := u.Func(path, named.Obj().Name()+".Add")
				if fw == nil || fa == nil {
					allB = false
					continue
				}
				nB++
				rows := map[*types.Var]bool{}
				for _, f := range appendedFields(fa) {
					rows[f] = true
				}
				isLen := func(v ssa.Value) bool {
					call, ok := v.(*ssa.Call)
					if !ok {
						return false
					}
					if b, ok := call.Call.Value.(*ssa.Builtin); !ok || b.Name() != "len" {
						return false
					}
					f := fieldOfLoad(call.Call.Args[0])
					return f != nil && rows[f]
				}
				for _, s := range ops.byFn[fw] {
					if !guarded(s.Site.Block(), func(iff *ssa.If, truth bool) bool { return nonZeroTest(iff.Cond, truth, isLen) }, 0) {
						allB = false
						whyB = append(whyB, u.FnName(fw))
					}
				}
			}
		}
		if allB && nB > 0 {
			r.ok(rule, key, pos, fmt.Sprintf("every one of the %d Field.Write implementations guards its sink writes by a non-empty test on the slices Add appends to", nB))
			continue
		}
		sort.Strings(unguarded)
		r.bad(rule, key, pos, "a Write with nothing pending still reaches the sink: call sites at "+strings.Join(unguarded, ", ")+" are not guarded by any test that rows are pending (neither in Write on the counter Add increments, nor in the Field.Write implementations on their row slices); Footer then drops the empty row group but not its bytes, and the sequential reader misreads every later batch")
	}
}

// runWHRows: FileMetaData.NumRows is computed from the row groups that are emitted, not from an Add-time counter.
func runWHRows(c *Ctx, rule string) {
	r, u := c.R, c.U
	schPkg := u.Pkgs[rtPath].Imports[schPath]
	if schPkg == nil {
		r.failf("schema package not loaded")
		return
	}
	fieldVar := func(typ, fld string) *types.Var {
		o := schPkg.Types.Scope().Lookup(typ)
		if o == nil {
			return nil
		}
		st, ok := o.Type().Underlying().(*types.Struct)
		if !ok {
			return nil
		}
		for i := 0; i < st.NumFields(); i++ {
			if st.Field(i).Name() == fld {
				return st.Field(i)
			}
		}
		return nil
	}
	fmdRows := fieldVar("FileMetaData", "NumRows")
	rgRows := fieldVar("RowGroup", "NumRows")
	if fmdRows == nil || rgRows == nil {
		r.failf("schema fields FileMetaData.NumRows / RowGroup.NumRows not found")
		return
	}
	// functions reachable from any generated Add
	var adds []*ssa.Function
	for _, p := range u.TC {
		if f := u.Func(p, "ParquetWriter.Add"); f != nil {
			adds = append(adds, f)
		}
	}
	fromAdd := u.reach(adds)
	ctor, other := storesTo(u, fmdRows)
	stores := append(ctor, other...)
	n := 0
	for _, s := range stores {
		if u.pkgPathOf(s.Parent()) != rtPath {
			continue
		}
		n++
		r.count(rule, 1)
		key := fmt.Sprintf("%s store #%d to FileMetaData.NumRows", u.FnName(s.Parent()), n)
		pos := u.Pos(s.Pos())
		var bad, und []string
		seen := map[ssa.Value]bool{}
		var walk func(v ssa.Value)
		walk = func(v ssa.Value) {
			if seen[v] {
				return
			}
			seen[v] = true
			switch x := v.(type) {
			case *ssa.Const:
			case *ssa.BinOp:
				walk(x.X)
				walk(x.Y)
			case *ssa.Phi:
				for _, e := range x.Edges {
					walk(e)
				}
			case *ssa.Convert:
				walk(x.X)
			case *ssa.UnOp:
				if x.Op != token.MUL {
					walk(x.X)
					return
				}
				f := fieldOf(x.X)
				switch {
				case f == nil:
					if al, ok := x.X.(*ssa.Alloc); ok {
						for _, ref := range *al.Referrers() {
							if st, ok := ref.(*ssa.Store); ok && st.Addr == ssa.Value(al) {
								walk(st.Val)
							}
						}
						return
					}
					und = append(und, "value loaded from "+x.X.String())
				case f == fmdRows || f == rgRows:
				default:
					// a counter: where is it stored?
					_, st2 := storesTo(u, f)
					c2, _ := storesTo(u, f)
					for _, w := range append(st2, c2...) {
						if fromAdd[w.Parent()] {
							bad = append(bad, fmt.Sprintf("derived from %s, which is updated at Add time in %s (%s)", f.Name(), u.FnName(w.Parent()), u.Pos(w.Pos())))
							return
						}
					}
				}
			default:
				und = append(und, fmt.Sprintf("value %s (%T)", v.Name(), v))
			}
		}
		walk(s.Val)
		switch {
		case len(bad) > 0:
			r.bad(rule, key, pos, "file-level row count is "+strings.Join(bad, "; ")+": rows added after the last Write are counted but never stored")
		case len(und) > 0:
			r.undecided(rule, key, pos, strings.Join(und, "; "))
		default:
			r.ok(rule, key, pos, "computed only from constants and RowGroup.NumRows of emitted row groups")
		}
	}
	r.floor(rule, 1, "Footer sets FileMetaData.NumRows")
}

func checkC06(c *Ctx) {
	r := c.R
	r.Explanation = "Decides two clauses of C06 as structural necessary conditions (all histories at once): WH-empty — a Write with nothing pending puts nothing on the stream (needed because the reader is sequential and Footer drops empty row groups but not their bytes): every sink-touching call site reachable from ParquetWriter.Write is guarded by a test that rows are pending; WH-rows — the file-level row count is computed from the row groups actually emitted, not from a counter advanced at Add time; WH-reset — Write re-initialises what Add advances; WH-child — the next page's writer inherits the configuration and the constructor keeps option values; WH-groups — no row group without rows reaches the footer and RowGroup.NumRows is assigned at write time from a per-group counter; TD — Add counts / hands out / advances once per stored record and keeps a page at max records, Write emits the parent's page then the child chain's pages per column. Everything else about histories (exact-multiple batches, one row group per batch, ordering) is a model-exploration problem and is NOT decided."
	runWHEmpty(c, "WH-empty")
	runWHRows(c, "WH-rows")
	runWHReset(c, "WH-reset")
	runWHChild(c, "WH-child")
	runWHGroups(c, "WH-groups")
	runTD(c, "TD", map[string]bool{"write": true, "add": true})
	r.floor("WH-empty", len(c.U.TC), "one ParquetWriter.Write per generated package")
	r.assume("the reader is sequential from byte 4 (never seeks to chunk offsets) — read from the template, see DESIGN.md §0")
}

// --- WH-reset: Write returns the writer to its per-batch initial state ---
//
// Every field of the writer's object graph that Add can modify (the ParquetWriter's own fields, each column object's
// value/level slices, the per-page statistics) is re-initialised by Write: either stored by Write / by the methods of
// that column type that Write invokes, or the object holding it is allocated afresh. A field that Add advances and
// Write leaves alone carries state from one batch into the next (stale levels, rows routed to a page that is never
// written). Fields that are never read (dead counters) are exempt.

type fieldSet map[*types.Var]bool

// structFields: all fields of a struct type, including those of by-value nested structs.
func structFields(t types.Type, into fieldSet) {
	st, ok := t.Underlying().(*types.Struct)
	if !ok {
		return
	}
	for i := 0; i < st.NumFields(); i++ {
		f := st.Field(i)
		into[f] = true
		if _, isStruct := f.Type().Underlying().(*types.Struct); isStruct {
			structFields(f.Type(), into)
		}
	}
}

// storesAndFresh: fields stored through a non-fresh base, and fields of structs allocated afresh, in the given functions.
func storesAndFresh(fns map[*ssa.Function]bool) (stored, fresh fieldSet, where map[*types.Var]string, u2 *Universe) { //nolint
	stored, fresh, where = fieldSet{}, fieldSet{}, map[*types.Var]string{}
	for f := range fns {
		for _, b := range f.Blocks {
			for _, ins := range b.Instrs {
				switch x := ins.(type) {
				case *ssa.Store:
					fa, ok := x.Addr.(*ssa.FieldAddr)
					if !ok {
						continue
					}
					fld := fieldOf(fa)
					if _, isFresh := fa.X.(*ssa.Alloc); isFresh {
						continue
					}
					stored[fld] = true
				case *ssa.Alloc:
					if x.Heap {
						structFields(x.Type().(*types.Pointer).Elem(), fresh)
					}
				}
			}
		}
	}
	return
}

func staticReach(u *Universe, roots []*ssa.Function) map[*ssa.Function]bool {
	seen := map[*ssa.Function]bool{}
	var visit func(f *ssa.Function)
	visit = func(f *ssa.Function) {
		if f == nil || f.Blocks == nil || !u.InUniverse(f) || seen[f] {
			return
		}
		seen[f] = true
		for _, b := range f.Blocks {
			for _, ins := range b.Instrs {
				if call, ok := ins.(ssa.CallInstruction); ok {
					visit(call.Common().StaticCallee())
				}
			}
		}
	}
	for _, f := range roots {
		visit(f)
	}
	return seen
}

// deadField: the field is never loaded except to compute its own next value.
func deadField(u *Universe, fld *types.Var) bool {
	for _, f := range u.Funcs {
		for _, b := range f.Blocks {
			for _, ins := range b.Instrs {
				ld, ok := ins.(*ssa.UnOp)
				if !ok || ld.Op != token.MUL || fieldOf(ld.X) != fld {
					continue
				}
				for _, ref := range *ld.Referrers() {
					if _, isDbg := ref.(*ssa.DebugRef); isDbg {
						continue
					}
					bo, isB := ref.(*ssa.BinOp)
					if !isB {
						return false
					}
					for _, r2 := range *bo.Referrers() {
						if st, isS := r2.(*ssa.Store); !isS || fieldOf(st.Addr) != fld {
							if _, isDbg := r2.(*ssa.DebugRef); !isDbg {
								return false
							}
						}
					}
				}
			}
		}
	}
	return true
}

func runWHReset(c *Ctx, rule string) {
	r, u := c.R, c.U
	for _, path := range u.TC {
		short := strings.TrimPrefix(path, "uni/")
		wr := u.Func(path, "ParquetWriter.Write")
		add := u.Func(path, "ParquetWriter.Add")
		if wr == nil || add == nil {
			r.failf("%s: ParquetWriter.Write/Add missing in %s", rule, path)
			continue
		}
		// writer level: the ParquetWriter's own fields
		pw := u.SSAPkgs[path].Pkg.Scope().Lookup("ParquetWriter")
		own := fieldSet{}
		structFields(pw.Type(), own)
		aSt, _, _, _ := storesAndFresh(map[*ssa.Function]bool{add: true})
		wStatic := staticReach(u, []*ssa.Function{wr})
		wSt, wFresh, _, _ := storesAndFresh(wStatic)
		r.count(rule+"/writers", 1)
		var missing []string
		for f := range aSt {
			if own[f] && !wSt[f] && !deadField(u, f) {
				missing = append(missing, f.Name())
			}
		}
		sort.Strings(missing)
		key := short + ".ParquetWriter"
		if len(missing) > 0 {
			r.bad(rule, key, u.Pos(wr.Pos()), "Add modifies the writer field(s) "+strings.Join(missing, ", ")+" but Write never re-initialises them: state of one batch leaks into the next (rows can be routed to a page that is never written)")
		} else {
			r.ok(rule, key, u.Pos(wr.Pos()), "every ParquetWriter field that Add modifies is re-initialised by Write")
		}
		// column level
		for _, fi := range fieldImpls(c) {
			if fi.pkg != path || fi.add == nil {
				continue
			}
			r.count(rule+"/column-types", 1)
			aReach := u.reach([]*ssa.Function{fi.add})
			aT, _, _, _ := storesAndFresh(aReach)
			// methods of this type that Write invokes through the Field interface
			var invoked []*ssa.Function
			for _, b := range wr.Blocks {
				for _, ins := range b.Instrs {
					call, ok := ins.(ssa.CallInstruction)
					if !ok || !call.Common().IsInvoke() {
						continue
					}
					if m := u.Func(path, fi.name+"."+call.Common().Method.Name()); m != nil {
						invoked = append(invoked, m)
					}
				}
			}
			wT, wTFresh, _, _ := storesAndFresh(u.reach(invoked))
			var miss []string
			for f := range aT {
				if wT[f] || wTFresh[f] || wFresh[f] || wSt[f] {
					continue
				}
				// only state of the column object graph: the column type, embedded runtime field structs, its stats type
				if deadField(u, f) {
					continue
				}
				if f.Pkg() != nil && (f.Pkg().Path() == path || f.Pkg().Path() == rtPath) {
					miss = append(miss, f.Name())
				}
			}
			sort.Strings(miss)
			k := short + "." + fi.name
			if len(miss) > 0 {
				r.bad(rule, k, u.Pos(fi.add.Pos()), "Add modifies "+strings.Join(miss, ", ")+" of this column object, but Write neither re-creates the object nor resets these through a method it invokes: values/levels of one row group leak into the next")
			} else {
				r.ok(rule, k, u.Pos(fi.add.Pos()), "everything Add modifies in this column object is re-created or reset by Write")
			}
		}
	}
	r.floor(rule+"/writers", len(u.TC), "one writer per generated package")
	r.floor(rule+"/column-types", 16, "16 column types in alltypes")
}

// --- WH-child: the writer created for the next page of a row group inherits the parent's configuration ---
//
// Add creates a child writer when the current page is full. Every field of the writer that an option can set
// (page size, codec, shared metadata) and the sink must be copied from the parent at that creation site — otherwise
// later pages of a chunk are written with default settings (another codec than the chunk's footer entry says, pages
// larger than the configured size).
func runWHChild(c *Ctx, rule string) {
	r, u := c.R, c.U
	for _, path := range u.TC {
		short := strings.TrimPrefix(path, "uni/")
		add := u.Func(path, "ParquetWriter.Add")
		inner := roleFunc(u, path, "writerInner")
		if add == nil || inner == nil {
			r.failf("%s: Add / newParquetWriter missing in %s", rule, path)
			continue
		}
		// option-settable fields: fields of ParquetWriter stored by any func(*ParquetWriter) error in the package
		pw := u.SSAPkgs[path].Pkg.Scope().Lookup("ParquetWriter")
		own := fieldSet{}
		structFields(pw.Type(), own)
		settable := fieldSet{}
		for _, f := range u.Funcs {
			if u.pkgPathOf(f) != path || len(f.Params) != 1 || f.Signature.Recv() != nil {
				continue
			}
			if p, ok := f.Params[0].Type().(*types.Pointer); !ok || p.Elem() != pw.Type() {
				continue
			}
			for _, b := range f.Blocks {
				for _, ins := range b.Instrs {
					if st, ok := ins.(*ssa.Store); ok {
						if fa, ok := st.Addr.(*ssa.FieldAddr); ok && fa.X == ssa.Value(f.Params[0]) && own[fieldOf(fa)] {
							settable[fieldOf(fa)] = true
						}
					}
				}
			}
		}
		// what an option set stays set: after the options ran, the constructor may fill an option-settable field only when
		// it is still unset (a child writer must keep the parent's metadata object, or its pages miss from the footer)
		{
			var optCalls []ssa.Instruction
			for _, b := range inner.Blocks {
				for _, ins := range b.Instrs {
					if call, ok := ins.(*ssa.Call); ok && !call.Call.IsInvoke() && call.Call.StaticCallee() == nil {
						if _, isB := call.Call.Value.(*ssa.Builtin); !isB {
							optCalls = append(optCalls, call)
						}
					}
				}
			}
			key := short + ".newParquetWriter keeps option values"
			var bad []string
			for _, b := range inner.Blocks {
				after := false
				for _, oc := range optCalls {
					if oc.Block() == b {
						after = true
					}
					for _, x := range reachableBlocks(oc.Block()) {
						if x == b {
							after = true
						}
					}
				}
				if !after {
					continue
				}
				for _, ins := range b.Instrs {
					st, ok := ins.(*ssa.Store)
					if !ok {
						continue
					}
					f := fieldOf(st.Addr)
					if f == nil || !settable[f] {
						continue
					}
					unset := guarded(b, func(iff *ssa.If, truth bool) bool {
						bo, ok := iff.Cond.(*ssa.BinOp)
						if !ok || fieldOfLoad(bo.X) != f {
							return false
						}
						zero := isNilConst(bo.Y) || constIs(bo.Y, 0)
						return zero && ((bo.Op == token.EQL && truth) || (bo.Op == token.NEQ && !truth))
					}, 0)
					if !unset {
						bad = append(bad, fmt.Sprintf("%s is overwritten at %s after the options ran, whether or not an option had set it", f.Name(), u.Pos(st.Pos())))
					}
				}
			}
			// ... and what the constructor derives from an option-settable field (the column objects are built for the
			// configured codec) is derived after the options ran: a read before them sees only the default
			for _, b := range inner.Blocks {
				reaches := false
				for _, x := range reachableBlocks(b) {
					for _, oc := range optCalls {
						if oc.Block() == x {
							reaches = true
						}
					}
				}
				for i, ins := range b.Instrs {
					ld, ok := ins.(*ssa.UnOp)
					if !ok || ld.Op != token.MUL {
						continue
					}
					f := fieldOf(ld.X)
					if f == nil || !settable[f] {
						continue
					}
					early := reaches
					if !early {
						for _, later := range b.Instrs[i+1:] {
							for _, oc := range optCalls {
								if later == oc {
									early = true
								}
							}
						}
					}
					if !early {
						continue
					}
					onlyTests := true
					for _, ref := range *ld.Referrers() {
						if bo, ok := ref.(*ssa.BinOp); !ok || (bo.Op != token.EQL && bo.Op != token.NEQ) {
							onlyTests = false
						}
					}
					if !onlyTests {
						bad = append(bad, fmt.Sprintf("%s is read at %s before the options ran: what is built from it uses the default, not the configured value", f.Name(), u.Pos(ld.Pos())))
					}
				}
			}
			r.count(rule+"/constructors", 1)
			if len(optCalls) == 0 {
				r.undecided(rule, key, u.Pos(inner.Pos()), "newParquetWriter does not apply its options")
			} else if len(bad) > 0 {
				r.bad(rule, key, u.Pos(inner.Pos()), strings.Join(bad, "; ")+": the writer does not end up with what its options (for the next page's writer: its parent) configured")
			} else {
				r.ok(rule, key, u.Pos(inner.Pos()), "after the options ran, option-settable fields are only filled when still unset")
			}
		}
		// the creation site in Add
		// (in Add itself, or in a method Add calls on the same receiver, e.g. a lazily-creating nextPage())
		var site *ssa.Call
		var lit *ssa.Alloc
		var findSite func(fn *ssa.Function, depth int)
		findSite = func(fn *ssa.Function, depth int) {
			for _, b := range fn.Blocks {
				for _, ins := range b.Instrs {
					if al, ok := ins.(*ssa.Alloc); ok && al.Heap {
						if pt, ok := al.Type().(*types.Pointer); ok && types.Identical(pt.Elem(), pw.Type()) {
							lit = al
						}
					}
					call, ok := ins.(*ssa.Call)
					if !ok {
						continue
					}
					sc := call.Call.StaticCallee()
					switch {
					case sc == inner:
						site = call
					case sc != nil && sc != add && depth < 3 && sc.Signature.Recv() != nil && len(call.Call.Args) > 0 && len(fn.Params) > 0 &&
						call.Call.Args[0] == ssa.Value(fn.Params[0]) && u.pkgPathOf(sc) == path:
						findSite(sc, depth+1)
					}
				}
			}
		}
		findSite(add, 0)
		r.count(rule+"/creation-sites", 1)
		key := short + ".(*ParquetWriter).Add child"
		if site == nil && lit != nil {
			// the next page's writer is built as a struct literal: every option-settable field and the sink are copied
			// from the parent there
			got := map[*types.Var]string{}
			for _, ref := range *lit.Referrers() {
				if fa, ok := ref.(*ssa.FieldAddr); ok {
					for _, r2 := range *fa.Referrers() {
						if st, ok := r2.(*ssa.Store); ok && st.Addr == ssa.Value(fa) {
							got[fieldOf(fa)] = symExpr(st.Val, 0)
						}
					}
				}
			}
			var bad, names []string
			want := fieldSet{}
			for f := range settable {
				want[f] = true
			}
			for f := range own {
				// the sink: the writer-typed field of the object
				if types.IsInterface(f.Type()) && strings.HasSuffix(f.Type().String(), "io.Writer") {
					want[f] = true
				}
			}
			for f := range want {
				names = append(names, f.Name())
				if got[f] != "load(recv."+roleOf(f)+")" {
					if got[f] == "" {
						bad = append(bad, f.Name()+" is not passed on")
					} else {
						bad = append(bad, f.Name()+" is set from "+got[f])
					}
				}
			}
			sort.Strings(bad)
			sort.Strings(names)
			pos := u.Pos(lit.Pos())
			if len(bad) > 0 {
				r.bad(rule, key, pos, "the writer of the next page (a struct literal) does not inherit the parent's configuration: "+strings.Join(bad, "; ")+": later pages of a chunk can be written with the defaults (another codec than its footer entry says, another page size)")
			} else {
				r.ok(rule, key, pos, "the next page's writer is a literal copying "+strings.Join(names, ", ")+" from the parent")
			}
			continue
		}
		if site == nil {
			r.undecided(rule, key, u.Pos(add.Pos()), "Add does not create the next page's writer through newParquetWriter")
			continue
		}
		pos := u.Pos(site.Pos())
		// what each option argument transfers: field <- expression in the caller
		got := map[*types.Var]string{}
		unresolved := ""
		var elems []ssa.Value
		last := site.Call.Args[len(site.Call.Args)-1]
		var collect func(v ssa.Value, depth int)
		collect = func(v ssa.Value, depth int) {
			if depth > 4 {
				unresolved = "option list too deep"
				return
			}
			switch x := v.(type) {
			case *ssa.Slice:
				if al, ok := x.X.(*ssa.Alloc); ok {
					for _, ref := range *al.Referrers() {
						if ia, ok := ref.(*ssa.IndexAddr); ok {
							for _, r2 := range *ia.Referrers() {
								if st, ok := r2.(*ssa.Store); ok && st.Addr == ssa.Value(ia) {
									elems = append(elems, st.Val)
								}
							}
						}
					}
					return
				}
				collect(x.X, depth+1)
			case *ssa.Call:
				if bi, ok := x.Call.Value.(*ssa.Builtin); ok && bi.Name() == "append" {
					for _, a := range x.Call.Args {
						collect(a, depth+1)
					}
					return
				}
				elems = append(elems, x)
			case *ssa.Const:
			default:
				unresolved = "options come from " + symExpr(v, 0) + ", not from the parent's own fields"
			}
		}
		collect(last, 0)
		for _, e := range elems {
			switch x := e.(type) {
			case *ssa.Call:
				g := x.Call.StaticCallee()
				if g == nil || !u.InUniverse(g) || len(x.Call.Args) != 1 {
					unresolved = "option " + symExpr(e, 0) + " cannot be resolved"
					continue
				}
				// g returns a closure that stores its free variable into a field
				for _, b := range g.Blocks {
					ret, ok := lastInstr(b).(*ssa.Return)
					if !ok {
						continue
					}
					mc, ok := ret.Results[0].(*ssa.MakeClosure)
					captures := false
					if ok && len(mc.Bindings) == 1 {
						switch bnd := mc.Bindings[0].(type) {
						case *ssa.Parameter:
							captures = bnd == g.Params[0]
						case *ssa.Alloc:
							// captured by reference: the cell holds the parameter and nothing else is stored into it
							n := 0
							for _, ref := range *bnd.Referrers() {
								if st, ok := ref.(*ssa.Store); ok && st.Addr == ssa.Value(bnd) {
									n++
									captures = st.Val == ssa.Value(g.Params[0])
								}
							}
							if n != 1 {
								captures = false
							}
						}
					}
					if !captures {
						unresolved = "option constructor " + g.Name() + " does not simply capture its argument"
						continue
					}
					cl := mc.Fn.(*ssa.Function)
					for _, b2 := range cl.Blocks {
						for _, ins := range b2.Instrs {
							if st, ok := ins.(*ssa.Store); ok {
								if fa, ok := st.Addr.(*ssa.FieldAddr); ok && fa.X == ssa.Value(cl.Params[0]) {
									if ld, ok := st.Val.(*ssa.UnOp); ok && ld.X == ssa.Value(cl.FreeVars[0]) {
										got[fieldOf(fa)] = symExpr(x.Call.Args[0], 0)
									} else if st.Val == ssa.Value(cl.FreeVars[0]) {
										got[fieldOf(fa)] = symExpr(x.Call.Args[0], 0)
									}
								}
							}
						}
					}
				}
			case *ssa.Function:
				// a fixed setter such as Snappy: not an inheritance
			default:
				unresolved = "option " + symExpr(e, 0) + " cannot be resolved"
			}
		}
		var bad []string
		var names []string
		for f := range settable {
			names = append(names, f.Name())
			want := "load(recv." + roleOf(f) + ")"
			if got[f] != want {
				if got[f] == "" {
					bad = append(bad, f.Name()+" is not passed on")
				} else {
					bad = append(bad, f.Name()+" is set from "+got[f])
				}
			}
		}
		// the sink
		if len(site.Call.Args) > 0 {
			if f := fieldOfLoad(site.Call.Args[0]); f == nil || !own[f] || !strings.HasPrefix(symExpr(site.Call.Args[0], 0), "load(recv.") {
				bad = append(bad, "the sink handed to the child is not the parent's")
			}
		}
		sort.Strings(bad)
		sort.Strings(names)
		switch {
		case len(bad) > 0:
			msg := strings.Join(bad, "; ")
			if unresolved != "" {
				msg += " (" + unresolved + ")"
			}
			r.bad(rule, key, pos, "the writer of the next page does not provably inherit the parent's configuration: "+msg+": later pages of a chunk can be written with the defaults (another codec than its footer entry says, another page size)")
		default:
			r.ok(rule, key, pos, "the next page's writer gets the parent's sink and "+strings.Join(names, ", "))
		}
	}
	r.floor(rule+"/creation-sites", len(u.TC), "one per generated package")
}

// --- WH-groups: no row group without rows reaches the footer ---
func runWHGroups(c *Ctx, rule string) {
	r, u := c.R, c.U
	rgs := schemaField(u, "FileMetaData", "RowGroups")
	numRows := schemaField(u, "RowGroup", "NumRows")
	if rgs == nil || numRows == nil {
		r.failf("%s: schema fields not found", rule)
		return
	}
	// A: in the runtime, every append to FileMetaData.RowGroups is guarded by NumRows != 0 of a row group
	footerGuard := false
	where := ""
	rgCtor, rgOther := storesTo(u, rgs)
	for _, st := range append(rgCtor, rgOther...) {
		if u.pkgPathOf(st.Parent()) != rtPath {
			continue
		}
		call, ok := st.Val.(*ssa.Call)
		if !ok {
			continue
		}
		if bi, ok := call.Call.Value.(*ssa.Builtin); !ok || bi.Name() != "append" {
			continue
		}
		where = u.Pos(st.Pos())
		footerGuard = guarded(st.Block(), func(iff *ssa.If, truth bool) bool {
			return nonZeroTest(iff.Cond, truth, func(v ssa.Value) bool { return fieldOfLoad(v) == numRows })
		}, 0)
	}
	// A': when Footer decides by NumRows which row groups exist, NumRows must become non-zero at write time only: a store
	// on the Add path makes the row group that collects the records still pending at Close look written (and counts them)
	if footerGuard {
		var adds []*ssa.Function
		for _, p := range u.TC {
			if f := u.Func(p, "ParquetWriter.Add"); f != nil {
				adds = append(adds, f)
			}
		}
		fromAdd := u.reach(adds)
		ctor, other := storesTo(u, numRows)
		n := 0
		for _, st := range append(ctor, other...) {
			if u.pkgPathOf(st.Parent()) != rtPath || constIs(st.Val, 0) {
				continue
			}
			n++
			r.count(rule+"/numrows-stores", 1)
			key := fmt.Sprintf("%s store to RowGroup.NumRows", u.FnName(st.Parent()))
			// the value: the per-row-group record counter — a Metadata field advanced by one per record (on the Add path), restarted
			// when a row group is started — assigned, not accumulated (it is stored again for every page of the group)
			if !fromAdd[st.Parent()] {
				cf := fieldOfLoad(stripConvert(st.Val))
				k2 := key + " value"
				switch {
				case cf == nil:
					r.bad(rule, k2, u.Pos(st.Pos()), "RowGroup.NumRows is set to "+symExpr(st.Val, 0)+", want the plain per-row-group record counter (the store runs once per page: anything accumulated counts the records once per page)")
				default:
					incOK, resetOK := false, false
					var why []string
					cc, co := storesTo(u, cf)
					for _, s2 := range append(cc, co...) {
						if u.pkgPathOf(s2.Parent()) != rtPath {
							continue
						}
						bo, isB := s2.Val.(*ssa.BinOp)
						switch {
						case isB && bo.Op == token.ADD && constIs(bo.Y, 1) && fieldOfLoad(bo.X) == cf:
							if fromAdd[s2.Parent()] {
								incOK = true
							} else {
								why = append(why, cf.Name()+" is advanced in "+u.FnName(s2.Parent())+", which Add does not reach")
							}
						case constIs(s2.Val, 0):
							// restarted where a row group is opened: the function also appends to the list of row groups
							opens := false
							for _, b := range s2.Parent().Blocks {
								for _, ins := range b.Instrs {
									if s3, ok := ins.(*ssa.Store); ok {
										if f3 := fieldOf(s3.Addr); f3 != nil && roleOf(f3) == "rowGroups" {
											opens = true
										}
									}
								}
							}
							if opens {
								resetOK = true
							}
						default:
							why = append(why, cf.Name()+" is set to "+symExpr(s2.Val, 0)+" in "+u.FnName(s2.Parent()))
						}
					}
					if !incOK {
						why = append(why, cf.Name()+" is not advanced by one per record on the Add path")
					}
					if !resetOK {
						why = append(why, cf.Name()+" is not restarted at 0 where a row group is opened: the second row group would report the records of both")
					}
					if len(why) > 0 {
						r.bad(rule, k2, u.Pos(st.Pos()), strings.Join(why, "; "))
					} else {
						r.ok(rule, k2, u.Pos(st.Pos()), "NumRows = "+cf.Name()+" (one per record, restarted per row group)")
					}
				}
			}
			if fromAdd[st.Parent()] {
				r.bad(rule, key, u.Pos(st.Pos()), "RowGroup.NumRows — the quantity Footer uses to decide which row groups were written and sums into the file's row count — is advanced on the Add path ("+u.FnName(st.Parent())+"): records still pending at Close make the trailing, never written row group non-empty, so the footer lists a row group without column chunks and counts rows that are not in the file")
			} else {
				r.ok(rule, key, u.Pos(st.Pos()), "not reachable from ParquetWriter.Add: NumRows becomes non-zero only when pages are written")
			}
		}
		r.floor(rule+"/numrows-stores", 1, "updateRowGroup")
	}
	for _, path := range u.TC {
		short := strings.TrimPrefix(path, "uni/")
		wr := u.Func(path, "ParquetWriter.Write")
		add := u.Func(path, "ParquetWriter.Add")
		if wr == nil || add == nil {
			continue
		}
		r.count(rule, 1)
		counters := map[*types.Var]bool{}
		for _, f := range incrementedFields(add) {
			counters[f] = true
		}
		writeGuard := false
		for _, b := range wr.Blocks {
			for _, ins := range b.Instrs {
				if call, ok := ins.(*ssa.Call); ok {
					if sc := call.Call.StaticCallee(); sc != nil && sc.Name() == "StartRowGroup" {
						writeGuard = guarded(b, func(iff *ssa.If, truth bool) bool {
							return nonZeroTest(iff.Cond, truth, func(v ssa.Value) bool { f := fieldOfLoad(v); return f != nil && counters[f] })
						}, 0)
					}
				}
			}
		}
		key := short + " empty row groups"
		switch {
		case footerGuard:
			r.ok(rule, key, where, "Footer emits a row group only under NumRows != 0")
		case writeGuard:
			r.ok(rule, key, u.Pos(wr.Pos()), "Write opens a new row group only when rows were pending")
		default:
			r.bad(rule, key, where, "nothing keeps a row group without rows out of the footer: Footer does not test NumRows before emitting a group and Write opens a new row group even when nothing was pending — a Write with nothing pending leaves an empty row group between two batches, and the reader returns zero-valued records for the rows after it")
		}
	}
	r.floor(rule, len(u.TC), "one writer per generated package")
}
