package main

// Resource identity (DESIGN.md §3.2): a flow-insensitive, field-based,
// context-insensitive wrapper-alias analysis over SSA. It tracks the identity
// of a resource (the sink io.Writer / the source io.ReadSeeker) through
// copies, struct fields, wrappers, calls and closures — never data read from
// or written to it.

import (
	"go/token"
	"go/types"

	"golang.org/x/tools/go/ssa"
)

type Taint struct {
	u    *Universe
	tagV map[ssa.Value]bool
	tagF map[*types.Var]bool
	dirt bool
}

var errorType = types.Universe.Lookup("error").Type()

func isErr(t types.Type) bool { return types.Identical(t, errorType) }

func wrapperish(t types.Type) bool {
	if isErr(t) {
		return false
	}
	switch t.Underlying().(type) {
	case *types.Pointer, *types.Interface, *types.Struct:
		return true
	}
	return false
}

func fieldOf(v ssa.Value) *types.Var {
	switch x := v.(type) {
	case *ssa.FieldAddr:
		if p, ok := x.X.Type().Underlying().(*types.Pointer); ok {
			if st, ok := p.Elem().Underlying().(*types.Struct); ok {
				return st.Field(x.Field)
			}
		}
	case *ssa.Field:
		if st, ok := x.X.Type().Underlying().(*types.Struct); ok {
			return st.Field(x.Field)
		}
	}
	return nil
}

func (u *Universe) NewTaint(seeds ...ssa.Value) *Taint {
	t := &Taint{u: u, tagV: map[ssa.Value]bool{}, tagF: map[*types.Var]bool{}}
	for _, s := range seeds {
		t.tag(s)
	}
	t.propagate()
	return t
}

func (t *Taint) Has(v ssa.Value) bool { return v != nil && t.tagV[v] }

func (t *Taint) tag(v ssa.Value) {
	if v == nil || t.tagV[v] || isErr(v.Type()) {
		return
	}
	t.tagV[v] = true
	t.dirt = true
}

func (t *Taint) tagField(f *types.Var) {
	if f != nil && !t.tagF[f] {
		t.tagF[f] = true
		t.dirt = true
	}
}

// callArgs returns receiver (for invokes) followed by the arguments.
func callArgs(c *ssa.CallCommon) []ssa.Value {
	var args []ssa.Value
	if c.IsInvoke() {
		args = append(args, c.Value)
	}
	return append(args, c.Args...)
}

func (t *Taint) AnyArg(site ssa.CallInstruction) bool {
	for _, a := range callArgs(site.Common()) {
		if t.tagV[a] {
			return true
		}
	}
	return false
}

func (t *Taint) propagate() {
	for t.dirt = true; t.dirt; {
		t.dirt = false
		for _, f := range t.u.Funcs {
			for _, b := range f.Blocks {
				for _, ins := range b.Instrs {
					t.step(ins)
				}
			}
		}
	}
}

func (t *Taint) step(ins ssa.Instruction) {
	switch x := ins.(type) {
	case *ssa.Phi:
		for _, e := range x.Edges {
			if t.tagV[e] {
				t.tag(x)
			}
		}
	case *ssa.MakeInterface:
		if t.tagV[x.X] {
			t.tag(x)
		}
	case *ssa.ChangeInterface:
		if t.tagV[x.X] {
			t.tag(x)
		}
	case *ssa.ChangeType:
		if t.tagV[x.X] {
			t.tag(x)
		}
	case *ssa.Convert:
		if t.tagV[x.X] && wrapperish(x.Type()) {
			t.tag(x)
		}
	case *ssa.TypeAssert:
		if t.tagV[x.X] {
			t.tag(x)
		}
	case *ssa.Extract:
		if t.tagV[x.Tuple] && wrapperish(x.Type()) {
			t.tag(x)
		}
	case *ssa.Store:
		if t.tagV[x.Val] {
			if fv := fieldOf(x.Addr); fv != nil {
				t.tagField(fv)
				if fa, ok := x.Addr.(*ssa.FieldAddr); ok {
					t.tag(fa.X) // the struct holding the resource is a wrapper
				}
			} else if al, ok := x.Addr.(*ssa.Alloc); ok {
				t.tag(al)
			} else if ia, ok := x.Addr.(*ssa.IndexAddr); ok {
				t.tag(ia.X)
			} else if g, ok := x.Addr.(*ssa.Global); ok {
				t.tag(g)
			}
		}
	case *ssa.UnOp:
		if x.Op == token.MUL {
			if fv := fieldOf(x.X); fv != nil && t.tagF[fv] {
				t.tag(x)
			}
			if t.tagV[x.X] && wrapperish(x.Type()) {
				switch src := x.X.(type) {
				case *ssa.Alloc:
					// load of a cell that holds a tagged value; a struct cell is a wrapper, its value too
					t.tag(x)
				case *ssa.IndexAddr, *ssa.Global:
					_ = src
					t.tag(x)
				}
			}
		}
	case *ssa.IndexAddr:
		if t.tagV[x.X] {
			// address into an array/slice that holds a tagged value
			if wrapperishElem(x.Type()) {
				t.tag(x)
			}
		}
	case *ssa.Slice:
		if t.tagV[x.X] {
			t.tag(x)
		}
	case *ssa.Field:
		if fv := fieldOf(x); fv != nil && t.tagF[fv] {
			t.tag(x)
		}
	case *ssa.MakeClosure:
		fn := x.Fn.(*ssa.Function)
		for i, b := range x.Bindings {
			if t.tagV[b] {
				t.tag(fn.FreeVars[i])
				t.tag(x)
			}
		}
	case ssa.CallInstruction:
		t.call(x)
	}
}

func wrapperishElem(t types.Type) bool {
	if p, ok := t.Underlying().(*types.Pointer); ok {
		return wrapperish(p.Elem())
	}
	return false
}

func (t *Taint) call(site ssa.CallInstruction) {
	c := site.Common()
	args := callArgs(c)
	any := false
	for _, a := range args {
		if t.tagV[a] {
			any = true
		}
	}
	if b, ok := c.Value.(*ssa.Builtin); ok {
		// append(tagged slice of funcs/wrappers, ...) keeps the tag
		if b.Name() == "append" && any {
			if v, ok := site.(ssa.Value); ok {
				t.tag(v)
			}
		}
		return
	}
	uni := false
	for _, cal := range t.u.Callees(site) {
		if !t.u.InUniverse(cal) || cal.Blocks == nil {
			continue
		}
		uni = true
		for i, a := range args {
			if t.tagV[a] && i < len(cal.Params) {
				t.tag(cal.Params[i])
			}
		}
		if v, ok := site.(ssa.Value); ok {
			for _, b := range cal.Blocks {
				r, ok := b.Instrs[len(b.Instrs)-1].(*ssa.Return)
				if !ok {
					continue
				}
				for i, res := range r.Results {
					if !t.tagV[res] {
						continue
					}
					if len(r.Results) == 1 {
						t.tag(v)
					} else if refs := v.Referrers(); refs != nil {
						for _, ref := range *refs {
							if ex, ok := ref.(*ssa.Extract); ok && ex.Index == i {
								t.tag(ex)
							}
						}
					}
				}
			}
		}
	}
	if !uni && any {
		// opaque callee: a pointer/interface/struct result built from the resource wraps it
		if v, ok := site.(ssa.Value); ok {
			if tup, isTuple := v.Type().(*types.Tuple); isTuple {
				if refs := v.Referrers(); refs != nil {
					for _, ref := range *refs {
						if ex, ok := ref.(*ssa.Extract); ok && wrapperish(tup.At(ex.Index).Type()) {
							t.tag(ex)
						}
					}
				}
			} else if wrapperish(v.Type()) {
				t.tag(v)
			}
		}
	}
}
