package main

// LA-maxlevels, LA-trim, LA-pages: structural necessary conditions around the level bookkeeping of optional columns
// (C03, C04, C01) found by anchor-driven mutation probing (DESIGN.md §13).

import (
	"fmt"
	"go/constant"
	"go/token"
	"go/types"
	"sort"
	"strings"

	"golang.org/x/tools/go/ssa"
)

// countedSet: result `ri` of fn is a counter over the elements of its slice receiver/parameter: for each value of the finite
// domain the path through one loop iteration is followed (the element is touched only through comparisons with
// constants) and the net increment of the counter along it is computed, giving the exact set of element values that
// are counted. A result that is another function's result (on the same slice) is followed.
func countedSet(fn *ssa.Function, ri int, domain []int64, depth int) (map[int64]bool, string) {
	if fn == nil || fn.Blocks == nil || len(fn.Params) != 1 || depth > 3 {
		return nil, "unexpected signature"
	}
	src := ssa.Value(fn.Params[0])
	// the returned value for result ri
	var rv ssa.Value
	for _, b := range fn.Blocks {
		if ret, ok := lastInstr(b).(*ssa.Return); ok && ri < len(ret.Results) {
			if rv != nil && rv != ret.Results[ri] {
				return nil, "several different values are returned"
			}
			rv = ret.Results[ri]
		}
	}
	if rv == nil {
		return nil, "no such result"
	}
	// delegation: the result of another counting function applied to the same slice
	switch x := rv.(type) {
	case *ssa.Extract:
		if call, ok := x.Tuple.(*ssa.Call); ok {
			if sc := call.Call.StaticCallee(); sc != nil && len(call.Call.Args) == 1 && call.Call.Args[0] == src {
				return countedSet(sc, x.Index, domain, depth+1)
			}
		}
	case *ssa.Call:
		if sc := x.Call.StaticCallee(); sc != nil && len(x.Call.Args) == 1 && x.Call.Args[0] == src {
			return countedSet(sc, 0, domain, depth+1)
		}
	}
	counter, ok := rv.(*ssa.Phi)
	if !ok {
		return nil, "the result is not a loop-carried counter"
	}
	header := counter.Block()
	isElem := func(v ssa.Value) bool {
		ld, ok := stripConvert(v).(*ssa.UnOp)
		if !ok || ld.Op != token.MUL {
			return false
		}
		ia, ok := ld.X.(*ssa.IndexAddr)
		return ok && ia.X == src
	}
	// the loop body entry: the successor of the header that is inside the loop
	var body *ssa.BasicBlock
	if iff, ok := lastInstr(header).(*ssa.If); ok {
		_ = iff
		for _, sblk := range header.Succs {
			for _, x := range reachableBlocks(sblk) {
				if x == header {
					body = sblk
				}
			}
		}
	}
	if body == nil {
		return nil, "the counter is not carried by a loop over the elements"
	}
	out := map[int64]bool{}
	for _, v := range domain {
		b := body
		var path []*ssa.BasicBlock
		okPath := false
		for steps := 0; steps < 64; steps++ {
			path = append(path, b)
			if b == header {
				okPath = true
				break
			}
			switch t := lastInstr(b).(type) {
			case *ssa.Jump:
				b = b.Succs[0]
			case *ssa.If:
				bo, ok := t.Cond.(*ssa.BinOp)
				if !ok {
					return nil, "a condition inside the loop is not a comparison of the element with a constant"
				}
				var k *ssa.Const
				flip := false
				switch {
				case isElem(bo.X):
					k, _ = bo.Y.(*ssa.Const)
				case isElem(bo.Y):
					k, _ = bo.X.(*ssa.Const)
					flip = true
				}
				if k == nil || k.Value == nil || k.Value.Kind() != constant.Int {
					return nil, "a condition inside the loop is not a comparison of the element with a constant"
				}
				kv, _ := constant.Int64Val(k.Value)
				l, r := v, kv
				if flip {
					l, r = kv, v
				}
				var truth bool
				switch bo.Op {
				case token.EQL:
					truth = l == r
				case token.NEQ:
					truth = l != r
				case token.LSS:
					truth = l < r
				case token.LEQ:
					truth = l <= r
				case token.GTR:
					truth = l > r
				case token.GEQ:
					truth = l >= r
				default:
					return nil, "unsupported comparison " + bo.Op.String()
				}
				if truth {
					b = b.Succs[0]
				} else {
					b = b.Succs[1]
				}
			default:
				return nil, "the loop body leaves the loop"
			}
		}
		if !okPath {
			return nil, "the loop body does not return to the loop test"
		}
		// the value the counter receives at the end of this path
		predOf := func(blk *ssa.BasicBlock) *ssa.BasicBlock {
			for i := len(path) - 1; i > 0; i-- {
				if path[i] == blk {
					return path[i-1]
				}
			}
			return nil
		}
		var delta func(x ssa.Value, at *ssa.BasicBlock, d int) (int, bool)
		delta = func(x ssa.Value, at *ssa.BasicBlock, d int) (int, bool) {
			if d > 12 {
				return 0, false
			}
			if x == ssa.Value(counter) {
				return 0, true
			}
			switch y := x.(type) {
			case *ssa.BinOp:
				if y.Op == token.ADD && constIs(y.Y, 1) {
					n, ok := delta(y.X, at, d+1)
					return n + 1, ok
				}
			case *ssa.Phi:
				p := predOf(y.Block())
				if y.Block() == header {
					return 0, false
				}
				for i, pb := range y.Block().Preds {
					if pb == p {
						return delta(y.Edges[i], at, d+1)
					}
				}
			}
			return 0, false
		}
		last := path[len(path)-2]
		var incoming ssa.Value
		for i, pb := range header.Preds {
			if pb == last {
				incoming = counter.Edges[i]
			}
		}
		if incoming == nil {
			return nil, "the counter's value after an iteration was not found"
		}
		n, okD := delta(incoming, header, 0)
		if !okD || n > 1 {
			return nil, "the counter is not advanced by at most one per element"
		}
		if n == 1 {
			out[v] = true
		}
	}
	return out, ""
}

// repetitionKinds: index -> name of the schema.FieldRepetitionType constant that fieldFuncs[index] declares.
func repetitionKinds(u *Universe) (map[int64]string, string) {
	p := u.SSAPkgs[rtPath]
	if p == nil {
		return nil, "runtime package not built"
	}
	// the table of repetition setters: the package-level slice of functions NewOptionalField indexes by the last repetition code
	var g *ssa.Global
	if ctor := u.Func(rtPath, "NewOptionalField"); ctor != nil {
		for _, b := range ctor.Blocks {
			for _, ins := range b.Instrs {
				if ld, ok := ins.(*ssa.UnOp); ok && ld.Op == token.MUL {
					if gl, ok := ld.X.(*ssa.Global); ok {
						if sl, ok := gl.Type().(*types.Pointer).Elem().Underlying().(*types.Slice); ok {
							if _, isFn := sl.Elem().Underlying().(*types.Signature); isFn {
								g = gl
							}
						}
					}
				}
			}
		}
	}
	if g == nil {
		// not loaded by the constructor (a helper chooses the leaf's repetition): the table is still the package-level slice of
		// functions of the runtime, found by type
		g = repetitionTable(u)
	}
	if g == nil {
		return nil, "parquet.fieldFuncs not found"
	}
	schPkg := u.Pkgs[rtPath].Imports[schPath]
	kindName := func(v int64) string {
		for _, n := range schPkg.Types.Scope().Names() {
			if c, ok := schPkg.Types.Scope().Lookup(n).(*types.Const); ok && strings.HasPrefix(n, "FieldRepetitionType_") {
				if cv, ok := constant.Int64Val(c.Val()); ok && cv == v {
					return strings.TrimPrefix(n, "FieldRepetitionType_")
				}
			}
		}
		return ""
	}
	rep := schemaField(u, "SchemaElement", "RepetitionType")
	declared := func(fn *ssa.Function) string {
		// fn stores the address of a cell holding one constant into se.RepetitionType
		for _, b := range fn.Blocks {
			for _, ins := range b.Instrs {
				st, ok := ins.(*ssa.Store)
				if !ok || fieldOf(st.Addr) != rep {
					continue
				}
				al, ok := st.Val.(*ssa.Alloc)
				if !ok {
					return ""
				}
				name := ""
				n := 0
				for _, ref := range *al.Referrers() {
					if s2, ok := ref.(*ssa.Store); ok && s2.Addr == ssa.Value(al) {
						n++
						if k, ok := s2.Val.(*ssa.Const); ok && k.Value != nil {
							kv, _ := constant.Int64Val(k.Value)
							name = kindName(kv)
						}
					}
				}
				if n == 1 {
					return name
				}
			}
		}
		return ""
	}
	out := map[int64]string{}
	init := p.Func("init")
	for _, b := range init.Blocks {
		for _, ins := range b.Instrs {
			st, ok := ins.(*ssa.Store)
			if !ok {
				continue
			}
			ia, ok := st.Addr.(*ssa.IndexAddr)
			if !ok {
				continue
			}
			// the array backing fieldFuncs: its slice is what init stores into the global
			al, ok := ia.X.(*ssa.Alloc)
			if !ok {
				continue
			}
			backs := false
			for _, ref := range *al.Referrers() {
				if sl, ok := ref.(*ssa.Slice); ok {
					for _, r2 := range *sl.Referrers() {
						if s2, ok := r2.(*ssa.Store); ok && s2.Addr == ssa.Value(g) {
							backs = true
						}
					}
				}
			}
			if !backs {
				continue
			}
			idx, ok := ia.Index.(*ssa.Const)
			if !ok {
				continue
			}
			iv, _ := constant.Int64Val(idx.Value)
			var fn *ssa.Function
			switch x := st.Val.(type) {
			case *ssa.Function:
				fn = x
			case *ssa.ChangeType:
				fn, _ = x.X.(*ssa.Function)
			case *ssa.MakeClosure:
				fn, _ = x.Fn.(*ssa.Function)
			}
			if fn == nil {
				return nil, "fieldFuncs holds something other than a function"
			}
			out[iv] = declared(fn)
		}
	}
	if len(out) == 0 {
		return nil, "fieldFuncs initialiser not understood"
	}
	return out, ""
}

// repetitionTable: the package-level slice of functions of the runtime (the repetition setters indexed by repetition code);
// nil unless there is exactly one.
func repetitionTable(u *Universe) *ssa.Global {
	p := u.SSAPkgs[rtPath]
	if p == nil {
		return nil
	}
	var found []*ssa.Global
	for _, m := range p.Members {
		gl, ok := m.(*ssa.Global)
		if !ok {
			continue
		}
		if sl, ok := gl.Type().(*types.Pointer).Elem().Underlying().(*types.Slice); ok {
			if _, isFn := sl.Elem().Underlying().(*types.Signature); isFn {
				found = append(found, gl)
			}
		}
	}
	if len(found) != 1 {
		return nil
	}
	return found[0]
}

// laLeafKind (C15, C02): the repetition the footer declares for an optional/repeated column's leaf is the one its own last
// repetition code selects in the table of repetition setters. Schema() hands out the field the constructor stores (FT schema);
// here: the constructor stores table[types[len(types)-1]] and nothing else. A leaf declared with another repetition than the
// code the levels were computed from (a required leaf in an optional group declared OPTIONAL) is written and read back
// unchanged by the generating struct, and misread by a struct regenerated from the footer.
func laLeafKind(c *Ctx, rule string) {
	r, u := c.R, c.U
	key := "parquet.NewOptionalField leaf repetition"
	r.count(rule+"/constructors", 1)
	ctor := u.Func(rtPath, "NewOptionalField")
	tbl := repetitionTable(u)
	if ctor == nil || tbl == nil {
		r.undecided(rule, key, "", "constructor of optional columns or the table of repetition setters not found")
		return
	}
	// the field: the function-typed field of OptionalField whose signature is the table's element type
	elem := tbl.Type().(*types.Pointer).Elem().Underlying().(*types.Slice).Elem()
	var leafF *types.Var
	if o := u.Pkgs[rtPath].Types.Scope().Lookup("OptionalField"); o != nil {
		if st, ok := o.Type().Underlying().(*types.Struct); ok {
			for i := 0; i < st.NumFields(); i++ {
				if types.Identical(st.Field(i).Type(), elem) {
					if leafF != nil {
						r.undecided(rule, key, u.Pos(ctor.Pos()), "OptionalField has several fields of the repetition setter's type")
						return
					}
					leafF = st.Field(i)
				}
			}
		}
	}
	if leafF == nil {
		r.undecided(rule, key, u.Pos(ctor.Pos()), "OptionalField has no field of the repetition setter's type")
		return
	}
	var typesParam *ssa.Parameter
	for _, p := range ctor.Params {
		if sl, ok := p.Type().Underlying().(*types.Slice); ok {
			if b, ok := sl.Elem().Underlying().(*types.Basic); ok && b.Info()&types.IsInteger != 0 {
				typesParam = p
			}
		}
	}
	if typesParam == nil {
		r.undecided(rule, key, u.Pos(ctor.Pos()), "the constructor has no parameter holding repetition codes")
		return
	}
	// is v the last element of the codes: load(&codes[len(codes)-1])
	isLast := func(v ssa.Value) bool {
		v = stripConvert(v)
		ld, ok := v.(*ssa.UnOp)
		if !ok || ld.Op != token.MUL {
			return false
		}
		ia, ok := ld.X.(*ssa.IndexAddr)
		if !ok || ia.X != ssa.Value(typesParam) {
			return false
		}
		bo, ok := stripConvert(ia.Index).(*ssa.BinOp)
		if !ok || bo.Op != token.SUB || !constIs(bo.Y, 1) {
			return false
		}
		call, ok := stripConvert(bo.X).(*ssa.Call)
		if !ok {
			return false
		}
		b, ok := call.Call.Value.(*ssa.Builtin)
		return ok && b.Name() == "len" && len(call.Call.Args) == 1 && call.Call.Args[0] == ssa.Value(typesParam)
	}
	stores := 0
	var bad []string
	for _, b := range ctor.Blocks {
		for _, ins := range b.Instrs {
			st, ok := ins.(*ssa.Store)
			if !ok || fieldOf(st.Addr) != leafF {
				continue
			}
			stores++
			good := false
			if ld, ok := st.Val.(*ssa.UnOp); ok && ld.Op == token.MUL {
				if ia, ok := ld.X.(*ssa.IndexAddr); ok {
					if tl, ok := ia.X.(*ssa.UnOp); ok && tl.Op == token.MUL && tl.X == ssa.Value(tbl) && isLast(ia.Index) {
						good = true
					}
				}
			}
			if !good {
				bad = append(bad, fmt.Sprintf("%s is %s at %s", leafF.Name(), symExpr(st.Val, 0), u.Pos(st.Pos())))
			}
		}
	}
	switch {
	case stores == 0:
		r.undecided(rule, key, u.Pos(ctor.Pos()), "the constructor does not store the leaf's repetition setter itself")
	case len(bad) > 0:
		r.undecided(rule, key, u.Pos(ctor.Pos()), "the leaf's repetition is not recognisably the table entry of the column's last repetition code ("+tbl.Name()+"[types[len(types)-1]]): "+strings.Join(bad, "; ")+" — the footer may declare the leaf with another repetition than the one its levels are computed from")
	default:
		r.ok(rule, key, u.Pos(ctor.Pos()), leafF.Name()+" = "+tbl.Name()+"[last repetition code of the column]")
	}
}

func setString(m map[int64]bool, names map[int64]string) string {
	var ks []int64
	for k := range m {
		ks = append(ks, k)
	}
	sort.Slice(ks, func(i, j int) bool { return ks[i] < ks[j] })
	var out []string
	for _, k := range ks {
		out = append(out, fmt.Sprintf("%d=%s", k, names[k]))
	}
	return "{" + strings.Join(out, ", ") + "}"
}

// laMaxLevels (C03, C01): the column's maximum definition level is the number of optional or repeated nodes on its path, its
// maximum repetition level the number of repeated ones — with "optional"/"repeated" meaning the kinds the footer schema
// declares for the same codes (fieldFuncs) — and NewOptionalField stores exactly those.
func laMaxLevels(c *Ctx, rule string) {
	r, u := c.R, c.U
	kinds, why := repetitionKinds(u)
	if kinds == nil {
		r.undecided(rule, "parquet.fieldFuncs", "", why)
		return
	}
	var domain []int64
	wantDef, wantRep := map[int64]bool{}, map[int64]bool{}
	for k, n := range kinds {
		domain = append(domain, k)
		switch n {
		case "OPTIONAL":
			wantDef[k] = true
		case "REPEATED":
			wantDef[k], wantRep[k] = true, true
		case "REQUIRED":
		default:
			r.bad(rule, "parquet.fieldFuncs kinds", "", fmt.Sprintf("fieldFuncs[%d] does not declare one repetition type", k))
			return
		}
	}
	sort.Slice(domain, func(i, j int) bool { return domain[i] < domain[j] })
	if len(domain) != 3 || len(wantRep) != 1 || len(wantDef) != 2 {
		r.bad(rule, "parquet.fieldFuncs kinds", "", "the repetition codes do not map one to one to REQUIRED, OPTIONAL, REPEATED: "+fmt.Sprint(kinds))
		return
	}
	r.ok(rule, "parquet.fieldFuncs kinds", "", fmt.Sprintf("repetition codes: %v", kinds))
	for _, t := range []struct {
		name string
		want map[int64]bool
		what string
	}{{"RepetitionTypes.MaxDef", wantDef, "optional or repeated"}, {"RepetitionTypes.MaxRep", wantRep, "repeated"}} {
		fn := u.Func(rtPath, t.name)
		key := "parquet." + t.name
		r.count(rule+"/level-counters", 1)
		if fn == nil {
			r.undecided(rule, key, "", "function not found")
			continue
		}
		got, why := countedSet(fn, 0, domain, 0)
		switch {
		case got == nil:
			r.undecided(rule, key, u.Pos(fn.Pos()), why)
		case setString(got, kinds) != setString(t.want, kinds):
			r.bad(rule, key, u.Pos(fn.Pos()), fmt.Sprintf("counts the path elements whose kind is in %s, the maximum level is the number of %s ones %s: levels and their bit width no longer match what the footer schema says about the column", setString(got, kinds), t.what, setString(t.want, kinds)))
		default:
			r.ok(rule, key, u.Pos(fn.Pos()), "counts exactly the "+t.what+" path elements "+setString(got, kinds))
		}
	}
	// NewOptionalField wires them
	ctor := u.Func(rtPath, "NewOptionalField")
	key := "parquet.NewOptionalField"
	if ctor == nil {
		r.undecided(rule, key, "", "function not found")
		return
	}
	defF, repF := rtField(u, rtPath, "MaxLevel", "Def"), rtField(u, rtPath, "MaxLevel", "Rep")
	// the flag that says whether repetition levels are written: the (only) bool field of OptionalField
	var repeatedF *types.Var
	if o := u.Pkgs[rtPath].Types.Scope().Lookup("OptionalField"); o != nil {
		if st, ok := o.Type().Underlying().(*types.Struct); ok {
			for i := 0; i < st.NumFields(); i++ {
				if b, ok := st.Field(i).Type().Underlying().(*types.Basic); ok && b.Kind() == types.Bool {
					repeatedF = st.Field(i)
				}
			}
		}
	}
	if defF == nil || repF == nil || repeatedF == nil {
		r.undecided(rule, key, u.Pos(ctor.Pos()), "MaxLevel.Def/Rep or OptionalField.repeated not found")
		return
	}
	// what a value counts: it is result i of a counting function applied to the column's repetition types
	countsOf := func(v ssa.Value) (string, ssa.Value) {
		v = stripConvert(v)
		ri := 0
		if ex, ok := v.(*ssa.Extract); ok {
			v, ri = ex.Tuple, ex.Index
		}
		call, ok := v.(*ssa.Call)
		if !ok {
			return "", nil
		}
		sc := call.Call.StaticCallee()
		if sc == nil || len(call.Call.Args) == 0 {
			return "", nil
		}
		got, _ := countedSet(sc, ri, domain, 0)
		if got == nil {
			return "", nil
		}
		return setString(got, kinds), call.Call.Args[0]
	}
	wantDefS, wantRepS := setString(wantDef, kinds), setString(wantRep, kinds)
	// the argument of MaxDef/MaxRep is the elementwise conversion of the constructor's own `types` parameter
	fromTypes := func(v ssa.Value) bool {
		s := symExpr(v, 0)
		return strings.Contains(s, "param:types")
	}
	var bad []string
	seen := map[*types.Var]bool{}
	for _, b := range ctor.Blocks {
		for _, ins := range b.Instrs {
			st, ok := ins.(*ssa.Store)
			if !ok {
				continue
			}
			f := fieldOf(st.Addr)
			switch f {
			case defF, repF:
				want, what := wantDefS, "optional or repeated"
				if f == repF {
					want, what = wantRepS, "repeated"
				}
				seen[f] = true
				if got, arg := countsOf(st.Val); got != want || arg == nil || !fromTypes(arg) {
					bad = append(bad, fmt.Sprintf("MaxLevels.%s is %s (counting %s), want the number of %s elements %s of the column's repetition types", f.Name(), symExpr(st.Val, 0), got, what, want))
				}
			case repeatedF:
				seen[f] = true
				okRep := false
				if bo, ok := st.Val.(*ssa.BinOp); ok {
					for _, pair := range [][2]ssa.Value{{bo.X, bo.Y}, {bo.Y, bo.X}} {
						if got, arg := countsOf(pair[0]); got == wantRepS && arg != nil && fromTypes(arg) {
							// MaxRep > 0, MaxRep != 0, MaxRep >= 1, 0 < MaxRep
							switch {
							case pair[0] == bo.X && (bo.Op == token.GTR || bo.Op == token.NEQ) && constIs(pair[1], 0),
								pair[0] == bo.X && bo.Op == token.GEQ && constIs(pair[1], 1),
								pair[0] == bo.Y && (bo.Op == token.LSS || bo.Op == token.NEQ) && constIs(pair[1], 0),
								pair[0] == bo.Y && bo.Op == token.LEQ && constIs(pair[1], 1):
								okRep = true
							}
						}
					}
				}
				if !okRep {
					bad = append(bad, "`repeated` is "+symExpr(st.Val, 0)+", want MaxRep() > 0: repetition levels are written exactly for columns with a repeated ancestor")
				}
			}
		}
	}
	for _, f := range []*types.Var{defF, repF, repeatedF} {
		if !seen[f] {
			bad = append(bad, f.Name()+" is never set")
		}
	}
	// the leaf's own repetition (what Schema() hands to the footer) is chosen by the LAST of the column's repetition codes
	for _, b := range ctor.Blocks {
		for _, ins := range b.Instrs {
			st, ok := ins.(*ssa.Store)
			if !ok {
				continue
			}
			f := fieldOf(st.Addr)
			if f == nil || f.Name() != "RepetitionType" || f.Pkg() == nil || f.Pkg().Path() != rtPath {
				continue
			}
			sv := symExpr(st.Val, 0)
			lastIdx := false
			for _, prm := range ctor.Params {
				if _, isSlice := prm.Type().Underlying().(*types.Slice); isSlice {
					n := "param:" + prm.Name()
					if strings.Contains(sv, "[load("+n+"[(builtin len("+n+") - 1)])]") {
						lastIdx = true
					}
				}
			}
			if !lastIdx {
				bad = append(bad, "the leaf's repetition setter is "+sv+", want the table entry for the last of the column's repetition codes (types[len(types)-1]): a leaf under a group of another repetition would be declared with the group's")
			}
		}
	}
	r.count(rule+"/constructors", 1)
	if len(bad) > 0 {
		r.bad(rule, key, u.Pos(ctor.Pos()), strings.Join(bad, "; "))
	} else {
		r.ok(rule, key, u.Pos(ctor.Pos()), "MaxLevels.Def = MaxDef(types), MaxLevels.Rep = MaxRep(types), repeated = MaxRep(types) > 0")
	}
	r.floor(rule+"/level-counters", 2, "MaxDef, MaxRep")
	r.floor(rule+"/constructors", 1, "NewOptionalField")
}

// laTrim (C04, C01): a level stream decoded from a page is a whole number of 8-value groups when its tail was
// bit-packed; what is kept per page must be cut to the page header's num_values. Every value appended to the Defs /
// Reps of a column on the read path is a slice `levels[:n]` with n derived from DataPageHeader.NumValues of the page
// whose payload was decoded.
func laTrim(c *Ctx, rule string) {
	r, u := c.R, c.U
	numValues := schemaField(u, "DataPageHeader", "NumValues")
	if numValues == nil {
		r.failf("%s: schema.DataPageHeader.NumValues not found", rule)
		return
	}
	roots := sourceRoots(c)
	reach := u.reach(append([]*ssa.Function{}, roots.reader...))
	n := 0
	for f := range reach {
		if u.pkgPathOf(f) != rtPath || f.Synthetic != "" {
			continue
		}
		for _, b := range f.Blocks {
			for _, ins := range b.Instrs {
				st, ok := ins.(*ssa.Store)
				if !ok {
					continue
				}
				fld := fieldOf(st.Addr)
				if fld == nil || (fld.Name() != "Defs" && fld.Name() != "Reps") {
					continue
				}
				call, ok := st.Val.(*ssa.Call)
				if !ok {
					continue
				}
				if bi, ok := call.Call.Value.(*ssa.Builtin); !ok || bi.Name() != "append" {
					continue
				}
				// only appends of decoded levels (the appended slice derives from a call that reaches rle.Read)
				for _, el := range call.Call.Args[1:] {
					sl, isSlice := el.(*ssa.Slice)
					src := el
					if isSlice {
						src = sl.X
					}
					dec := false
					if ex, ok := src.(*ssa.Extract); ok {
						if cl, ok := ex.Tuple.(*ssa.Call); ok {
							if sc := cl.Call.StaticCallee(); sc != nil && callsRLE(u, sc) {
								dec = true
							}
						}
					}
					if !dec {
						continue
					}
					n++
					r.count(rule+"/level-appends", 1)
					key := fmt.Sprintf("%s append to %s", u.FnName(f), fld.Name())
					pos := u.Pos(st.Pos())
					switch {
					case !isSlice || sl.High == nil:
						r.bad(rule, key, pos, "the decoded "+fld.Name()+" of a page are appended whole: a level stream whose last run is bit-packed is padded to a multiple of 8 values, the padding becomes levels of the next page's records")
					case sl.Low != nil && !constIs(sl.Low, 0):
						r.bad(rule, key, pos, "the decoded levels are not cut from their start")
					case fieldOfLoad(throughParams(sl.High)) != numValues:
						r.bad(rule, key, pos, "the decoded "+fld.Name()+" are cut to "+symExpr(sl.High, 0)+", want the page header's num_values")
					default:
						r.ok(rule, key, pos, "levels[:DataPageHeader.NumValues]")
					}
				}
			}
		}
	}
	if n == 0 {
		r.failf("%s: no append of decoded levels found on the read path", rule)
	}
	r.floor(rule+"/level-appends", 2, "Reps and Defs in OptionalField.DoRead")
}

// laPages (C04, C01): the per-chunk descriptor the reader's loops run against is filled from the file's column
// metadata: N (compared with summed num_values of pages) from NumValues, Size (compared with the bytes consumed from
// the file) from TotalCompressedSize, Codec from Codec, Offset from FileOffset.
func laPages(c *Ctx, rule string) {
	r, u := c.R, c.U
	want := map[string]string{"N": "NumValues", "Size": "TotalCompressedSize", "Codec": "Codec"}
	// Offset carries an obligation only when the reader positions the source with it: then it must be the chunk's
	// data_page_offset (the first data page of a chunk without dictionary) — file_offset is deprecated, and 0 or past the
	// pages in files of other writers
	offsetUsed := ""
	{
		roots := sourceRoots(c)
		for f := range u.reach(append([]*ssa.Function{}, roots.reader...)) {
			if !u.InUniverse(f) || f.Synthetic != "" {
				continue
			}
			for _, b := range f.Blocks {
				for _, ins := range b.Instrs {
					var fv *types.Var
					switch x := ins.(type) {
					case *ssa.Field:
						fv = fieldOf(x)
					case *ssa.UnOp:
						if x.Op == token.MUL {
							fv = fieldOf(x.X)
						}
					}
					if fv != nil && fv.Name() == "Offset" && fv.Pkg() != nil && fv.Pkg().Path() == rtPath {
						offsetUsed = u.Pos(ins.Pos())
					}
				}
			}
		}
	}
	if offsetUsed != "" {
		want["Offset"] = "DataPageOffset"
	}
	found := 0
	pageBases := map[*ssa.Function][]string{}
	for _, f := range u.Funcs {
		if u.pkgPathOf(f) != rtPath || f.Synthetic != "" {
			continue
		}
		for _, b := range f.Blocks {
			for _, ins := range b.Instrs {
				st, ok := ins.(*ssa.Store)
				if !ok {
					continue
				}
				fa, ok := st.Addr.(*ssa.FieldAddr)
				if !ok {
					continue
				}
				fld := fieldOf(fa)
				owner := ""
				if pt, ok := fa.X.Type().Underlying().(*types.Pointer); ok {
					if nm, ok := pt.Elem().(*types.Named); ok {
						owner = nm.Obj().Name()
					}
				}
				if owner != "Page" || fld == nil || fld.Pkg() == nil || fld.Pkg().Path() != rtPath {
					continue
				}
				w, tracked := want[fld.Name()]
				if !tracked {
					continue
				}
				found++
				r.count(rule+"/page-fields", 1)
				key := fmt.Sprintf("%s Page.%s", u.FnName(f), fld.Name())
				src := fieldOfLoad(stripConvert(st.Val))
				if src != nil && src.Pkg() != nil && src.Pkg().Path() == schPath {
					// the chunk the value is read from: ….MetaData.X -> the MetaData object; ….FileOffset -> the chunk itself
					if ld, ok := stripConvert(st.Val).(*ssa.UnOp); ok {
						if fa, ok := ld.X.(*ssa.FieldAddr); ok {
							base := symExpr(fa.X, 0)
							base = strings.TrimSuffix(strings.TrimPrefix(base, "load("), ".MetaData)")
							pageBases[f] = append(pageBases[f], base)
						}
					}
				}
				if src == nil || src.Name() != w || src.Pkg() == nil || src.Pkg().Path() != schPath {
					r.bad(rule, key, u.Pos(st.Pos()), fmt.Sprintf("Page.%s is %s, want the chunk's %s from the file's column metadata: the reader's page loops compare it with %s", fld.Name(), symExpr(st.Val, 0), w, map[string]string{"N": "the summed num_values of the pages read", "Size": "the bytes consumed from the file (compressed)", "Codec": "nothing — it selects the decompressor", "Offset": "nothing — the reader seeks to it (at " + offsetUsed + "); file_offset is deprecated and 0, or past the pages, in files of other writers"}[fld.Name()]))
				} else {
					r.ok(rule, key, u.Pos(st.Pos()), "from "+w)
				}
			}
		}
	}
	// all of them describe ONE chunk: the metadata they are read from is the same object
	for fn, bases := range pageBases {
		uniq := map[string]bool{}
		for _, b := range bases {
			uniq[b] = true
		}
		key := u.FnName(fn) + " Page describes one chunk"
		if len(uniq) > 1 {
			var l []string
			for b := range uniq {
				l = append(l, b)
			}
			sort.Strings(l)
			r.bad(rule, key, u.Pos(fn.Pos()), "the fields of one Page are read from different chunks: "+strings.Join(l, " vs ")+": a column is then read with another column's codec, size or count (files whose columns differ in codec are misread)")
		} else {
			r.ok(rule, key, u.Pos(fn.Pos()), "N, Size, Codec (Offset) all come from the same chunk's metadata")
		}
	}
	if found == 0 {
		r.failf("%s: no construction of parquet.Page found", rule)
	}
	r.floor(rule+"/page-fields", 3, "N, Size, Codec (and Offset when the reader seeks to it) in Metadata.Pages")
}

// laReadCounter (C08): a reader wrapper that accounts for consumed bytes advances its counter by the count the inner
// read returned — not by the buffer size — and passes that count and error on unchanged.
func laReadCounter(c *Ctx, rule string) {
	r, u := c.R, c.U
	n := 0
	for _, f := range u.Funcs {
		if !u.InUniverse(f) || f.Synthetic != "" || f.Name() != "Read" || f.Signature.Recv() == nil || f.Blocks == nil {
			continue
		}
		sig := f.Signature
		if sig.Params().Len() != 1 || sig.Results().Len() != 2 || len(f.Params) != 2 {
			continue
		}
		if _, ok := sig.Params().At(0).Type().Underlying().(*types.Slice); !ok {
			continue
		}
		// the inner read: a Read call (invoke or static) handed the same buffer
		var inner *ssa.Call
		for _, b := range f.Blocks {
			for _, ins := range b.Instrs {
				if call, ok := ins.(*ssa.Call); ok && isReadMethodCall(&call.Call) {
					args := callArgs(&call.Call)
					if len(args) > 0 && args[len(args)-1] == ssa.Value(f.Params[1]) {
						inner = call
					}
				}
			}
		}
		if inner == nil {
			continue
		}
		n++
		r.count(rule+"/wrappers", 1)
		key := u.FnName(f)
		pos := u.Pos(f.Pos())
		var cnt, errv ssa.Value
		for _, ref := range *inner.Referrers() {
			if ex, ok := ref.(*ssa.Extract); ok {
				if ex.Index == 0 {
					cnt = ex
				} else {
					errv = ex
				}
			}
		}
		var bad []string
		for _, b := range f.Blocks {
			for _, ins := range b.Instrs {
				switch x := ins.(type) {
				case *ssa.Return:
					if x.Results[0] != cnt {
						bad = append(bad, "returns "+symExpr(x.Results[0], 0)+" as the count, not the count of the inner read")
					}
					if x.Results[1] != errv {
						bad = append(bad, "does not return the inner read's error")
					}
				case *ssa.Store:
					fld := fieldOf(x.Addr)
					if fld == nil {
						continue
					}
					if w, _ := intWidth(fld.Type()); w == 0 {
						if bt, ok := fld.Type().Underlying().(*types.Basic); !ok || bt.Info()&types.IsInteger == 0 {
							continue
						}
					}
					// counter: old + conv(count)
					okAdv := false
					if bo, ok := x.Val.(*ssa.BinOp); ok && bo.Op == token.ADD {
						for _, pair := range [][2]ssa.Value{{bo.X, bo.Y}, {bo.Y, bo.X}} {
							if fieldOfLoad(pair[0]) == fld && cnt != nil && stripConvert(pair[1]) == cnt {
								okAdv = true
							}
						}
					}
					if !okAdv {
						bad = append(bad, fmt.Sprintf("the byte counter %s is set to %s, want it advanced by the count the inner read returned (a short read leaves the rest of the buffer unfilled)", fld.Name(), symExpr(x.Val, 0)))
					}
				}
			}
		}
		if len(bad) > 0 {
			r.bad(rule, key, pos, strings.Join(bad, "; "))
		} else {
			r.ok(rule, key, pos, "counter += n of the inner read; n and err passed on")
		}
	}
	_ = n
	r.floor(rule+"/wrappers", 1, "readCounter.Read")
}

// isReadMethodCall: a call of a method Read([]byte) (int, error), through an interface or on a concrete reader.
func isReadMethodCall(cc *ssa.CallCommon) bool {
	var sig *types.Signature
	name := ""
	if cc.IsInvoke() {
		name, sig = cc.Method.Name(), cc.Method.Type().(*types.Signature)
	} else if sc := cc.StaticCallee(); sc != nil && sc.Signature.Recv() != nil {
		name, sig = sc.Name(), sc.Signature
	}
	if name != "Read" || sig == nil || sig.Params().Len() != 1 || sig.Results().Len() != 2 {
		return false
	}
	sl, ok := sig.Params().At(0).Type().Underlying().(*types.Slice)
	if !ok {
		return false
	}
	b, ok := sl.Elem().Underlying().(*types.Basic)
	return ok && b.Kind() == types.Uint8
}

// throughParams: look through integer conversions and through parameters of unexported helpers that have a single
// call site (the value is what that call site passes).
// tpCtx, when set, names the functions of the unit under analysis (one generated column type's methods and their
// helpers): a helper with several call sites is then resolved at its call site inside the unit.
var tpCtx map[*ssa.Function]bool

func withUnitCtx(u *Universe, fns []*ssa.Function, body func()) {
	old := tpCtx
	tpCtx = map[*ssa.Function]bool{}
	for _, f := range fns {
		for _, g := range unitFns(u, f) {
			tpCtx[g] = true
		}
	}
	defer func() { tpCtx = old }()
	body()
}

func throughParams(v ssa.Value) ssa.Value {
	for i := 0; i < 6; i++ {
		v = stripConvert(v)
		p, ok := v.(*ssa.Parameter)
		if !ok {
			return v
		}
		fn := p.Parent()
		if fn == nil || fn.Object() == nil || fn.Object().Exported() {
			return v
		}
		cs := callersOf(fn)
		if len(cs) > 1 && tpCtx != nil {
			// a helper shared by several column types: the call site in the type under analysis
			var in []ssa.CallInstruction
			for _, c := range cs {
				if tpCtx[c.Parent()] {
					in = append(in, c)
				}
			}
			cs = in
		}
		if len(cs) != 1 || cs[0].Parent() == fn {
			return v
		}
		args := callArgs(cs[0].Common())
		found := false
		for j, q := range fn.Params {
			if q == p && j < len(args) {
				v, found = args[j], true
			}
		}
		if !found {
			return v
		}
	}
	return v
}

// laNonNull (C01, C04): the number of values stored in a page of an optional column is the number of definition levels
// equal to the column's maximum — counted by the function Values() delegates to, called with MaxLevels.Def.
func laNonNull(c *Ctx, rule string) {
	r, u := c.R, c.U
	values := u.Func(rtPath, "OptionalField.Values")
	if values == nil {
		r.undecided(rule, "parquet.(*OptionalField).Values", "", "function not found")
		return
	}
	var counter *ssa.Function
	for _, b := range values.Blocks {
		for _, ins := range b.Instrs {
			if call, ok := ins.(*ssa.Call); ok {
				if sc := call.Call.StaticCallee(); sc != nil && u.pkgPathOf(sc) == rtPath {
					counter = sc
				}
			}
		}
	}
	if counter == nil {
		r.undecided(rule, "parquet.(*OptionalField).Values", u.Pos(values.Pos()), "Values does not delegate to a counting function")
		return
	}
	r.count(rule+"/counters", 1)
	key := u.FnName(counter)
	pos := u.Pos(counter.Pos())
	// parameters: the levels (a []uint8) and the maximum (an integer)
	var levels, max *ssa.Parameter
	for _, p := range counter.Params {
		if _, ok := p.Type().Underlying().(*types.Slice); ok {
			levels = p
		} else if b, ok := p.Type().Underlying().(*types.Basic); ok && b.Info()&types.IsInteger != 0 {
			max = p
		}
	}
	if levels == nil || max == nil {
		r.undecided(rule, key, pos, "unexpected signature")
		return
	}
	var bad []string
	incs := 0
	for _, b := range counter.Blocks {
		for _, ins := range b.Instrs {
			bo, ok := ins.(*ssa.BinOp)
			if !ok || bo.Op != token.ADD || !constIs(bo.Y, 1) {
				continue
			}
			if _, isPhi := bo.X.(*ssa.Phi); !isPhi {
				continue
			}
			isIdx := false
			for _, ref := range *bo.Referrers() {
				if ia, ok := ref.(*ssa.IndexAddr); ok && ia.Index == ssa.Value(bo) {
					isIdx = true
				}
				if _, ok := ref.(*ssa.BinOp); ok {
					isIdx = isIdx || false
				}
			}
			for _, ref := range *bo.X.(*ssa.Phi).Referrers() {
				if ia, ok := ref.(*ssa.IndexAddr); ok && ia.Index == bo.X {
					isIdx = true
				}
			}
			// the range index of `for _, d := range defs` feeds the loop test only
			if !isIdx {
				for _, ref := range *bo.Referrers() {
					if cmp, ok := ref.(*ssa.BinOp); ok && cmp.Op == token.LSS && lenArg(cmp.Y) != nil {
						isIdx = true
					}
				}
			}
			if isIdx {
				continue
			}
			incs++
			okG := guarded(b, func(iff *ssa.If, truth bool) bool {
				cmp, ok := iff.Cond.(*ssa.BinOp)
				if !ok {
					return false
				}
				isElem := func(v ssa.Value) bool {
					ld, ok := stripConvert(v).(*ssa.UnOp)
					if !ok || ld.Op != token.MUL {
						return false
					}
					ia, ok := ld.X.(*ssa.IndexAddr)
					return ok && ia.X == ssa.Value(levels)
				}
				isMax := func(v ssa.Value) bool { return stripConvert(v) == ssa.Value(max) }
				switch {
				case isElem(cmp.X) && isMax(cmp.Y):
					return (cmp.Op == token.EQL && truth) || (cmp.Op == token.GEQ && truth) || (cmp.Op == token.NEQ && !truth) || (cmp.Op == token.LSS && !truth)
				case isMax(cmp.X) && isElem(cmp.Y):
					return (cmp.Op == token.EQL && truth) || (cmp.Op == token.LEQ && truth) || (cmp.Op == token.NEQ && !truth) || (cmp.Op == token.GTR && !truth)
				}
				return false
			}, 0)
			if !okG {
				bad = append(bad, "a level is counted as a stored value under another test than `level == maximum definition level`: nulls at deeper nesting have smaller, non-zero levels")
			}
		}
	}
	if incs != 1 {
		bad = append(bad, fmt.Sprintf("%d counting increments, want one", incs))
	}
	// every call passes the column's maximum definition level
	for _, cs := range callersOf(counter) {
		args := callArgs(cs.Common())
		for i, p := range counter.Params {
			if p == max && i < len(args) {
				if f := fieldOfLoad(stripConvert(args[i])); f == nil || f.Name() != "Def" {
					bad = append(bad, "called at "+u.Pos(cs.Pos())+" with "+symExpr(args[i], 0)+" as the maximum, want MaxLevels.Def")
				}
			}
		}
	}
	if len(bad) > 0 {
		r.bad(rule, key, pos, strings.Join(bad, "; "))
	} else {
		r.ok(rule, key, pos, "counts the levels equal to MaxLevels.Def")
	}
	r.floor(rule+"/counters", 1, "valsFromDefs")
}

// laSizes (C01, C04): the per-page value counts DoRead returns (bool columns are unpacked page by page with them) are
// each page's own: the page header's num_values for required columns, the non-null count of the levels decoded from
// that very page for optional ones.
func laSizes(c *Ctx, rule string) {
	r, u := c.R, c.U
	numValues := schemaField(u, "DataPageHeader", "NumValues")
	n := 0
	for _, name := range []string{"RequiredField.DoRead", "OptionalField.DoRead"} {
		fn := u.Func(rtPath, name)
		if fn == nil {
			r.undecided(rule, "parquet."+name, "", "function not found")
			continue
		}
		// the []int result
		var sizesPhi []ssa.Value
		for _, b := range fn.Blocks {
			if ret, ok := lastInstr(b).(*ssa.Return); ok && len(ret.Results) == 3 {
				if _, ok := ret.Results[1].Type().Underlying().(*types.Slice); ok {
					sizesPhi = append(sizesPhi, ret.Results[1])
				}
			}
		}
		seen := map[ssa.Value]bool{}
		var appends []*ssa.Call
		unit := unitFns(u, fn)
		var walk func(v ssa.Value)
		walk = func(v ssa.Value) {
			if v == nil || seen[v] {
				return
			}
			seen[v] = true
			switch x := v.(type) {
			case *ssa.Phi:
				for _, e := range x.Edges {
					walk(e)
				}
			case *ssa.Call:
				if bi, ok := x.Call.Value.(*ssa.Builtin); ok && bi.Name() == "append" {
					appends = append(appends, x)
					walk(x.Call.Args[0])
				}
			case *ssa.Extract:
				// a result of a helper of the runtime (`return chunk.result()`): what the helper returns there
				if call, ok := x.Tuple.(*ssa.Call); ok {
					if sc := call.Call.StaticCallee(); sc != nil && sc.Blocks != nil && u.pkgPathOf(sc) == rtPath {
						for _, b := range sc.Blocks {
							if ret, ok := lastInstr(b).(*ssa.Return); ok && x.Index < len(ret.Results) {
								walk(ret.Results[x.Index])
							}
						}
					}
				}
			case *ssa.UnOp:
				// a list kept in a field of a local struct: every value stored into that field by the unit
				if fl := fieldOf(x.X); x.Op == token.MUL && fl != nil {
					for _, g := range unit {
						for _, b := range g.Blocks {
							for _, ins := range b.Instrs {
								if st, ok := ins.(*ssa.Store); ok && fieldOf(st.Addr) == fl {
									walk(st.Val)
								}
							}
						}
					}
				}
			}
		}
		for _, v := range sizesPhi {
			walk(v)
		}
		defer func(old map[*ssa.Function]bool) { tpCtx = old }(tpCtx)
		tpCtx = map[*ssa.Function]bool{}
		for _, g := range unit {
			tpCtx[g] = true
		}
		key := "parquet.(*" + strings.Replace(name, ".", ").", 1) + " per-page counts"
		if len(appends) == 0 {
			r.undecided(rule, key, u.Pos(fn.Pos()), "the per-page counts are not built by append")
			continue
		}
		for _, ap := range appends {
			n++
			r.count(rule+"/appends", 1)
			vals := appendedValues(ap)
			var bad []string
			for _, v := range vals {
				v = throughParams(stripConvert(v))
				if strings.HasPrefix(name, "Required") {
					if fieldOfLoad(v) != numValues {
						bad = append(bad, "a page's count is "+symExpr(v, 0)+", want that page header's num_values")
					}
					continue
				}
				call, ok := v.(*ssa.Call)
				okCount := false
				if ok && call.Call.StaticCallee() != nil {
					for _, a := range callArgs(&call.Call) {
						if ex, ok := a.(*ssa.Extract); ok {
							if cl, ok := ex.Tuple.(*ssa.Call); ok {
								if sc := cl.Call.StaticCallee(); sc != nil && callsRLE(u, sc) {
									okCount = true
								}
							}
						}
					}
				}
				if !okCount {
					bad = append(bad, "a page's count is "+symExpr(v, 0)+", want the non-null count of the definition levels decoded from that page (not of everything accumulated so far)")
				}
			}
			if len(bad) > 0 {
				r.bad(rule, key, u.Pos(ap.Pos()), strings.Join(bad, "; "))
			} else {
				r.ok(rule, key, u.Pos(ap.Pos()), "one entry per page, that page's own count")
			}
		}
	}
	_ = n
	r.floor(rule+"/appends", 2, "RequiredField.DoRead, OptionalField.DoRead")
}

// laFooterMeta (C02, C04, C01, C16): small provenance facts around the footer that the page-level rules lean on.
//   - the row group's total_byte_size is accumulated over its column chunks (Footer);
//   - the reader's per-row-group row count comes from the file's RowGroup.NumRows (Metadata.RowGroups), and
//     Metadata.Rows() is the file's num_rows;
//   - ReadMetaData positions the source at (tail position − footer length) before decoding the footer.
func laFooterMeta(c *Ctx, rule string, which map[string]bool) {
	r, u := c.R, c.U
	if which["totals"] {
		tbs := schemaField(u, "RowGroup", "TotalByteSize")
		n := 0
		if tbs != nil {
			cc, co := storesTo(u, tbs)
			for _, st := range append(cc, co...) {
				if u.pkgPathOf(st.Parent()) != rtPath {
					continue
				}
				n++
				key := u.FnName(st.Parent()) + " RowGroup.TotalByteSize"
				okAcc := false
				if bo, ok := st.Val.(*ssa.BinOp); ok && bo.Op == token.ADD {
					for _, pair := range [][2]ssa.Value{{bo.X, bo.Y}, {bo.Y, bo.X}} {
						if fieldOfLoad(pair[0]) == tbs {
							if f := fieldOfLoad(stripConvert(pair[1])); f != nil && (f.Name() == "TotalCompressedSize" || f.Name() == "TotalUncompressedSize") {
								okAcc = true
							}
						}
					}
				}
				if constIs(st.Val, 0) {
					okAcc = true
				}
				if okAcc {
					r.ok(rule, key, u.Pos(st.Pos()), "accumulated over the row group's column chunks")
				} else {
					r.bad(rule, key, u.Pos(st.Pos()), "the row group's total_byte_size is set to "+symExpr(st.Val, 0)+", want it accumulated (old + the chunk's size) over all column chunks: with several columns it reports the last column only")
				}
			}
		}
		r.count(rule+"/total-byte-size", n)
		r.floor(rule+"/total-byte-size", 1, "Footer")
	}
	if which["totals"] {
		// a chunk's path_in_schema is the column's path as a list — never re-derived from the dotted name, which is
		// ambiguous as soon as a name contains the separator
		pis := schemaField(u, "ColumnMetaData", "PathInSchema")
		n := 0
		if pis != nil {
			cc, co := storesTo(u, pis)
			for _, st := range append(cc, co...) {
				if u.pkgPathOf(st.Parent()) != rtPath {
					continue
				}
				n++
				key := u.FnName(st.Parent()) + " ColumnMetaData.PathInSchema"
				derived := ""
				seen := map[ssa.Value]bool{}
				var walk func(v ssa.Value, d int)
				walk = func(v ssa.Value, d int) {
					if d > 6 || seen[v] {
						return
					}
					seen[v] = true
					switch x := v.(type) {
					case *ssa.Call:
						if sc := x.Call.StaticCallee(); sc != nil && sc.Pkg != nil && sc.Pkg.Pkg.Path() == "strings" {
							derived = sc.Name()
						}
						if bi, ok := x.Call.Value.(*ssa.Builtin); ok && bi.Name() == "append" {
							for _, a := range x.Call.Args {
								walk(a, d+1)
							}
						}
					case *ssa.Phi:
						for _, e := range x.Edges {
							walk(e, d+1)
						}
					case *ssa.Slice:
						walk(x.X, d+1)
					}
				}
				walk(st.Val, 0)
				if derived != "" {
					r.bad(rule, key, u.Pos(st.Pos()), "the chunk's path_in_schema is rebuilt with strings."+derived+" from a joined name: for a column or group whose name contains the separator the path no longer matches the schema's elements")
				} else {
					r.ok(rule, key, u.Pos(st.Pos()), "the column's own path list")
				}
			}
		}
		r.count(rule+"/path-in-schema", n)
		r.floor(rule+"/path-in-schema", 1, "updateColumnChunk")
	}
	if which["totals"] {
		// the footer schema's group elements: the group made for path prefix element k takes its repetition from the
		// column's repetition codes at the SAME index k
		rep := schemaField(u, "SchemaElement", "RepetitionType")
		n := 0
		for _, f := range u.Funcs {
			if u.pkgPathOf(f) != rtPath || f.Synthetic != "" || rep == nil {
				continue
			}
			loops := countedLoops(f)
			for _, b := range f.Blocks {
				for _, ins := range b.Instrs {
					st, ok := ins.(*ssa.Store)
					if !ok || fieldOf(st.Addr) != rep {
						continue
					}
					cell, ok := st.Val.(*ssa.Alloc)
					if !ok {
						continue
					}
					// what the cell holds: FieldRepetitionType(<codes>[idx])
					for _, ref := range *cell.Referrers() {
						s2, ok := ref.(*ssa.Store)
						if !ok || s2.Addr != ssa.Value(cell) {
							continue
						}
						// (the element may be built in a helper given the code)
						ld, ok := throughParams(s2.Val).(*ssa.UnOp)
						if !ok || ld.Op != token.MUL {
							continue
						}
						ia, ok := ld.X.(*ssa.IndexAddr)
						if !ok {
							continue
						}
						if tf := fieldOfLoad(ia.X); tf == nil || tf.Name() != "Types" {
							continue
						}
						n++
						key := u.FnName(ld.Parent()) + " group repetition"
						loops := loops
						if ld.Parent() != f {
							loops = countedLoops(ld.Parent())
						}
						// the index must be the index of the loop over the path prefix whose element names the group
						okIdx := false
						for _, l := range loops {
							if l.idx != ia.Index {
								continue
							}
							seq := l.seq
							if sl, ok := seq.(*ssa.Slice); ok && (sl.Low == nil || constIs(sl.Low, 0)) {
								seq = sl.X
							}
							if pf := fieldOfLoad(seq); pf != nil && pf.Name() == "Path" {
								okIdx = true
							}
						}
						if okIdx {
							r.ok(rule, key, u.Pos(s2.Pos()), "group k of the path takes the column's repetition code k")
						} else {
							r.bad(rule, key, u.Pos(s2.Pos()), "the repetition of the group made for element k of the column's path is read from "+symExpr(ia.Index, 0)+" of its repetition codes, want the same index k: groups are declared with a neighbour's repetition (an optional group whose first field is required comes out REQUIRED)")
						}
					}
				}
			}
		}
		r.count(rule+"/group-repetition", n)
		r.floor(rule+"/group-repetition", 1, "schema.schema()")
		laSchemaChildren(c, rule)
	}
	if which["rows"] {
		// Metadata.RowGroups(): Rows <- NumRows
		n := 0
		for _, f := range u.Funcs {
			if u.pkgPathOf(f) != rtPath || f.Synthetic != "" {
				continue
			}
			for _, b := range f.Blocks {
				for _, ins := range b.Instrs {
					st, ok := ins.(*ssa.Store)
					if !ok {
						continue
					}
					fld := fieldOf(st.Addr)
					if fld == nil || fld.Name() != "Rows" || fld.Pkg() == nil || fld.Pkg().Path() != rtPath {
						continue
					}
					n++
					key := u.FnName(f) + " RowGroup.Rows"
					if src := fieldOfLoad(stripConvert(st.Val)); src != nil && src.Name() == "NumRows" && src.Pkg() != nil && src.Pkg().Path() == schPath {
						r.ok(rule, key, u.Pos(st.Pos()), "from the file's RowGroup.NumRows")
					} else {
						r.bad(rule, key, u.Pos(st.Pos()), "the reader's row count of a row group is "+symExpr(st.Val, 0)+", want the file's RowGroup.num_rows: Next loads the next row group when this many rows have been delivered")
					}
				}
			}
		}
		r.count(rule+"/rowgroup-rows", n)
		r.floor(rule+"/rowgroup-rows", 1, "Metadata.RowGroups")
		// Metadata.Rows()
		if rows := u.Func(rtPath, "Metadata.Rows"); rows != nil {
			key := "parquet.(*Metadata).Rows"
			okRows := false
			for _, b := range rows.Blocks {
				if ret, ok := lastInstr(b).(*ssa.Return); ok && len(ret.Results) == 1 {
					if f := fieldOfLoad(stripConvert(ret.Results[0])); f != nil && f.Name() == "NumRows" && f.Pkg() != nil && f.Pkg().Path() == schPath && strings.Contains(symExpr(ret.Results[0], 0), "FileMetaData") == false {
						okRows = strings.Contains(symExpr(ret.Results[0], 0), "load(recv.metadata).NumRows")
					}
				}
			}
			if okRows {
				r.ok(rule, key, u.Pos(rows.Pos()), "the file's num_rows")
			} else {
				r.bad(rule, key, u.Pos(rows.Pos()), "Rows() does not return the num_rows of the footer that was read")
			}
		} else {
			r.undecided(rule, "parquet.(*Metadata).Rows", "", "function not found")
		}
	}
	if which["seek"] {
		rm := u.Func(rtPath, "ReadMetaData")
		key := "parquet.ReadMetaData footer position"
		if rm == nil {
			r.undecided(rule, key, "", "ReadMetaData not found")
			return
		}
		unit := unitFns(u, rm)
		isEndSeek := func(ins ssa.Instruction) *ssa.Call {
			if call, ok := ins.(*ssa.Call); ok && call.Call.IsInvoke() && call.Call.Method.Name() == "Seek" && len(call.Call.Args) == 2 && constIs(call.Call.Args[1], 2) {
				return call
			}
			return nil
		}
		// where the tail was read: Seek(k, io.SeekEnd) with a constant k, somewhere in ReadMetaData's unit
		tailK, found := int64(0), false
		tailFns := map[*ssa.Function]bool{}
		for _, g := range unit {
			for _, b := range g.Blocks {
				for _, ins := range b.Instrs {
					if call := isEndSeek(ins); call != nil {
						if k, ok := call.Call.Args[0].(*ssa.Const); ok && k.Value != nil {
							tailK, _ = constant.Int64Val(k.Value)
							found = true
							tailFns[g] = true
						}
					}
				}
			}
		}
		if !found {
			r.undecided(rule, key, u.Pos(rm.Pos()), "the tail of the file is not read after a seek to a constant offset from the end")
			return
		}
		readsTail := func(f *ssa.Function) bool {
			for _, g := range unitFns(u, f) {
				if tailFns[g] {
					return true
				}
			}
			return false
		}
		// the seek to the footer: relative to the end, by -(footer length) + tail offset, where the footer length is a result
		// of a function that reads the tail
		okSeek := false
		var why string
		for _, g := range unit {
			var sizes []ssa.Value
			for _, b := range g.Blocks {
				for _, ins := range b.Instrs {
					if call, ok := ins.(*ssa.Call); ok {
						if sc := call.Call.StaticCallee(); sc != nil && sc.Blocks != nil && u.pkgPathOf(sc) == rtPath && readsTail(sc) {
							if ex := extractOf(call, 0); ex != nil {
								sizes = append(sizes, ex)
							} else {
								sizes = append(sizes, call)
							}
						}
					}
				}
			}
			for _, b := range g.Blocks {
				for _, ins := range b.Instrs {
					call, ok := ins.(*ssa.Call)
					if !ok || !call.Call.IsInvoke() || call.Call.Method.Name() != "Seek" || len(call.Call.Args) != 2 {
						continue
					}
					if _, isK := call.Call.Args[0].(*ssa.Const); isK {
						continue // the tail seek itself
					}
					if len(sizes) == 0 {
						continue
					}
					if !constIs(call.Call.Args[1], 2) {
						why = "the footer is not located relative to the end of the file"
						continue
					}
					matched := false
					for _, size := range sizes {
						// arg = -(size) + tailK as a linear form in size
						if a, k, okL := linIn(call.Call.Args[0], size, 0); okL && a == -1 && k == tailK {
							matched = true
						}
					}
					if matched {
						okSeek = true
					} else {
						why = fmt.Sprintf("the footer is sought at %s from the end, want -(footer length) %+d (the footer ends where the %d-byte tail begins)", symExpr(call.Call.Args[0], 0), tailK, -tailK)
					}
				}
			}
		}
		if okSeek && why == "" {
			r.ok(rule, key, u.Pos(rm.Pos()), fmt.Sprintf("Seek(-(size) %+d, SeekEnd)", tailK))
		} else {
			if why == "" {
				why = "ReadMetaData does not position the source at the footer"
			}
			r.bad(rule, key, u.Pos(rm.Pos()), why)
		}
	}
}

// linIn: v as a*x + k (integer conversions transparent).
func linIn(v, x ssa.Value, depth int) (a, k int64, ok bool) {
	if depth > 8 {
		return 0, 0, false
	}
	v = stripConvert(v)
	if x != nil && v == stripConvert(x) {
		return 1, 0, true
	}
	switch y := v.(type) {
	case *ssa.Const:
		if y.Value != nil && y.Value.Kind() == constant.Int {
			kv, _ := constant.Int64Val(y.Value)
			return 0, kv, true
		}
	case *ssa.UnOp:
		if y.Op == token.SUB {
			a1, k1, ok1 := linIn(y.X, x, depth+1)
			return -a1, -k1, ok1
		}
	case *ssa.BinOp:
		a1, k1, ok1 := linIn(y.X, x, depth+1)
		a2, k2, ok2 := linIn(y.Y, x, depth+1)
		if ok1 && ok2 {
			switch y.Op {
			case token.ADD:
				return a1 + a2, k1 + k2, true
			case token.SUB:
				return a1 - a2, k1 - k2, true
			}
		}
	}
	return 0, 0, false
}
