package main

// TD — template drivers (C01, C02, C04, C06): the fixed control code of the generated package — ParquetWriter.Add /
// Write, NewParquetReader, readRowGroup, Next — that moves records between the caller, the column objects and the
// runtime. It is instantiated verbatim from gen/template.go, the repository's suite never regenerates it, so it is
// decided here on the instantiated template code (every template-coverage package), for all inputs and histories:
// each rule is a necessary condition of the property it is listed under.

import (
	"fmt"
	"go/constant"
	"go/token"
	"go/types"
	"strings"

	"golang.org/x/tools/go/ssa"
)

// cloop: a counted loop `for i := 0; i < len(S); i++` / `for i := range S` that visits every index of S.
type cloop struct {
	iff  *ssa.If
	idx  ssa.Value // the index as the body sees it
	seq  ssa.Value // S
	full bool      // starts at 0, steps by 1, leaves only through the loop test (or by returning)
}

func lenArg(v ssa.Value) ssa.Value {
	call, ok := v.(*ssa.Call)
	if !ok {
		return nil
	}
	if bi, ok := call.Call.Value.(*ssa.Builtin); !ok || bi.Name() != "len" {
		return nil
	}
	return call.Call.Args[0]
}

func countedLoops(fn *ssa.Function) []*cloop {
	var out []*cloop
	for _, b := range fn.Blocks {
		iff, ok := lastInstr(b).(*ssa.If)
		if !ok {
			continue
		}
		bo, ok := iff.Cond.(*ssa.BinOp)
		if !ok || bo.Op != token.LSS {
			continue
		}
		seq := lenArg(bo.Y)
		if seq == nil {
			continue
		}
		l := &cloop{iff: iff, seq: seq}
		startOK, stepOK := false, false
		switch x := bo.X.(type) {
		case *ssa.Phi:
			l.idx = x
			for _, e := range x.Edges {
				if constIs(e, 0) {
					startOK = true
				} else if b2, ok := e.(*ssa.BinOp); ok && b2.Op == token.ADD && b2.X == ssa.Value(x) && constIs(b2.Y, 1) {
					stepOK = true
				} else {
					startOK = false
					stepOK = false
					break
				}
			}
		case *ssa.BinOp:
			if phi, ok := x.X.(*ssa.Phi); ok && x.Op == token.ADD && constIs(x.Y, 1) {
				l.idx = x
				for _, e := range phi.Edges {
					if constIs(e, -1) {
						startOK = true
					} else if e == ssa.Value(x) {
						stepOK = true
					}
				}
				if len(phi.Edges) != 2 {
					startOK = false
				}
			}
		}
		if l.idx == nil {
			continue
		}
		// no break: the block after the loop is entered from the loop test only
		exit := b.Succs[1]
		noBreak := true
		for _, p := range exit.Preds {
			// a break is an edge from inside the loop; an inner loop's exit may also be the header of the loop around it,
			// which is entered from outside as well
			if p != b && b.Dominates(p) {
				noBreak = false
			}
		}
		l.full = startOK && stepOK && noBreak
		out = append(out, l)
	}
	return out
}

func (l *cloop) contains(b *ssa.BasicBlock) bool {
	body := l.iff.Block().Succs[0]
	return body == b || body.Dominates(b)
}

// elemOf: v is S[idx] of loop l (a load of &S[idx], S being the loop's own sequence value or an equal expression).
func (l *cloop) elemOf(v ssa.Value) bool {
	ld, ok := v.(*ssa.UnOp)
	if !ok || ld.Op != token.MUL {
		return false
	}
	ia, ok := ld.X.(*ssa.IndexAddr)
	if !ok || ia.Index != l.idx {
		return false
	}
	return ia.X == l.seq || symExpr(ia.X, 0) == symExpr(l.seq, 0)
}

// extraGuards: the conditions (with the truth value taken) that control `b` but not `outer`.
func extraGuards(b, outer *ssa.BasicBlock) []struct {
	cond  ssa.Value
	truth bool
} {
	var out []struct {
		cond  ssa.Value
		truth bool
	}
	for d := b.Idom(); d != nil && d != outer.Idom(); d = d.Idom() {
		iff, ok := lastInstr(d).(*ssa.If)
		if !ok || d.Succs[0] == d.Succs[1] {
			continue
		}
		for si, truth := range []bool{true, false} {
			t := d.Succs[si]
			if len(t.Preds) == 1 && (t == b || t.Dominates(b)) && !(t == outer || t.Dominates(outer)) {
				out = append(out, struct {
					cond  ssa.Value
					truth bool
				}{iff.Cond, truth})
			}
		}
	}
	return out
}

func isErrNilTest(cond ssa.Value) (ssa.Value, bool) {
	bo, ok := cond.(*ssa.BinOp)
	if !ok || (bo.Op != token.NEQ && bo.Op != token.EQL) {
		return nil, false
	}
	if isNilConst(bo.Y) && isErrorType(bo.X.Type()) {
		return bo.X, true
	}
	if isNilConst(bo.X) && isErrorType(bo.Y.Type()) {
		return bo.Y, true
	}
	return nil, false
}

func isErrorType(t types.Type) bool {
	return types.Identical(t, types.Universe.Lookup("error").Type())
}

func invokesOf(fn *ssa.Function, method string) []*ssa.Call {
	var out []*ssa.Call
	for _, b := range fn.Blocks {
		for _, ins := range b.Instrs {
			if c, ok := ins.(*ssa.Call); ok && c.Call.IsInvoke() && c.Call.Method.Name() == method {
				out = append(out, c)
			}
		}
	}
	return out
}

func runTD(c *Ctx, rule string, which map[string]bool) {
	r, u := c.R, c.U
	for _, path := range u.TC {
		short := strings.TrimPrefix(path, "uni/")
		r.count(rule+"/packages", 1)
		if which["write"] {
			tdWrite(c, rule, path, short)
			tdSchemaLists(c, rule, path, short)
		}
		if which["add"] {
			tdAdd(c, rule, path, short)
		}
		if which["reader"] {
			tdNext(c, rule, path, short)
			tdCtor(c, rule, path, short)
			tdRowGroup(c, rule, path, short)
		}
	}
	r.floor(rule+"/packages", len(u.TC), "one generated package per template-coverage struct")
}

// chainList: fn (a method on the writer) returns the list of page writers obtained by walking the chain from the
// receiver (or its child) through .child until nil, appending each exactly once, in order.
func chainList(fn *ssa.Function) (startSelf, startChild, ok bool) {
	if fn == nil || fn.Blocks == nil || len(fn.Params) == 0 {
		return
	}
	var walk *ssa.Phi
	for _, b := range fn.Blocks {
		for _, ins := range b.Instrs {
			phi, isPhi := ins.(*ssa.Phi)
			if !isPhi || len(phi.Edges) != 2 {
				continue
			}
			step := false
			for _, e := range phi.Edges {
				if ld, isLd := e.(*ssa.UnOp); isLd && ld.Op == token.MUL {
					if fa, isFA := ld.X.(*ssa.FieldAddr); isFA && fa.X == ssa.Value(phi) && fieldOf(fa) != nil && roleOf(fieldOf(fa)) == "child" {
						step = true
					}
				}
			}
			if step {
				walk = phi
			}
		}
	}
	if walk == nil {
		return
	}
	for _, e := range walk.Edges {
		if e == ssa.Value(fn.Params[0]) {
			startSelf = true
		} else if f := recvFieldLoad(fn, e); f != nil && roleOf(f) == "child" {
			startChild = true
		}
	}
	// loop test: walk != nil, nothing else
	iff, isIf := lastInstr(walk.Block()).(*ssa.If)
	if !isIf {
		return
	}
	bo, isBo := iff.Cond.(*ssa.BinOp)
	if !isBo || bo.X != ssa.Value(walk) || !isNilConst(bo.Y) || (bo.Op != token.NEQ && bo.Op != token.EQL) {
		return
	}
	body := walk.Block().Succs[0]
	if bo.Op == token.EQL {
		body = walk.Block().Succs[1]
	}
	// the list: phi[empty, append(list, walk)] in the same header; appended in the body unconditionally
	var list *ssa.Phi
	for _, ins := range walk.Block().Instrs {
		phi, isPhi := ins.(*ssa.Phi)
		if !isPhi || phi == walk {
			continue
		}
		if _, isSl := phi.Type().Underlying().(*types.Slice); !isSl {
			continue
		}
		grows, empty := false, false
		for _, e := range phi.Edges {
			switch y := e.(type) {
			case *ssa.Const:
				empty = y.IsNil()
			case *ssa.MakeSlice:
				empty = constIs(y.Len, 0)
			case *ssa.Call:
				if bi, isB := y.Call.Value.(*ssa.Builtin); isB && bi.Name() == "append" && y.Call.Args[0] == ssa.Value(phi) {
					vals := appendedValues(y)
					if len(vals) == 1 && vals[0] == ssa.Value(walk) && y.Block() == body {
						grows = true
					}
				}
			}
		}
		if grows && empty {
			list = phi
		}
	}
	if list == nil {
		return
	}
	for _, b := range fn.Blocks {
		if ret, isRet := lastInstr(b).(*ssa.Return); isRet {
			if len(ret.Results) != 1 || ret.Results[0] != ssa.Value(list) {
				return
			}
		}
	}
	ok = startSelf || startChild
	return
}

// tdWrite: per column index, the parent's page first, then the page of every writer in the child chain, same index.
func tdWrite(c *Ctx, rule, path, short string) {
	r, u := c.R, c.U
	fn := u.Func(path, "ParquetWriter.Write")
	key := short + ".(*ParquetWriter).Write page order"
	if fn == nil {
		r.undecided(rule, key, "", "ParquetWriter.Write not found")
		return
	}
	pos := u.Pos(fn.Pos())
	// the loop over all columns
	var outer *cloop
	for _, l := range countedLoops(fn) {
		if symExpr(l.seq, 0) != "load(recv.fields)" {
			continue
		}
		// the loop that writes: its body reaches a Field.Write (directly or through a helper method given the index)
		body := l.iff.Block().Succs[0]
		for _, b := range fn.Blocks {
			if b != body && !body.Dominates(b) {
				continue
			}
			for _, ins := range b.Instrs {
				if call, ok := ins.(*ssa.Call); ok {
					if call.Call.IsInvoke() && call.Call.Method.Name() == "Write" {
						outer = l
					}
					if sc := call.Call.StaticCallee(); sc != nil && u.pkgPathOf(sc) == path && len(invokesOf(sc, "Write")) > 0 {
						outer = l
					}
				}
			}
		}
	}
	if outer == nil {
		r.bad(rule, key, pos, "Write does not write the column objects of p.fields one by one in a loop over all of them")
		return
	}
	var bad []string
	if !outer.full {
		bad = append(bad, "the loop over p.fields does not visit every column (start 0, step 1, no break)")
	}
	// where the pages of column i are written: in Write itself or in a method called with (p, i)
	ctxFn, ctxIdx := fn, outer.idx
	entry := outer.iff.Block().Succs[0]
	if len(invokesOf(fn, "Write")) == 0 {
		for _, b := range fn.Blocks {
			for _, ins := range b.Instrs {
				call, ok := ins.(*ssa.Call)
				if !ok {
					continue
				}
				sc := call.Call.StaticCallee()
				if sc == nil || u.pkgPathOf(sc) != path || len(invokesOf(sc, "Write")) == 0 || !outer.contains(b) {
					continue
				}
				args := callArgs(&call.Call)
				if len(args) < 2 || args[0] != ssa.Value(fn.Params[0]) {
					bad = append(bad, "the column's pages are written by "+sc.Name()+" on another writer than p")
					continue
				}
				for i, a := range args {
					if a == outer.idx && i < len(sc.Params) {
						ctxFn, ctxIdx, entry = sc, sc.Params[i], sc.Blocks[0]
					}
				}
				if ctxFn == fn {
					bad = append(bad, sc.Name()+" is not given the index of the column being written")
				}
				if eg := extraGuards(b, outer.iff.Block().Succs[0]); len(eg) > 0 {
					bad = append(bad, "a column's pages are written only under "+symExpr(eg[0].cond, 0))
				}
			}
		}
	}
	writes := invokesOf(ctxFn, "Write")
	var parent, chainW *ssa.Call
	var chain *ssa.Phi
	var listLoop *cloop
	listSelf, listChild := false, false
	for _, w := range writes {
		ld, ok := w.Call.Value.(*ssa.UnOp)
		if !ok || ld.Op != token.MUL {
			bad = append(bad, "a Field.Write is not on an element of a writer's column list")
			continue
		}
		ia, ok := ld.X.(*ssa.IndexAddr)
		if !ok {
			bad = append(bad, "a Field.Write is not on an element of a writer's column list")
			continue
		}
		if ia.Index != ctxIdx {
			bad = append(bad, "a page is taken from column "+symExpr(ia.Index, 0)+" of its writer, want the column being written (the outer loop's index)")
		}
		// whose column list?
		var base ssa.Value
		if ctxFn == fn && (ia.X == outer.seq) {
			base = fn.Params[0]
		} else if fl, ok := ia.X.(*ssa.UnOp); ok && fl.Op == token.MUL {
			if fa, ok := fl.X.(*ssa.FieldAddr); ok && fieldOf(fa) != nil && roleOf(fieldOf(fa)) == "fields" {
				base = fa.X
			}
		}
		switch bv := base.(type) {
		case *ssa.Parameter:
			if bv == ctxFn.Params[0] {
				if parent != nil {
					bad = append(bad, "the parent's page is written twice")
				}
				parent = w
			} else {
				bad = append(bad, "a page of an unrelated writer is written")
			}
		case *ssa.Phi:
			if chainW != nil {
				bad = append(bad, "two chain walks")
			}
			chainW, chain = w, bv
		case *ssa.UnOp:
			// an element of a materialised list of page writers: for _, pg := range p.chain()
			handled := false
			for _, l2 := range countedLoops(ctxFn) {
				if !l2.elemOf(bv) {
					continue
				}
				lc, isCall := l2.seq.(*ssa.Call)
				if !isCall || lc.Call.StaticCallee() == nil || len(lc.Call.Args) == 0 || lc.Call.Args[0] != ssa.Value(ctxFn.Params[0]) {
					continue
				}
				sSelf, sChild, okList := chainList(lc.Call.StaticCallee())
				if !okList {
					continue
				}
				handled = true
				if chainW != nil {
					bad = append(bad, "two chain walks")
				}
				chainW, listLoop, listSelf, listChild = w, l2, sSelf, sChild
				if !l2.full {
					bad = append(bad, "the loop over the page writers does not visit every page")
				}
			}
			if !handled {
				bad = append(bad, "a Field.Write is on "+symExpr(w.Call.Value, 0)+": neither the parent's column nor a column of a writer of the child chain")
			}
		default:
			bad = append(bad, "a Field.Write is on "+symExpr(w.Call.Value, 0)+": neither the parent's column nor a column of a writer of the child chain")
		}
	}
	if chainW != nil && listLoop != nil {
		// list form: the list is the chain in order; the only conditions between pages are the loop test and earlier writes
		switch {
		case parent != nil && !listChild:
			bad = append(bad, "the parent's page is written twice (once on its own, once as the first element of the list)")
		case parent == nil && !listSelf:
			bad = append(bad, "the parent's own page is not written (the list of pages starts at p.child)")
		}
		if parent != nil && !dominatesInstr(parent, chainW) {
			bad = append(bad, "the child chain's pages are written before the parent's page: the records of a column chunk come out of order")
		}
		from := entry
		if parent != nil {
			from = parent.Block()
		}
		for _, g := range extraGuards(chainW.Block(), from) {
			if ev, isErr := isErrNilTest(g.cond); isErr {
				if cl, isCall := ev.(*ssa.Call); isCall && cl.Call.IsInvoke() && cl.Call.Method.Name() == "Write" {
					continue
				}
			}
			if g.cond == listLoop.iff.Cond && g.truth {
				continue
			}
			bad = append(bad, fmt.Sprintf("a page of the chain is written only when %s is %v: pages (and the records in them) can be skipped", symExpr(g.cond, 0), g.truth))
		}
	} else if chainW == nil {
		bad = append(bad, "the pages of the child writers (records beyond the first page of a row group) are not written")
	} else {
		startSelf, startChild, stepOK := false, false, false
		for _, e := range chain.Edges {
			if e == ssa.Value(ctxFn.Params[0]) {
				startSelf = true
			} else if f := recvFieldLoad(ctxFn, e); f != nil && roleOf(f) == "child" {
				startChild = true
			} else if ld, isLd := e.(*ssa.UnOp); isLd && ld.Op == token.MUL {
				if fa, isFA := ld.X.(*ssa.FieldAddr); isFA && fa.X == ssa.Value(chain) && fieldOf(fa) != nil && roleOf(fieldOf(fa)) == "child" {
					stepOK = true
				}
			}
		}
		switch {
		case len(chain.Edges) != 2 || !stepOK:
			bad = append(bad, "the chain walk does not advance by .child")
		case parent != nil && !startChild:
			bad = append(bad, "the chain walk does not start at p.child")
		case parent == nil && !startSelf:
			bad = append(bad, "the parent's own page is not written (the chain walk starts at "+map[bool]string{true: "p.child", false: "?"}[startChild]+")")
		}
		if parent != nil && !dominatesInstr(parent, chainW) {
			bad = append(bad, "the child chain's pages are written before the parent's page: the records of a column chunk come out of order")
		}
		from := entry
		if parent != nil {
			from = parent.Block()
		}
		nilTest := false
		for _, g := range extraGuards(chainW.Block(), from) {
			if ev, isErr := isErrNilTest(g.cond); isErr {
				if cl, isCall := ev.(*ssa.Call); isCall && cl.Call.IsInvoke() && cl.Call.Method.Name() == "Write" {
					continue
				}
			}
			if bo, isBo := g.cond.(*ssa.BinOp); isBo && isNilConst(bo.Y) && bo.X == ssa.Value(chain) && ((bo.Op == token.NEQ && g.truth) || (bo.Op == token.EQL && !g.truth)) {
				nilTest = true
				continue
			}
			bad = append(bad, fmt.Sprintf("a page of the chain is written only when %s is %v: pages (and the records in them) can be skipped", symExpr(g.cond, 0), g.truth))
		}
		if !nilTest {
			bad = append(bad, "the chain walk is not `for child != nil`")
		}
	}
	if parent != nil {
		if eg := extraGuards(parent.Block(), entry); len(eg) > 0 {
			bad = append(bad, "the parent's page is written only under "+symExpr(eg[0].cond, 0))
		}
	}
	if len(bad) > 0 {
		r.bad(rule, key, pos, strings.Join(bad, "; "))
	} else {
		r.ok(rule, key, pos, "for every column i: p.fields[i].Write, then child.fields[i].Write for child = p.child, .child, … until nil")
	}
}

// schemaListProblems: list (an SSA value in fn) holds Schema() of every element of one column sequence, in order:
// either a slice made with that sequence's length and filled by index in a full loop over it, or a slice grown by
// appending Schema() of each element in a full loop over it. A helper that builds the list is analysed in its own body.
func schemaListProblems(u *Universe, fn *ssa.Function, list ssa.Value, depth int) []string {
	if depth > 2 {
		return []string{"the column list is built too indirectly"}
	}
	if call, ok := list.(*ssa.Call); ok {
		if sc := call.Call.StaticCallee(); sc != nil && u.InUniverse(sc) && sc.Blocks != nil && sc.Signature.Results().Len() == 1 {
			var probs []string
			n := 0
			for _, b := range sc.Blocks {
				if ret, ok := lastInstr(b).(*ssa.Return); ok {
					n++
					probs = append(probs, schemaListProblems(u, sc, ret.Results[0], depth+1)...)
				}
			}
			if n == 0 {
				probs = append(probs, sc.Name()+" never returns")
			}
			return probs
		}
	}
	loops := countedLoops(fn)
	schemaOfElem := func(v ssa.Value, idx ssa.Value) (*cloop, bool) {
		inv, ok := v.(*ssa.Call)
		if !ok || !inv.Call.IsInvoke() || inv.Call.Method.Name() != "Schema" {
			return nil, false
		}
		for _, l := range loops {
			if (idx == nil || l.idx == idx) && l.elemOf(inv.Call.Value) {
				return l, true
			}
		}
		return nil, false
	}
	switch x := list.(type) {
	case *ssa.MakeSlice:
		base := lenArg(stripConvert(x.Len))
		var bad []string
		if base == nil {
			bad = append(bad, "the list's length is "+symExpr(x.Len, 0)+", want the number of columns")
		}
		filled := false
		for _, ref := range *x.Referrers() {
			ia, ok := ref.(*ssa.IndexAddr)
			if !ok {
				continue
			}
			for _, r2 := range *ia.Referrers() {
				st, ok := r2.(*ssa.Store)
				if !ok || st.Addr != ssa.Value(ia) {
					continue
				}
				l, ok := schemaOfElem(st.Val, ia.Index)
				if !ok {
					bad = append(bad, "entry "+symExpr(ia.Index, 0)+" is set to "+symExpr(st.Val, 0)+", want Schema() of the column with that index")
					continue
				}
				if !l.full {
					bad = append(bad, "the loop filling the list does not visit every column")
				}
				if base != nil && symExpr(l.seq, 0) != symExpr(base, 0) {
					bad = append(bad, "the list is sized by "+symExpr(base, 0)+" but filled from "+symExpr(l.seq, 0))
				}
				filled = true
			}
		}
		if !filled {
			bad = append(bad, "entry i of the list is not Schema() of column i for every i (a shifted or partial list leaves zero-valued columns in the footer schema)")
		}
		return bad
	case *ssa.Phi:
		// grown by append in a loop: phi[empty, append(phi, elem.Schema())]
		var bad []string
		emptyOK, growOK := false, false
		for _, e := range x.Edges {
			switch y := e.(type) {
			case *ssa.MakeSlice:
				if constIs(y.Len, 0) {
					emptyOK = true
				} else {
					bad = append(bad, "the list starts with "+symExpr(y.Len, 0)+" zero-valued columns before the real ones are appended")
				}
			case *ssa.Const:
				emptyOK = y.IsNil()
			case *ssa.Call:
				bi, ok := y.Call.Value.(*ssa.Builtin)
				if !ok || bi.Name() != "append" || y.Call.Args[0] != ssa.Value(x) {
					bad = append(bad, "the list is not grown by appending to itself")
					continue
				}
				vals := appendedValues(y)
				if len(vals) != 1 {
					bad = append(bad, "more than one entry is appended per column")
					continue
				}
				l, ok := schemaOfElem(vals[0], nil)
				switch {
				case !ok:
					bad = append(bad, "the appended entry is "+symExpr(vals[0], 0)+", want Schema() of the loop's column")
				case !l.full:
					bad = append(bad, "the loop appending to the list does not visit every column")
				case l.iff.Block() != x.Block():
					bad = append(bad, "the list is not grown once per iteration of the loop over the columns")
				default:
					growOK = true
				}
			default:
				bad = append(bad, "the list can also be "+symExpr(e, 0))
			}
		}
		if !emptyOK || !growOK {
			bad = append(bad, "the list is not `empty, then Schema() of every column appended in order`")
		}
		return bad
	}
	return []string{"the column list is " + symExpr(list, 0) + ": neither filled by index nor grown by append over all columns"}
}

// tdSchemaLists: the column list handed to the runtime (parquet.New, StartRowGroup) is Schema() of every column, in order.
func tdSchemaLists(c *Ctx, rule, path, short string) {
	r, u := c.R, c.U
	for _, fname := range []string{"ParquetWriter.Write", "newParquetWriter", "NewParquetReader"} {
		fn := u.Func(path, fname)
		if fname == "newParquetWriter" {
			fn = roleFunc(u, path, "writerInner")
		}
		if fn == nil {
			r.undecided(rule, short+"."+fname+" column list", "", "function not found")
			continue
		}
		for _, b := range fn.Blocks {
			for _, ins := range b.Instrs {
				call, ok := ins.(*ssa.Call)
				if !ok {
					continue
				}
				sc := call.Call.StaticCallee()
				if sc == nil || u.pkgPathOf(sc) != rtPath || (sc.Name() != "New" && sc.Name() != "StartRowGroup") {
					continue
				}
				key := fmt.Sprintf("%s.%s column list for %s", short, fname, sc.Name())
				pos := u.Pos(call.Pos())
				r.count(rule+"/column-lists", 1)
				arg := call.Call.Args[len(call.Call.Args)-1]
				if bad := schemaListProblems(u, fn, arg, 0); len(bad) > 0 {
					r.bad(rule, key, pos, strings.Join(bad, "; "))
				} else {
					r.ok(rule, key, pos, "list[i] = columns[i].Schema() for every column")
				}
			}
		}
	}
	r.floor(rule+"/column-lists", 3, "Write -> StartRowGroup, newParquetWriter -> New, NewParquetReader -> New")
}

// tdAdd: a record that fits the page is counted once (NextDoc), given to every column once, and advances p.len by one.
func tdAdd(c *Ctx, rule, path, short string) {
	r, u := c.R, c.U
	fn := u.Func(path, "ParquetWriter.Add")
	key := short + ".(*ParquetWriter).Add"
	if fn == nil {
		r.undecided(rule, key, "", "ParquetWriter.Add not found")
		return
	}
	pos := u.Pos(fn.Pos())
	var bad []string
	// the part that stores a record in this page: in Add itself, or in a method of the writer that Add calls with the
	// record (`p.add(rec)`); api is Add, fn from here on the function that holds the column loop
	api := fn
	var viaCall *ssa.Call
	recParam := 1
	if len(invokesOf(fn, "Add")) == 0 {
		for _, b := range api.Blocks {
			for _, ins := range b.Instrs {
				call, ok := ins.(*ssa.Call)
				if !ok {
					continue
				}
				sc := call.Call.StaticCallee()
				if sc == nil || sc == api || u.pkgPathOf(sc) != path || sc.Signature.Recv() == nil || len(call.Call.Args) < 2 || call.Call.Args[0] != ssa.Value(api.Params[0]) || len(invokesOf(sc, "Add")) == 0 {
					continue
				}
				for i, a := range call.Call.Args {
					if a == ssa.Value(api.Params[1]) {
						viaCall, fn, recParam = call, sc, i
					}
				}
			}
		}
	}
	loops := countedLoops(fn)
	adds := invokesOf(fn, "Add")
	var colAdd *ssa.Call
	var loop *cloop
	for _, a := range adds {
		for _, l := range loops {
			if l.elemOf(a.Call.Value) && symExpr(l.seq, 0) == "load(recv.fields)" {
				colAdd, loop = a, l
			}
		}
	}
	if colAdd == nil || len(adds) != 1 {
		r.bad(rule, key, pos, "Add does not hand the record to every column of p.fields exactly once")
		return
	}
	if !loop.full {
		bad = append(bad, "the loop over p.fields does not visit every column")
	}
	if len(colAdd.Call.Args) != 1 || recParam >= len(fn.Params) || colAdd.Call.Args[0] != ssa.Value(fn.Params[recParam]) {
		bad = append(bad, "the columns are not given the caller's record")
	}
	// the control region of the column loop (the loop's own test aside: statements after the loop are in that region too)
	own := map[string]bool{"true:" + symExpr(loop.iff.Cond, 0): true, "false:" + symExpr(loop.iff.Cond, 0): true}
	regionOf := func(b *ssa.BasicBlock) string {
		var g []string
		for _, x := range guardConds(b) {
			if !own[x] {
				g = append(g, x)
			}
		}
		return strings.Join(g, ";")
	}
	region := regionOf(loop.iff.Block())
	same := func(b *ssa.BasicBlock) bool { return regionOf(b) == region }
	// NextDoc: exactly once, in the same control region as the column loop, outside any loop
	nd := callsNamed(fn, "NextDoc")
	switch {
	case len(nd) != 1:
		bad = append(bad, fmt.Sprintf("%d calls of Metadata.NextDoc, want exactly one per stored record: the row counts of the row group and the file are what NextDoc counts", len(nd)))
	case !same(nd[0].Block()) || inCycleBlock(nd[0].Block()):
		bad = append(bad, "Metadata.NextDoc is not called exactly when the record is handed to the columns")
	}
	// len++
	incs := 0
	for _, b := range fn.Blocks {
		for _, ins := range b.Instrs {
			st, ok := ins.(*ssa.Store)
			if !ok {
				continue
			}
			f := fieldOf(st.Addr)
			if f == nil || roleOf(f) != "len" {
				continue
			}
			bo, ok := st.Val.(*ssa.BinOp)
			if ok && bo.Op == token.ADD && constIs(bo.Y, 1) && recvFieldLoad(fn, bo.X) == f && same(b) && !inCycleBlock(b) {
				incs++
			} else {
				bad = append(bad, "p.len is set to "+symExpr(st.Val, 0))
			}
		}
	}
	if incs != 1 {
		bad = append(bad, fmt.Sprintf("p.len is advanced %d times per stored record, want once", incs))
	}
	// the record is kept in this page only while the page is not full: the test that admits it must imply len < max
	// (len == max refused suffices, because len only grows by one from 0; len > max refused does not)
	admits := false
	var lenMax []string
	anchor, admitFn := loop.iff.Block(), fn
	if viaCall != nil {
		anchor, admitFn = viaCall.Block(), api
	}
	for d := anchor; d != nil; d = d.Idom() {
		id := d.Idom()
		if id == nil {
			break
		}
		iff, ok := lastInstr(id).(*ssa.If)
		if !ok || id.Succs[0] == id.Succs[1] {
			continue
		}
		bo, ok := iff.Cond.(*ssa.BinOp)
		if !ok {
			continue
		}
		fx, fy := recvFieldLoad(admitFn, stripConvert(bo.X)), recvFieldLoad(admitFn, stripConvert(bo.Y))
		if fx == nil || fy == nil {
			continue
		}
		op := bo.Op
		if roleOf(fx) == "max" && roleOf(fy) == "len" {
			op = map[token.Token]token.Token{token.LSS: token.GTR, token.GTR: token.LSS, token.LEQ: token.GEQ, token.GEQ: token.LEQ, token.EQL: token.EQL, token.NEQ: token.NEQ}[op]
		} else if !(roleOf(fx) == "len" && roleOf(fy) == "max") {
			continue
		}
		for si, truth := range []bool{true, false} {
			sb := id.Succs[si]
			if len(sb.Preds) != 1 || !(sb == anchor || sb.Dominates(anchor)) {
				continue
			}
			eff := op
			if !truth {
				eff = map[token.Token]token.Token{token.LSS: token.GEQ, token.LEQ: token.GTR, token.GTR: token.LEQ, token.GEQ: token.LSS, token.EQL: token.NEQ, token.NEQ: token.EQL}[op]
			}
			lenMax = append(lenMax, "len "+eff.String()+" max")
			if eff == token.LSS || eff == token.NEQ {
				admits = true
			}
		}
	}
	if !admits {
		bad = append(bad, fmt.Sprintf("a record is kept in this page under %v, which does not keep the page at `max` records (want len < max, or len != max): a page then holds more records than the configured page size", lenMax))
	}
	if len(bad) > 0 {
		r.bad(rule, key, pos, strings.Join(bad, "; "))
	} else {
		r.ok(rule, key, pos, "a record that fits: NextDoc once, every column's Add(rec) once, p.len++ once")
	}
}

func inCycleBlock(b *ssa.BasicBlock) bool {
	for _, x := range reachableBlocks(b) {
		if x == b {
			return true
		}
	}
	return false
}

// --- reader ---

type readerRoles struct {
	rows, cursor, gcount, gcursor, err *types.Var
}

func readerFields(u *Universe, path string) (*readerRoles, string) {
	rr := &readerRoles{}
	rowsFn := u.Func(path, "ParquetReader.Rows")
	next := u.Func(path, "ParquetReader.Next")
	rrg := roleFunc(u, path, "readRowGroup")
	if rowsFn == nil || next == nil || rrg == nil {
		return nil, "ParquetReader.Rows / Next / readRowGroup not found"
	}
	for _, b := range rowsFn.Blocks {
		if ret, ok := lastInstr(b).(*ssa.Return); ok && len(ret.Results) == 1 {
			rr.rows = recvFieldLoad(rowsFn, ret.Results[0])
		}
	}
	if rr.rows == nil {
		return nil, "Rows() does not return a field of the reader"
	}
	// the per-row-group count: stored in readRowGroup from RowGroup.Rows
	for _, b := range rrg.Blocks {
		for _, ins := range b.Instrs {
			if st, ok := ins.(*ssa.Store); ok {
				if src := fieldOfLoad(st.Val); src != nil && src.Name() == "Rows" && src.Pkg() != nil && src.Pkg().Path() == rtPath {
					rr.gcount = fieldOf(st.Addr)
				}
			}
		}
	}
	if rr.gcount == nil {
		return nil, "readRowGroup does not take the row group's row count from RowGroup.Rows"
	}
	// cursors: the fields Next (or a helper method it calls) compares with them
	for _, g := range unitFns(u, next) {
		if g == rrg {
			continue
		}
		for _, b := range g.Blocks {
			for _, ins := range b.Instrs {
				bo, ok := ins.(*ssa.BinOp)
				if !ok {
					continue
				}
				switch bo.Op {
				case token.LSS, token.LEQ, token.GTR, token.GEQ, token.EQL, token.NEQ:
				default:
					continue
				}
				x, y := recvFieldLoad(g, stripConvert(bo.X)), recvFieldLoad(g, stripConvert(bo.Y))
				for _, p := range [][2]*types.Var{{x, y}, {y, x}} {
					if p[0] == nil || p[1] == nil {
						continue
					}
					if p[1] == rr.rows {
						rr.cursor = p[0]
					}
					if p[1] == rr.gcount {
						rr.gcursor = p[0]
					}
				}
			}
		}
	}
	if rr.cursor == nil || rr.gcursor == nil {
		return nil, "Next does not compare a position with Rows() and a position with the row group's row count"
	}
	if o := u.Pkgs[path].Types.Scope().Lookup("ParquetReader"); o != nil {
		if st, ok := o.Type().Underlying().(*types.Struct); ok {
			for i := 0; i < st.NumFields(); i++ {
				if isErrorType(st.Field(i).Type()) {
					rr.err = st.Field(i)
				}
			}
		}
	}
	return rr, ""
}

// tdUnit: a root function with the helper methods it calls on its own object ("self"): what a template method was
// before someone split it up. self is the receiver of a method, or the object a constructor builds.
type tdUnit struct {
	u     *Universe
	root  *ssa.Function
	fns   []*ssa.Function
	self  map[*ssa.Function]ssa.Value
	sites map[*ssa.Function]*ssa.Call // the call through which a helper is entered
}

func newTDUnit(u *Universe, root *ssa.Function, self ssa.Value, exclude map[*ssa.Function]bool) *tdUnit {
	t := &tdUnit{u: u, root: root, fns: []*ssa.Function{root}, self: map[*ssa.Function]ssa.Value{root: self}, sites: map[*ssa.Function]*ssa.Call{}}
	for i := 0; i < len(t.fns) && i < 16; i++ {
		f := t.fns[i]
		for _, b := range f.Blocks {
			for _, ins := range b.Instrs {
				call, ok := ins.(*ssa.Call)
				if !ok {
					continue
				}
				sc := call.Call.StaticCallee()
				if sc == nil || sc.Blocks == nil || exclude[sc] || t.self[sc] != nil || u.pkgPathOf(sc) != u.pkgPathOf(root) || len(call.Call.Args) == 0 || len(sc.Params) == 0 {
					continue
				}
				if call.Call.Args[0] != t.self[f] || sc.Signature.Recv() == nil {
					continue
				}
				t.self[sc] = sc.Params[0]
				t.sites[sc] = call
				t.fns = append(t.fns, sc)
			}
		}
	}
	return t
}

// selfField: v loads a field of the unit's object; returns the field.
func (t *tdUnit) selfField(v ssa.Value) *types.Var {
	ld, ok := v.(*ssa.UnOp)
	if !ok || ld.Op != token.MUL {
		return nil
	}
	return t.selfFieldAddr(ld.X)
}

func (t *tdUnit) selfFieldAddr(a ssa.Value) *types.Var {
	f := fieldOf(a)
	if f == nil {
		return nil
	}
	for {
		fa, ok := a.(*ssa.FieldAddr)
		if !ok {
			break
		}
		a = fa.X
	}
	ins, ok := a.(ssa.Value)
	if !ok {
		return nil
	}
	var fn *ssa.Function
	switch x := ins.(type) {
	case *ssa.Parameter:
		fn = x.Parent()
	case ssa.Instruction:
		fn = x.Parent()
	}
	if fn == nil || t.self[fn] != a {
		return nil
	}
	return f
}

// chain: the instruction preceded by the call sites through which its function is reached from the root.
func (t *tdUnit) chain(ins ssa.Instruction) []ssa.Instruction {
	out := []ssa.Instruction{ins}
	for f := ins.Parent(); f != t.root; {
		site := t.sites[f]
		if site == nil {
			return nil
		}
		out = append([]ssa.Instruction{site}, out...)
		f = site.Parent()
	}
	return out
}

// before: a is executed before b on every path to b (dominance, looking through the unit's helper calls).
func (t *tdUnit) before(a, b ssa.Instruction) bool {
	ca, cb := t.chain(a), t.chain(b)
	if ca == nil || cb == nil {
		return false
	}
	for i := 0; i < len(ca) && i < len(cb); i++ {
		if ca[i] != cb[i] {
			return dominatesInstr(ca[i], cb[i])
		}
	}
	return false
}

func (t *tdUnit) calls(pred func(*ssa.Call) bool) []*ssa.Call {
	var out []*ssa.Call
	for _, f := range t.fns {
		for _, b := range f.Blocks {
			for _, ins := range b.Instrs {
				if c, ok := ins.(*ssa.Call); ok && pred(c) {
					out = append(out, c)
				}
			}
		}
	}
	return out
}

func (t *tdUnit) stores(fld *types.Var) []*ssa.Store {
	var out []*ssa.Store
	for _, f := range t.fns {
		for _, b := range f.Blocks {
			for _, ins := range b.Instrs {
				if st, ok := ins.(*ssa.Store); ok && t.selfFieldAddr(st.Addr) == fld && fld != nil {
					out = append(out, st)
				}
			}
		}
	}
	return out
}

// tdCtor: the constructor takes the row count from the footer it just read and positions the source behind the
// leading magic before the first row group is read.
func tdCtor(c *Ctx, rule, path, short string) {
	r, u := c.R, c.U
	fn := u.Func(path, "NewParquetReader")
	key := short + ".NewParquetReader"
	roles, why := readerFields(u, path)
	if fn == nil || roles == nil {
		r.undecided(rule, key, "", "NewParquetReader not found / "+why)
		return
	}
	pos := u.Pos(fn.Pos())
	rrg := roleFunc(u, path, "readRowGroup")
	// the object under construction: what the constructor returns
	var self ssa.Value
	for _, b := range fn.Blocks {
		if ret, ok := lastInstr(b).(*ssa.Return); ok && len(ret.Results) == 2 {
			if al, ok := ret.Results[0].(*ssa.Alloc); ok {
				self = al
			}
		}
	}
	if self == nil {
		r.undecided(rule, key, pos, "the constructor does not return a reader it allocates")
		return
	}
	t := newTDUnit(u, fn, self, map[*ssa.Function]bool{rrg: true})
	var bad []string
	rf := t.calls(func(c *ssa.Call) bool {
		sc := c.Call.StaticCallee()
		return sc != nil && sc.Name() == "ReadFooter" && u.pkgPathOf(sc) == rtPath
	})
	if len(rf) != 1 {
		r.undecided(rule, key, pos, "NewParquetReader does not call ReadFooter exactly once")
		return
	}
	meta := rf[0].Call.Args[0]
	// rows
	rowsOK := false
	for _, st := range t.stores(roles.rows) {
		call, ok := stripConvert(st.Val).(*ssa.Call)
		if ok && call.Call.StaticCallee() != nil && call.Call.StaticCallee().Name() == "Rows" && u.pkgPathOf(call.Call.StaticCallee()) == rtPath && call.Call.Args[0] == meta && t.before(rf[0], call) {
			rowsOK = true
		} else {
			bad = append(bad, "the reader's row count is set to "+symExpr(st.Val, 0)+", want Rows() of the footer just read")
		}
	}
	if !rowsOK {
		bad = append(bad, "the reader's row count ("+roles.rows.Name()+") is not taken from the footer: Next() would be true a different number of times than the file has rows")
	}
	// seek behind the magic
	magicLen := int64(4)
	if g, ok := u.SSAPkgs[path].Members["par1"].(*ssa.Global); ok {
		init := u.SSAPkgs[path].Func("init")
		for _, b := range init.Blocks {
			for _, ins := range b.Instrs {
				if st, ok := ins.(*ssa.Store); ok && st.Addr == ssa.Value(g) {
					if cv, ok := st.Val.(*ssa.Convert); ok {
						if k, ok := cv.X.(*ssa.Const); ok && k.Value != nil && k.Value.Kind() == constant.String {
							magicLen = int64(len(constant.StringVal(k.Value)))
						}
					}
				}
			}
		}
	}
	rrgCalls := t.calls(func(c *ssa.Call) bool { return c.Call.StaticCallee() == rrg })
	seeks := t.calls(func(c *ssa.Call) bool {
		return c.Call.IsInvoke() && c.Call.Method.Name() == "Seek" && len(c.Call.Args) == 2
	})
	seekOK := false
	for _, sk := range seeks {
		if !t.before(rf[0], sk) {
			continue
		}
		if constIs(sk.Call.Args[0], magicLen) && constIs(sk.Call.Args[1], 0) {
			seekOK = true
			for _, rc := range rrgCalls {
				if !t.before(sk, rc) {
					seekOK = false
				}
			}
		} else {
			bad = append(bad, fmt.Sprintf("after the footer the source is positioned with Seek(%s, %s), want Seek(%d, io.SeekStart): the first page header starts right behind the leading magic", symExpr(sk.Call.Args[0], 0), symExpr(sk.Call.Args[1], 0), magicLen))
		}
	}
	if !seekOK {
		bad = append(bad, fmt.Sprintf("the source is not positioned at byte %d (behind the leading magic) between reading the footer and reading the first row group", magicLen))
	}
	if len(rrgCalls) == 0 {
		bad = append(bad, "the first row group is not read by the constructor")
	}
	if len(bad) > 0 {
		r.bad(rule, key, pos, strings.Join(bad, "; "))
	} else {
		r.ok(rule, key, pos, fmt.Sprintf("rows = footer.Rows(); Seek(%d, SeekStart) after the footer and before the first row group", magicLen))
	}
}

// tdRowGroup: readRowGroup takes row group 0 and page list entry 0 of each column and removes exactly those.
func tdRowGroup(c *Ctx, rule, path, short string) {
	r, u := c.R, c.U
	fn := roleFunc(u, path, "readRowGroup")
	key := short + ".(*ParquetReader).readRowGroup"
	if fn == nil {
		r.undecided(rule, key, "", "readRowGroup not found")
		return
	}
	pos := u.Pos(fn.Pos())
	t := newTDUnit(u, fn, fn.Params[0], nil)
	var bad []string
	reads := t.calls(func(c *ssa.Call) bool {
		return c.Call.IsInvoke() && c.Call.Method.Name() == "Read" && len(c.Call.Args) == 2
	})
	if len(reads) != 1 {
		r.undecided(rule, key, pos, fmt.Sprintf("%d Field.Read call sites", len(reads)))
		return
	}
	rd := reads[0]
	keySym := func(v ssa.Value) string { return symExpr(throughParams(v), 0) }
	// receiver: p.fields[name]
	nameKey := ""
	lookupOf := func(v ssa.Value) *ssa.Lookup {
		if ex, ok := v.(*ssa.Extract); ok {
			v = ex.Tuple
		}
		lk, _ := v.(*ssa.Lookup)
		return lk
	}
	if lk := lookupOf(rd.Call.Value); lk != nil {
		if f := t.selfField(lk.X); f != nil && roleOf(f) == "fields" {
			nameKey = keySym(lk.Index)
		}
	}
	var nameVal ssa.Value
	if lk := lookupOf(rd.Call.Value); lk != nil {
		nameVal = throughParams(lk.Index)
	}
	if nameKey == "" {
		bad = append(bad, "the column that reads is not p.fields[<column name>]")
	}
	// page argument: <pages>[name][0]
	var pagesLookup *ssa.Lookup
	if ld, ok := rd.Call.Args[1].(*ssa.UnOp); ok && ld.Op == token.MUL {
		if ia, ok := ld.X.(*ssa.IndexAddr); ok {
			if !constIs(ia.Index, 0) {
				bad = append(bad, "the chunk descriptor handed to Read is entry "+symExpr(ia.Index, 0)+" of the column's list, want the first (the list is consumed front to back)")
			}
			pagesLookup = lookupOf(ia.X)
		}
	}
	var pagesField *types.Var
	if pagesLookup == nil {
		bad = append(bad, "the chunk descriptor handed to Read is not <pages>[name][0]")
	} else {
		pagesField = t.selfField(pagesLookup.X)
		if pagesField == nil {
			bad = append(bad, "the chunk descriptors do not come from a field of the reader")
		}
		if nameKey != "" && keySym(pagesLookup.Index) != nameKey {
			bad = append(bad, "the chunk descriptor is looked up under "+keySym(pagesLookup.Index)+" but the column under "+nameKey)
		}
	}
	// consumed: pages[name] = pages[name][1:] after a successful Read
	if pagesField != nil {
		okAdv := false
		for _, f := range t.fns {
			for _, b := range f.Blocks {
				for _, ins := range b.Instrs {
					mu, ok := ins.(*ssa.MapUpdate)
					if !ok || t.selfField(mu.Map) != pagesField {
						continue
					}
					sl, ok := mu.Value.(*ssa.Slice)
					if !ok || !constIs(sl.Low, 1) || sl.High != nil {
						bad = append(bad, "the column's chunk list is set to "+symExpr(mu.Value, 0)+", want it advanced by exactly the one chunk read")
						continue
					}
					lk := lookupOf(sl.X)
					if lk == nil || t.selfField(lk.X) != pagesField || keySym(lk.Index) != keySym(mu.Key) || (nameKey != "" && keySym(mu.Key) != nameKey) {
						bad = append(bad, "the chunk list that is advanced is not the one of the column just read")
						continue
					}
					if t.before(rd, mu) {
						okAdv = true
					}
				}
			}
		}
		if !okAdv {
			bad = append(bad, "the chunk descriptor that was read is not removed from the column's list: the next row group re-reads with the first row group's sizes and counts")
		}
	}
	// row groups: element 0 used, list advanced by one — or: the list kept whole and walked by an index field of the
	// reader that is advanced by one after the row group's chunks have been read
	var rgField, rgCursor *types.Var
	for _, f := range t.fns {
		for _, b := range f.Blocks {
			for _, ins := range b.Instrs {
				if ia, ok := ins.(*ssa.IndexAddr); ok {
					if fl := t.selfField(ia.X); fl != nil && roleOf(fl) == "rowGroups" {
						rgField = fl
						if cf := t.selfField(ia.Index); cf != nil {
							rgCursor = cf
						} else if !constIs(ia.Index, 0) {
							bad = append(bad, "the row group read is entry "+symExpr(ia.Index, 0)+", want the first of the remaining ones")
						}
					}
				}
			}
		}
	}
	if rgField != nil && rgCursor != nil {
		adv := 0
		for _, st := range t.stores(rgCursor) {
			bo, ok := st.Val.(*ssa.BinOp)
			if ok && bo.Op == token.ADD && constIs(bo.Y, 1) && t.selfField(bo.X) == rgCursor && !t.before(st, rd) {
				adv++
			} else {
				bad = append(bad, "the index of the next row group is set to "+symExpr(st.Val, 0)+", want it advanced by one after the row group was read")
			}
		}
		if adv != 1 {
			bad = append(bad, fmt.Sprintf("the index of the next row group is advanced %d times per row group read, want once", adv))
		}
		for _, st := range t.stores(rgField) {
			bad = append(bad, "the list of row groups is walked by an index but also set to "+symExpr(st.Val, 0))
		}
		// nowhere else in the package
		_, others := storesTo(u, rgCursor)
		for _, st := range others {
			in := false
			for _, f := range t.fns {
				if st.Parent() == f {
					in = true
				}
			}
			if !in && !constIs(st.Val, 0) {
				bad = append(bad, "the index of the next row group is also written in "+u.FnName(st.Parent()))
			}
		}
	} else if rgField == nil {
		bad = append(bad, "readRowGroup does not take the first of the remaining row groups")
	} else {
		adv := false
		for _, st := range t.stores(rgField) {
			sl, ok := st.Val.(*ssa.Slice)
			if ok && constIs(sl.Low, 1) && sl.High == nil && t.selfField(sl.X) == rgField {
				adv = true
			} else {
				bad = append(bad, "the list of remaining row groups is set to "+symExpr(st.Val, 0))
			}
		}
		if !adv {
			bad = append(bad, "the row group just read is not removed from the list of remaining row groups")
		}
	}
	// the position within the row group restarts
	roles, _ := readerFields(u, path)
	if roles != nil {
		reset := false
		for _, st := range t.stores(roles.gcursor) {
			if constIs(st.Val, 0) {
				reset = true
			} else {
				bad = append(bad, "the position within the row group is set to "+symExpr(st.Val, 0)+", want 0")
			}
		}
		if !reset {
			bad = append(bad, "the position within the row group is not reset when a row group is loaded")
		}
	}
	// column lookup key agrees with the key getFields files the columns under
	if nameVal != nil {
		if why := keyAgreement(u, path, fn, nameVal); why != "" {
			bad = append(bad, why)
		}
	}
	if len(bad) > 0 {
		r.bad(rule, key, pos, strings.Join(bad, "; "))
	} else {
		r.ok(rule, key, pos, "row group 0 and, per column, chunk 0 are read and removed; the position in the group restarts at 0; columns are looked up under the name they are filed under")
	}
}

// keyAgreement: readRowGroup looks columns up under strings.Join(path_in_schema, SEP); getFields files them under
// Field.Name(), which the runtime computes as strings.Join(path, SEP') — SEP must equal SEP'.
func keyAgreement(u *Universe, path string, fn *ssa.Function, key ssa.Value) string {
	sepOf := func(v ssa.Value) (string, bool) {
		call, ok := v.(*ssa.Call)
		if !ok || fullCalleeName(&call.Call) != "strings.Join" {
			return "", false
		}
		k, ok := call.Call.Args[1].(*ssa.Const)
		if !ok || k.Value == nil || k.Value.Kind() != constant.String {
			return "", false
		}
		return constant.StringVal(k.Value), true
	}
	sep, ok := sepOf(key)
	if !ok {
		return "the column name of a chunk is " + symExpr(key, 0) + ", want strings.Join(path_in_schema, \".\")"
	}
	if call := key.(*ssa.Call); fieldOfLoad(call.Call.Args[0]) == nil || fieldOfLoad(call.Call.Args[0]).Name() != "PathInSchema" {
		return "the column name of a chunk is not built from its path_in_schema"
	}
	for _, n := range []string{"RequiredField.Name", "OptionalField.Name"} {
		nf := u.Func(rtPath, n)
		if nf == nil {
			return "parquet." + n + " not found"
		}
		for _, b := range nf.Blocks {
			if ret, ok := lastInstr(b).(*ssa.Return); ok {
				s2, ok := sepOf(ret.Results[0])
				if !ok || s2 != sep {
					return fmt.Sprintf("chunks are looked up under strings.Join(path, %q) but parquet.%s is %s", sep, n, symExpr(ret.Results[0], 0))
				}
			}
		}
	}
	gf := roleFunc(u, path, "getFields")
	if gf == nil {
		return "getFields not found"
	}
	okKey := false
	for _, b := range gf.Blocks {
		for _, ins := range b.Instrs {
			if mu, ok := ins.(*ssa.MapUpdate); ok {
				if call, ok := mu.Key.(*ssa.Call); ok && call.Call.IsInvoke() && call.Call.Method.Name() == "Name" && (call.Call.Value == mu.Value || symExpr(call.Call.Value, 0) == symExpr(mu.Value, 0)) {
					okKey = true
				} else {
					return "getFields files a column under " + symExpr(mu.Key, 0) + ", want its Name()"
				}
			}
		}
	}
	if !okKey {
		return "getFields does not file every column under its Name()"
	}
	return ""
}
