package main

// Source-side rules: EP on the io.ReadSeeker (C10, C11, C16) and SR — short-read
// tolerance (C08). DESIGN.md §4 EP, SR.

import (
	"fmt"
	"go/constant"
	"go/token"
	"go/types"
	"sort"
	"strconv"
	"strings"

	"golang.org/x/tools/go/ssa"
)

func init() {
	register("C08", "other", LoadOpts{TC: true, SSA: true, Controls: []string{"sr"}}, checkC08)
	register("C10", "other", LoadOpts{TC: true, SSA: true, Controls: []string{"ep"}}, checkC10)
	register("C11", "other", LoadOpts{TC: true, SSA: true}, checkC11)
}

type srcRoots struct {
	seeds  []ssa.Value
	reader []*ssa.Function // NewParquetReader, Next, Scan per package
	footer []*ssa.Function // ReadFooter, ReadMetaData
	intro  []*ssa.Function // ReadMetaData, PageHeaders, PageHeadersAtOffset
}

func sourceRoots(c *Ctx) *srcRoots {
	u, r := c.U, c.R
	s := &srcRoots{}
	need := func(pkg, name string, param int) *ssa.Function {
		f := u.Func(pkg, name)
		if f == nil {
			r.failf("API root %s missing in %s", name, pkg)
			return nil
		}
		if param >= 0 {
			if param >= len(f.Params) {
				r.failf("API root %s.%s has no parameter %d", pkg, name, param)
				return nil
			}
			s.seeds = append(s.seeds, f.Params[param])
		}
		return f
	}
	for _, p := range u.TC {
		if f := need(p, "NewParquetReader", 0); f != nil {
			s.reader = append(s.reader, f)
		}
		for _, m := range []string{"ParquetReader.Next", "ParquetReader.Scan", "ParquetReader.Error", "ParquetReader.Rows"} {
			if f := need(p, m, -1); f != nil {
				s.reader = append(s.reader, f)
			}
		}
	}
	if f := need(rtPath, "ReadMetaData", 0); f != nil {
		s.footer = append(s.footer, f)
		s.intro = append(s.intro, f)
	}
	if f := need(rtPath, "Metadata.ReadFooter", 1); f != nil {
		s.footer = append(s.footer, f)
	}
	if f := need(rtPath, "PageHeaders", 1); f != nil {
		s.intro = append(s.intro, f)
	}
	if f := need(rtPath, "PageHeadersAtOffset", 0); f != nil {
		s.intro = append(s.intro, f)
	}
	return s
}

// reach: universe functions reachable from roots over the call graph.
func (u *Universe) reach(roots []*ssa.Function) map[*ssa.Function]bool {
	seen := map[*ssa.Function]bool{}
	var work []*ssa.Function
	push := func(f *ssa.Function) {
		if f != nil && f.Blocks != nil && u.InUniverse(f) && !seen[f] {
			seen[f] = true
			work = append(work, f)
		}
	}
	for _, f := range roots {
		push(f)
	}
	for len(work) > 0 {
		f := work[len(work)-1]
		work = work[:len(work)-1]
		for _, b := range f.Blocks {
			for _, ins := range b.Instrs {
				switch x := ins.(type) {
				case ssa.CallInstruction:
					for _, cal := range u.Callees(x) {
						push(cal)
					}
				case *ssa.MakeClosure:
					push(x.Fn.(*ssa.Function))
				}
			}
		}
		for _, af := range f.AnonFuncs {
			push(af)
		}
	}
	return seen
}

// --- SR ---

var fillOrFail = map[string]string{
	"io.ReadFull":          "reads exactly len(buf) bytes or fails; accepts data returned together with io.EOF",
	"io.ReadAtLeast":       "loops until min bytes or error",
	"io.CopyN":             "copies exactly n bytes or fails",
	"io.Copy":              "reads until EOF",
	"io.ReadAll":           "reads until EOF",
	"io/ioutil.ReadAll":    "reads until EOF",
	"encoding/binary.Read": "uses io.ReadFull for the fixed-size value",
}

var nonConsuming = map[string]string{
	"github.com/apache/thrift/lib/go/thrift.NewTCompactProtocol":     "constructor; wraps the transport without reading",
	"github.com/apache/thrift/lib/go/thrift.NewTCompactProtocolConf": "constructor; wraps the transport without reading",
	"context.TODO":       "",
	"context.Background": "",
}

func staticName(c *ssa.CallCommon) string {
	sc := c.StaticCallee()
	if sc == nil {
		return ""
	}
	if sc.Signature.Recv() != nil {
		return sc.String()
	}
	if sc.Pkg != nil {
		return sc.Pkg.Pkg.Path() + "." + sc.Name()
	}
	return sc.String()
}

func isReadSig(sig *types.Signature) bool {
	if sig.Params().Len() != 1 || sig.Results().Len() != 2 {
		return false
	}
	sl, ok := sig.Params().At(0).Type().Underlying().(*types.Slice)
	if !ok || !types.Identical(sl.Elem(), types.Typ[types.Byte]) {
		return false
	}
	return types.Identical(sig.Results().At(0).Type(), types.Typ[types.Int]) && isErr(sig.Results().At(1).Type())
}

func runSR(u *Universe, r *Report, t *Taint, only func(*ssa.Function) bool) {
	for _, f := range u.Funcs {
		if only != nil && !only(f) {
			continue
		}
		ord := map[string]int{}
		for _, b := range f.Blocks {
			for _, ins := range b.Instrs {
				site, ok := ins.(ssa.CallInstruction)
				if !ok || !t.AnyArg(site) {
					continue
				}
				c := site.Common()
				if _, isB := c.Value.(*ssa.Builtin); isB {
					continue
				}
				name := calleeName(u, c)
				ord[name]++
				key := fmt.Sprintf("%s -> %s #%d", u.FnName(f), name, ord[name])
				pos := u.Pos(ins.Pos())
				// direct Read on the source (interface method or concrete method named Read with the io.Reader signature)
				mname := ""
				recvTagged := false
				if c.IsInvoke() {
					mname = c.Method.Name()
					recvTagged = t.Has(c.Value)
				} else if sc := c.StaticCallee(); sc != nil && sc.Signature.Recv() != nil && len(c.Args) > 0 {
					mname = sc.Name()
					recvTagged = t.Has(c.Args[0])
				}
				if mname == "Read" && recvTagged && isReadSig(stripRecv(c.Signature())) {
					r.count("SR/direct-read", 1)
					st, why := classifyDirectRead(site, f)
					r.add("SR", key, st, pos, why)
					continue
				}
				if mname == "Seek" && recvTagged {
					r.count("SR/seek", 1)
					continue // repositioning, consumes nothing
				}
				// universe callee: the obligation sits inside it
				uni := false
				for _, cal := range u.Callees(site) {
					if u.InUniverse(cal) && cal.Blocks != nil {
						uni = true
					}
				}
				if uni {
					continue
				}
				if !c.IsInvoke() && c.StaticCallee() == nil && rootParam(c.Value, 0) >= 0 {
					// caller-supplied function value (a reader option): code outside the library
					r.count("SR/caller-supplied-option", 1)
					continue
				}
				sn := staticName(c)
				if why, ok := fillOrFail[sn]; ok {
					r.count("SR/fill-or-fail", 1)
					r.ok("SR", key, pos, "fill-or-fail consumer: "+why)
					continue
				}
				if _, ok := nonConsuming[sn]; ok {
					continue
				}
				if sc := c.StaticCallee(); sc != nil && sc.Pkg != nil && sc.Pkg.Pkg.Path() == schPath && sc.Name() == "Read" {
					r.count("SR/fill-or-fail", 1)
					r.ok("SR", key, pos, "thrift-generated Read over TCompactProtocol/StreamTransport: every transport read goes through io.ReadFull or readByte (accepts n>0 with EOF), no read-ahead")
					continue
				}
				if c.IsInvoke() && !recvTagged {
					// e.g. pg.Read(ctx, proto) through an interface: not present today
					r.undecided("SR", key, pos, "interface method receives the source; consumption behaviour unknown")
					continue
				}
				r.undecided("SR", key, pos, "opaque callee "+sn+" receives the source and is in no contract table (fill-or-fail / non-consuming)")
			}
		}
	}
}

func stripRecv(sig *types.Signature) *types.Signature {
	if sig.Recv() == nil {
		return sig
	}
	return types.NewSignatureType(nil, nil, nil, sig.Params(), sig.Results(), sig.Variadic())
}

// classifyDirectRead: a raw Read on the source is fine only inside a forwarding
// wrapper (a Read method that returns the inner (n, err) unchanged).
func classifyDirectRead(site ssa.CallInstruction, f *ssa.Function) (string, string) {
	call, ok := site.(*ssa.Call)
	if !ok {
		return Violated, "raw Read on the source in defer/go: count and error discarded"
	}
	var n, e ssa.Value
	for _, ref := range *call.Referrers() {
		if ex, ok := ref.(*ssa.Extract); ok {
			if ex.Index == 0 {
				n = ex
			} else {
				e = ex
			}
		}
	}
	if f.Name() == "Read" && f.Signature.Recv() != nil && isReadSig(stripRecv(f.Signature)) {
		good := n != nil && e != nil
		for _, b := range f.Blocks {
			if ret, ok := b.Instrs[len(b.Instrs)-1].(*ssa.Return); ok {
				if len(ret.Results) != 2 || ret.Results[0] != n || ret.Results[1] != e {
					good = false
				}
			}
		}
		if good {
			return Discharged, "forwarding wrapper: returns the inner call's (n, err) unchanged, so its users carry the obligation"
		}
		return Violated, "Read method on the source does not forward the inner (n, err) unchanged"
	}
	if n == nil {
		return Violated, "assumes a full read: raw Read on the source with the byte count discarded (a short read or data+EOF leaves the buffer partly filled / is taken for failure)"
	}
	used := 0
	for _, ref := range *n.Referrers() {
		if _, ok := ref.(*ssa.DebugRef); !ok {
			used++
		}
	}
	if used == 0 {
		return Violated, "assumes a full read: raw Read on the source, byte count never used"
	}
	return Undecided, "raw Read on the source whose count is used; manual fill loops are not an accepted idiom here (use io.ReadFull)"
}

func srcAnalysis(c *Ctx) (*srcRoots, *Taint, *Ops) {
	roots := sourceRoots(c)
	t := c.U.NewTaint(roots.seeds...)
	ops := BuildOps(c.U, t)
	debugSites(c, ops)
	return roots, t, ops
}

func checkC08(c *Ctx) {
	r := c.R
	r.Explanation = "Decides C08 through a sufficient structural condition: every consumption of the source io.ReadSeeker (identified by wrapper-alias analysis from the reader/introspection entry points, runtime + instantiated templates) goes through a fill-or-fail primitive (io.ReadFull, io.CopyN, binary.Read, thrift over StreamTransport, …) or a count-preserving forwarding wrapper; a raw Read whose count is not honoured is reported at its call site. Then the bytes and errors every call site sees are identical for every fragmentation the io.Reader contract allows, including data returned with io.EOF, and the consumed-byte accounting (readCounter) is fragmentation independent."
	_, t, _ := srcAnalysis(c)
	runSR(c.U, r, t, func(f *ssa.Function) bool { return !c.U.isCtl(f) })
	c.controlsSR()
	laReadCounter(c, "SR-count")
	r.floor("SR/direct-read", 1, "readCounter.Read is the forwarding wrapper")
	r.floor("SR/fill-or-fail", 4, "binary.Read in getMetaDataSize, thrift Read in ReadMetaData and PageHeader, io.CopyN (+ page body reads) in pageData")
	r.floor("SR/seek", 2+len(c.U.TC), "getMetaDataSize, ReadMetaData, PageHeadersAtOffset x2, NewParquetReader per package")
	r.assume("contracts of the opaque fill-or-fail callees as listed in DESIGN.md §3.4 (io, encoding/binary, thrift compact protocol over StreamTransport without read-ahead)")
	r.assume("in-memory readers built from bytes already obtained (bytes.Buffer, gzip over a buffer) carry no obligation: the analysis tracks the identity of the source, not data read from it")
}

func fnSet(m map[*ssa.Function]bool) func(*OpSite) bool {
	return func(s *OpSite) bool { return m[s.Fn] }
}

func checkC10(c *Ctx) {
	r := c.R
	r.Explanation = "Decides the sufficient condition 'every failed Read/Seek on the source is reported': every call site reachable from NewParquetReader/Next/Scan that can touch the source io.ReadSeeker (wrapper-alias analysis over go/ssa + VTA) must, on every CFG path on which its error is non-nil, return a non-nil error up to the constructor, or record it in the sticky error that Error() returns, with Next returning false and Scan being a no-op once it is set. Stronger than the statement (which also allows 'all delivered rows are correct'). Does not decide 'does not panic'."
	roots, _, ops := srcAnalysis(c)
	reach := c.U.reach(roots.reader)
	runEP(c.U, r, "EP/source", ops, fnSet(reach))
	c.controlsEP()
	// "does not panic": the read path never dereferences state that only a writer has
	runNilState(c, "NS", "reader")
	n := len(c.U.TC)
	r.Analysed["functions_reachable_from_reader_roots"] = len(reach)
	r.floor("EP/source/primitive", 5+n, "getMetaDataSize x2, ReadMetaData x2, PageHeader, pageData x3 (+readCounter.Read) + NewParquetReader Seek per package")
	r.floor("EP/source/derived", 3+2*n, "ReadFooter->ReadMetaData->getMetaDataSize, DoRead x2 -> PageHeader/pageData, NewParquetReader -> ReadFooter/readRowGroup, readRowGroup -> Field.Read, Next -> readRowGroup")
	r.assume("io.Reader/io.Seeker contract: a failed call returns a non-nil error")
	r.assume("thrift-generated Read and encoding/binary.Read return the transport's error")
}

func checkC11(c *Ctx) {
	r, u := c.R, c.U
	r.Explanation = "Decides a necessary condition of C11 only: every failure while locating and decoding the footer (Seek(-8,End), footer length, Seek to footer, thrift decode) aborts NewParquetReader with an error (EP restricted to the footer path), and the footer read dominates the first column read in the constructor, so nothing is delivered from a file whose footer could not be decoded. Whether every strict prefix makes one of those calls fail depends on what bytes thrift rejects (the reader checks no magic); that value-level fact is NOT decided here."
	roots, _, ops := srcAnalysis(c)
	reach := u.reach(roots.footer)
	// call sites (in the generated constructor or a helper of it) whose callee reaches Metadata.ReadFooter
	readFooter := u.Func(rtPath, "Metadata.ReadFooter")
	rfMemo := map[*ssa.Function]bool{}
	reachesFooter := func(f *ssa.Function) bool {
		if v, ok := rfMemo[f]; ok {
			return v
		}
		res := false
		for g := range u.reach([]*ssa.Function{f}) {
			if g == readFooter && readFooter != nil {
				res = true
			}
		}
		rfMemo[f] = res
		return res
	}
	runEP(u, r, "EP/footer", ops, func(s *OpSite) bool {
		if reach[s.Fn] {
			return true
		}
		if s.Kind == Derived {
			for _, cal := range u.Callees(s.Site) {
				if u.InUniverse(cal) && reachesFooter(cal) && !calleeIsRowGroupReader(u, s) {
					return true
				}
			}
		}
		return false
	})
	// dominance: in NewParquetReader, the ReadFooter call dominates every call that reaches a column read
	colReaders := map[*ssa.Function]bool{}
	for _, f := range u.Funcs {
		if f.Name() == "DoRead" && u.pkgPathOf(f) == rtPath {
			colReaders[f] = true
		}
	}
	for _, p := range u.TC {
		ctor := u.Func(p, "NewParquetReader")
		if ctor == nil {
			continue
		}
		key := u.FnName(ctor)
		// the constructor with the helper methods it calls on the reader it builds
		var self ssa.Value
		for _, b := range ctor.Blocks {
			if ret, ok := lastInstr(b).(*ssa.Return); ok && len(ret.Results) == 2 {
				if al, ok := ret.Results[0].(*ssa.Alloc); ok {
					self = al
				}
			}
		}
		t := newTDUnit(u, ctor, self, nil)
		inUnit := map[*ssa.Function]bool{}
		for _, f := range t.fns {
			inUnit[f] = true
		}
		footers := t.calls(func(c *ssa.Call) bool {
			sc := c.Call.StaticCallee()
			return sc != nil && sc.Name() == "ReadFooter" && u.pkgPathOf(sc) == rtPath
		})
		if len(footers) == 0 {
			r.bad("FOOTER-FIRST", key, u.Pos(ctor.Pos()), "NewParquetReader does not call Metadata.ReadFooter")
			continue
		}
		r.count("FOOTER-FIRST", 1)
		okAll := true
		for _, f := range t.fns {
			for _, b := range f.Blocks {
				for _, ins := range b.Instrs {
					call, ok := ins.(ssa.CallInstruction)
					if !ok {
						continue
					}
					if sc := call.Common().StaticCallee(); sc != nil && inUnit[sc] && sc != f {
						continue // a helper of the constructor: its body is looked at itself
					}
					reachesCol := false
					for _, cal := range u.Callees(call) {
						if !u.InUniverse(cal) {
							continue
						}
						for g := range u.reach([]*ssa.Function{cal}) {
							if colReaders[g] {
								reachesCol = true
							}
						}
					}
					if !reachesCol {
						continue
					}
					dom := false
					for _, rf := range footers {
						if t.before(rf, ins) {
							dom = true
						}
					}
					if !dom {
						okAll = false
						r.bad("FOOTER-FIRST", key+" -> "+calleeName(u, call.Common()), u.Pos(ins.Pos()), "a column read is reachable in the constructor without the footer having been read first")
					}
				}
			}
		}
		if okAll {
			r.ok("FOOTER-FIRST", key, u.Pos(ctor.Pos()), "ReadFooter dominates every call in the constructor that reaches a column read")
		}
	}
	footerGate(c, roots)
	r.floor("EP/footer/primitive", 3, "getMetaDataSize: Seek, binary.Read; ReadMetaData: Seek, thrift Read")
	r.floor("EP/footer/derived", 1+len(u.TC), "ReadMetaData->getMetaDataSize, ReadFooter->ReadMetaData, NewParquetReader->ReadFooter per package")
	r.floor("FOOTER-FIRST", len(u.TC), "one constructor per generated package")
	r.assume("thrift rejects the bytes a truncated file presents as a footer — NOT decided (value-level)")
	_ = sort.Strings
}

// footerGate (C11): two necessary conditions that are visible in code shape — (FOOTER-DECODE) no function on the footer
// path that returns a *FileMetaData can return it with a nil error unless the thrift decode of the footer has run on
// that path; (FOOTER-MAGIC) the bytes at the end of the input are compared with the magic "PAR1", the failing side
// returning an error, before the footer length read next to them is used.
func footerGate(c *Ctx, roots *srcRoots) {
	r, u := c.R, c.U
	reach := u.reach(roots.footer)
	var fns []*ssa.Function
	for f := range reach {
		if u.pkgPathOf(f) == rtPath {
			fns = append(fns, f)
		}
	}
	sort.Slice(fns, func(i, j int) bool { return fns[i].String() < fns[j].String() })
	nDecode := 0
	for _, f := range fns {
		res := f.Signature.Results()
		if res.Len() != 2 || !strings.HasSuffix(res.At(0).Type().String(), "schema.FileMetaData") || errIndex(f.Signature) != 1 {
			continue
		}
		nDecode++
		key := u.FnName(f) + " decode-before-success"
		var decodes []ssa.Instruction
		for _, b := range f.Blocks {
			for _, ins := range b.Instrs {
				if call, ok := ins.(ssa.CallInstruction); ok {
					if sc := call.Common().StaticCallee(); sc != nil && sc.Name() == "Read" && strings.Contains(sc.String(), "schema.FileMetaData") {
						decodes = append(decodes, ins)
					}
				}
			}
		}
		bad := ""
		for _, b := range f.Blocks {
			ret, ok := lastInstr(b).(*ssa.Return)
			if !ok {
				continue
			}
			e := ret.Results[1]
			if call, isCall := e.(*ssa.Call); isCall {
				isDecode := false
				for _, d := range decodes {
					if d == ssa.Instruction(call) {
						isDecode = true
					}
				}
				if isDecode {
					continue // returns the decode's own error
				}
			}
			if !isNilConst(e) {
				if _, isPhi := e.(*ssa.Phi); !isPhi {
					continue // an error value: not a success
				}
			}
			dom := false
			for _, d := range decodes {
				if dominatesInstr(d, ret) {
					dom = true
				}
			}
			if !dom {
				bad = u.Pos(ret.Pos())
			}
		}
		if len(decodes) == 0 {
			r.bad("FOOTER-DECODE", key, u.Pos(f.Pos()), "the footer is never decoded")
		} else if bad != "" {
			r.bad("FOOTER-DECODE", key, bad, "the function can return footer metadata with a nil error at "+bad+" without having decoded the footer on that path: input that merely ends in suitable bytes (a truncated file) is accepted as a complete, possibly empty, file")
		} else {
			r.ok("FOOTER-DECODE", key, u.Pos(f.Pos()), "every success return is dominated by the thrift decode of the footer (or returns the decode's own error)")
		}
	}
	// the wrappers: a function of the footer path that gets the footer from a function judged above (or from another
	// wrapper) succeeds only after having called it — a shortcut ("this object already has a footer") accepts whatever
	// input it is given next, truncated or not
	decoder := map[*ssa.Function]bool{}
	for _, f := range fns {
		res := f.Signature.Results()
		if res.Len() == 2 && strings.HasSuffix(res.At(0).Type().String(), "schema.FileMetaData") && errIndex(f.Signature) == 1 {
			decoder[f] = true
		}
	}
	for changed := true; changed; {
		changed = false
		for _, f := range fns {
			ei := errIndex(f.Signature)
			if decoder[f] || ei < 0 {
				continue
			}
			var calls []ssa.Instruction
			for _, b := range f.Blocks {
				for _, ins := range b.Instrs {
					if call, ok := ins.(ssa.CallInstruction); ok {
						if sc := call.Common().StaticCallee(); sc != nil && decoder[sc] {
							calls = append(calls, ins)
						}
					}
				}
			}
			if len(calls) == 0 {
				continue
			}
			decoder[f] = true
			changed = true
			nDecode++
			key := u.FnName(f) + " decode-before-success"
			bad := ""
			for _, b := range f.Blocks {
				ret, ok := lastInstr(b).(*ssa.Return)
				if !ok {
					continue
				}
				e := ret.Results[ei]
				if !isNilConst(e) {
					if _, isPhi := e.(*ssa.Phi); !isPhi {
						continue // an error value (the callee's own, or a wrapped one)
					}
				}
				dom := false
				for _, d := range calls {
					if dominatesInstr(d, ret) {
						dom = true
					}
				}
				if !dom {
					bad = u.Pos(ret.Pos())
				}
			}
			if bad != "" {
				r.bad("FOOTER-DECODE", key, bad, "the function can report success at "+bad+" without having read and decoded a footer on that path: whatever input it was given (a truncated file) is accepted")
			} else {
				r.ok("FOOTER-DECODE", key, u.Pos(f.Pos()), "every success return follows the call that reads and decodes the footer")
			}
		}
	}
	r.count("FOOTER-DECODE", nDecode)
	r.floor("FOOTER-DECODE", 1, "ReadMetaData")
	// magic
	nMagic := 0
	for _, f := range fns {
		for _, b := range f.Blocks {
			iff, ok := lastInstr(b).(*ssa.If)
			if !ok {
				continue
			}
			bo, ok := iff.Cond.(*ssa.BinOp)
			if !ok || (bo.Op != token.EQL && bo.Op != token.NEQ) {
				continue
			}
			isMagic := func(v ssa.Value) bool {
				if k, ok := v.(*ssa.Const); ok {
					return k.Value != nil && k.Value.Kind() == constant.String && constant.StringVal(k.Value) == "PAR1"
				}
				// a constant byte-array variable holding the magic
				return symExpr(v, 0) == strconv.Quote("PAR1")
			}
			if !isMagic(bo.X) && !isMagic(bo.Y) {
				continue
			}
			nMagic++
			key := u.FnName(f) + " trailing magic"
			// mismatch side must return a non-nil error; match side must dominate every nil-error return
			mismatch, match := b.Succs[0], b.Succs[1]
			if bo.Op == token.EQL {
				mismatch, match = match, mismatch
			}
			ri := errIndex(f.Signature)
			okErr := false
			if ret, ok := lastInstr(mismatch).(*ssa.Return); ok && ri >= 0 && !isNilConst(ret.Results[ri]) {
				okErr = true
			}
			okDom := true
			for _, b2 := range f.Blocks {
				if ret, ok := lastInstr(b2).(*ssa.Return); ok && ri >= 0 && isNilConst(ret.Results[ri]) {
					if !(match == b2 || match.Dominates(b2)) {
						okDom = false
					}
				}
			}
			switch {
			case !okErr:
				r.bad("FOOTER-MAGIC", key, u.Pos(iff.Pos()), "a missing trailing magic does not make the function return an error")
			case !okDom:
				r.bad("FOOTER-MAGIC", key, u.Pos(iff.Pos()), "the function can succeed on a path that has not checked the trailing magic")
			default:
				r.ok("FOOTER-MAGIC", key, u.Pos(iff.Pos()), "input that does not end with PAR1 is refused before the footer length is used")
			}
		}
	}
	r.count("FOOTER-MAGIC", nMagic)
	footerRejects(c, fns)
	r.floor("FOOTER-MAGIC", 1, "getMetaDataSize")
}

// footerRejects (C16, C04, C01: a valid file is accepted): every error the footer path raises on its own (fmt.Errorf /
// errors.New, as opposed to passing on an I/O or decode error) is raised under a condition that no valid file meets:
// a failed read, a wrong magic, a non-positive footer length, or a footer length that provably does not fit between the
// leading magic and the 8-byte tail (4 + size + 8 > file length), decided as a difference bound on size − position.
func footerRejects(c *Ctx, fns []*ssa.Function) {
	r, u := c.R, c.U
	n := 0
	for _, f := range fns {
		ri := errIndex(f.Signature)
		if ri < 0 {
			continue
		}
		// the position the tail was found at: Seek(k, io.SeekEnd) -> file length + k
		seekK := map[ssa.Value]int64{}
		for _, b := range f.Blocks {
			for _, ins := range b.Instrs {
				if call, ok := ins.(*ssa.Call); ok && call.Call.IsInvoke() && call.Call.Method.Name() == "Seek" && len(call.Call.Args) == 2 && constIs(call.Call.Args[1], 2) {
					if k, ok := call.Call.Args[0].(*ssa.Const); ok && k.Value != nil {
						kv, _ := constant.Int64Val(k.Value)
						if ex := extractOf(call, 0); ex != nil {
							seekK[ex] = kv
						}
					}
				}
			}
		}
		// linear form: coefficient of the (single) seek position, coefficient of "size-like" atoms, constant
		type lf struct {
			pos   ssa.Value
			pc    int64
			atoms map[string]int64
			k     int64
			ok    bool
		}
		var lin func(v ssa.Value, d int) lf
		lin = func(v ssa.Value, d int) lf {
			v = stripConvert(v)
			out := lf{atoms: map[string]int64{}, ok: true}
			if d > 8 {
				out.ok = false
				return out
			}
			if _, isPos := seekK[v]; isPos {
				out.pos, out.pc = v, 1
				return out
			}
			switch x := v.(type) {
			case *ssa.Const:
				if x.Value != nil && x.Value.Kind() == constant.Int {
					out.k, _ = constant.Int64Val(x.Value)
					return out
				}
			case *ssa.BinOp:
				if x.Op == token.ADD || x.Op == token.SUB {
					a, b := lin(x.X, d+1), lin(x.Y, d+1)
					if a.ok && b.ok && !(a.pos != nil && b.pos != nil && a.pos != b.pos) {
						sg := int64(1)
						if x.Op == token.SUB {
							sg = -1
						}
						out.pos = a.pos
						if out.pos == nil {
							out.pos = b.pos
						}
						out.pc = a.pc + sg*b.pc
						out.k = a.k + sg*b.k
						for k2, c2 := range a.atoms {
							out.atoms[k2] += c2
						}
						for k2, c2 := range b.atoms {
							out.atoms[k2] += sg * c2
						}
						return out
					}
				}
			case *ssa.Call:
				if bi, ok := x.Call.Value.(*ssa.Builtin); ok && bi.Name() == "len" {
					if at, ok := x.Call.Args[0].Type().Underlying().(*types.Array); ok {
						out.k = at.Len()
						return out
					}
					if sl, ok := x.Call.Args[0].(*ssa.Slice); ok {
						if pt, ok := sl.X.Type().Underlying().(*types.Pointer); ok {
							if at, ok := pt.Elem().Underlying().(*types.Array); ok && sl.Low == nil && sl.High == nil {
								out.k = at.Len()
								return out
							}
						}
					}
				}
			}
			// an opaque integer: an atom
			out.atoms[symExpr(v, 0)] = 1
			return out
		}
		for _, b := range f.Blocks {
			ret, ok := lastInstr(b).(*ssa.Return)
			if !ok {
				continue
			}
			call, ok := ret.Results[ri].(*ssa.Call)
			if !ok || !freshError(call) {
				continue
			}
			n++
			r.count("FOOTER-REJECT", 1)
			key := fmt.Sprintf("%s rejection #%d", u.FnName(f), n)
			pos := u.Pos(ret.Pos())
			// the nearest deciding condition
			var cond ssa.Value
			truth := false
			for d := b; d != nil && cond == nil; d = d.Idom() {
				id := d.Idom()
				if id == nil {
					break
				}
				if iff, ok := lastInstr(id).(*ssa.If); ok && id.Succs[0] != id.Succs[1] {
					for si, t := range []bool{true, false} {
						sb := id.Succs[si]
						if len(sb.Preds) == 1 && (sb == b || sb.Dominates(b)) {
							cond, truth = iff.Cond, t
						}
					}
				}
			}
			if cond == nil {
				r.bad("FOOTER-REJECT", key, pos, "the footer path fails unconditionally")
				continue
			}
			if _, isErr := isErrNilTest(cond); isErr {
				r.ok("FOOTER-REJECT", key, pos, "raised after a failed read / seek / decode")
				continue
			}
			if strings.Contains(symExpr(cond, 0), "\"PAR1\"") {
				r.ok("FOOTER-REJECT", key, pos, "raised on a wrong magic")
				continue
			}
			bo, ok := cond.(*ssa.BinOp)
			if !ok {
				r.bad("FOOTER-REJECT", key, pos, "files are refused under "+symExpr(cond, 0)+", which is not a condition the checker can show to exclude every valid file")
				continue
			}
			// X - Y on the taken edge: lower bound lo (X - Y >= lo)
			a, bb := lin(bo.X, 0), lin(bo.Y, 0)
			op := bo.Op
			if !truth {
				op = map[token.Token]token.Token{token.LSS: token.GEQ, token.LEQ: token.GTR, token.GTR: token.LEQ, token.GEQ: token.LSS, token.EQL: token.NEQ, token.NEQ: token.EQL}[op]
			}
			// normalise to  E >= lo  or  E <= hi  with E = X - Y
			if !a.ok || !bb.ok || (a.pos != nil && bb.pos != nil && a.pos != bb.pos) {
				r.bad("FOOTER-REJECT", key, pos, "files are refused under "+symExpr(cond, 0)+", which is not a condition the checker can show to exclude every valid file")
				continue
			}
			e := lf{atoms: map[string]int64{}, pos: a.pos, pc: a.pc - bb.pc, k: a.k - bb.k, ok: true}
			if e.pos == nil {
				e.pos = bb.pos
			}
			for k2, c2 := range a.atoms {
				e.atoms[k2] += c2
			}
			for k2, c2 := range bb.atoms {
				e.atoms[k2] -= c2
			}
			var sizeCoef int64
			nAtoms := 0
			for _, c2 := range e.atoms {
				if c2 != 0 {
					nAtoms++
					sizeCoef = c2
				}
			}
			// flip so that the size atom has coefficient +1
			hasLo, lo := false, int64(0) // size*1 + pc*pos + k >= lo
			hasHi, hi := false, int64(0)
			switch op {
			case token.GEQ:
				hasLo, lo = true, 0
			case token.GTR:
				hasLo, lo = true, 1
			case token.LEQ:
				hasHi, hi = true, 0
			case token.LSS:
				hasHi, hi = true, -1
			case token.EQL:
				hasLo, hasHi = true, true
			}
			if nAtoms != 1 || (sizeCoef != 1 && sizeCoef != -1) {
				r.bad("FOOTER-REJECT", key, pos, "files are refused under "+symExpr(cond, 0)+", which is not a condition the checker can show to exclude every valid file")
				continue
			}
			if sizeCoef == -1 {
				e.pc, e.k = -e.pc, -e.k
				hasLo, hasHi, lo, hi = hasHi, hasLo, -hi, -lo
			}
			switch {
			case e.pc == 0:
				// size + k <= hi  with hi - k <= 0: refuses only non-positive lengths
				if hasHi && !hasLo && hi-e.k <= 0 {
					r.ok("FOOTER-REJECT", key, pos, "refuses only non-positive footer lengths")
				} else {
					r.bad("FOOTER-REJECT", key, pos, "files are refused when "+symExpr(cond, 0)+fmt.Sprintf(" is %v", truth)+": footer lengths of valid files are refused")
				}
			case e.pc == -1 && hasLo:
				// size - pos + k >= lo, pos = L + seekK: valid files have size <= L - 12 = pos - seekK - 12, i.e. size - pos <= -seekK - 12
				// the refusal must imply size - pos >= -seekK - 11
				bound := lo - e.k
				need := -seekK[e.pos] - 11
				if bound >= need {
					r.ok("FOOTER-REJECT", key, pos, "refuses only lengths that do not fit between the leading magic and the tail")
				} else {
					r.bad("FOOTER-REJECT", key, pos, fmt.Sprintf("files are refused when footer length − tail position ≥ %d, but a valid file can have up to %d (leading magic + footer + 8-byte tail = file length): e.g. a file without row groups, whose footer starts right behind the magic, is refused", bound, need-1))
				}
			default:
				r.bad("FOOTER-REJECT", key, pos, "files are refused under "+symExpr(cond, 0)+", which is not a condition the checker can show to exclude every valid file")
			}
		}
	}
	r.floor("FOOTER-REJECT", 1, "the magic test of getMetaDataSize")
}

// footerPathFns: runtime functions reachable from the footer-reading roots.
func footerPathFns(c *Ctx) []*ssa.Function {
	roots := sourceRoots(c)
	reach := c.U.reach(roots.footer)
	var fns []*ssa.Function
	for f := range reach {
		if c.U.pkgPathOf(f) == rtPath {
			fns = append(fns, f)
		}
	}
	sort.Slice(fns, func(i, j int) bool { return fns[i].String() < fns[j].String() })
	return fns
}

// calleeIsRowGroupReader: the call site's callee is the generated reader's row-group loader (it reaches the footer only
// through the constructor's own earlier call).
func calleeIsRowGroupReader(u *Universe, s *OpSite) bool {
	for _, cal := range u.Callees(s.Site) {
		for _, p := range u.TC {
			if cal == roleFunc(u, p, "readRowGroup") {
				return true
			}
		}
	}
	return false
}
