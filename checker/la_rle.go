package main

// C07 — necessary conditions for the RLE/bit-packed hybrid level streams
// (DESIGN.md §4 LA-runkind, LA-prefix, LA-order, BP).

import (
	"fmt"
	"go/constant"
	"go/token"
	"go/types"
	"sort"
	"strings"

	"golang.org/x/tools/go/ssa"
)

func init() {
	register("C07", "other", LoadOpts{SSA: true}, checkC07)
}

const bitpackPackName = "github.com/parsyl/parquet/internal/bitpack.Pack"
const bitpackUnpackName = "github.com/parsyl/parquet/internal/bitpack.Unpack"

func rleFuncs(u *Universe) []*ssa.Function {
	var out []*ssa.Function
	for _, f := range u.Funcs {
		if u.pkgPathOf(f) == rlePath && f.Synthetic == "" {
			out = append(out, f)
		}
	}
	return out
}

func checkC07(c *Ctx) {
	r := c.R
	r.Explanation = "Necessary structural conditions of C07, decided from the code of internal/rle, internal/bitpack and the level (de)serialisation call sites in fields.go: (LA-runkind) the encoder's bit-packed run header has LSB 1 and carries the group counter in the bits above it, its RLE run header has LSB 0, the decoder branches on header&1 to the matching reader (the one that reaches bitpack.Unpack only for LSB 1); the LEB128 writer emits 7 value bits per byte with the continuation bit set on all but the last byte and continues while any higher bit is set; the LEB128 reader accumulates the low 7 bits shifted by multiples of 7 and stops at the first byte without the continuation bit (so multi-byte headers, > 63 groups, decode); (LA-prefix) Bytes prefixes exactly int32(size) little-endian of the buffer whose bytes follow, Read reads an int32 little-endian, consumes that many bytes and reports length+4; (LA-order) writer and reader of a page agree on which level streams exist, their order and their bit widths; (BP) the bit-packed payload layout, shared with C17. NOT decided: the encoder's state machine (8-repeat switch, 63-group close, back-patching, padding) and the decoder's acceptance of every run segmentation — these need a relational invariant over all value sequences."
	bpCore(c)
	laRunKind(c)
	laLEB(c)
	laPrefix(c)
	laOrder(c, "LA-order")
	r.assume("encoder state machine (bufCount, repeatCount, groupCount, headerPointer) and padding are NOT decided here")
}

// --- LA-runkind ---

// varintWriters: the functions that RLE run headers are handed to (filled by laRunKind, checked by laLEB).
var varintWriters = map[*ssa.Function]bool{}

func reachesCallee(u *Universe, f *ssa.Function, full string) bool {
	for g := range u.reach([]*ssa.Function{f}) {
		for _, b := range g.Blocks {
			for _, ins := range b.Instrs {
				if call, ok := ins.(ssa.CallInstruction); ok && fullCalleeName(call.Common()) == full {
					return true
				}
			}
		}
	}
	return false
}

func laRunKind(c *Ctx) {
	laRunKindCore(c)
	laRLEThresholds(c)
	laRLEDecoder(c, map[string]bool{"accepts": true, "unpack-all": true})
	laRLERunValue(c)
	laBufGrowth(c)
	laNarrowIndex(c)
}

func laRunKindCore(c *Ctx) {
	r, u := c.R, c.U
	fns := rleFuncs(u)
	// encoder: the function that calls bitpack.Pack and the counter it increments
	var packFn *ssa.Function
	for _, f := range fns {
		if len(callsTo(f, bitpackPackName)) > 0 {
			packFn = f
		}
	}
	if packFn == nil {
		r.failf("LA-runkind: no function in internal/rle calls bitpack.Pack")
		return
	}
	// the group counter: the receiver field incremented in the function closest (in call distance) to the Pack call
	counters := incrementedFields(packFn)
	frontier := []*ssa.Function{packFn}
	for dist := 0; len(counters) == 0 && dist < 3; dist++ {
		var next []*ssa.Function
		for _, g := range frontier {
			for _, cs := range callersOf(g) {
				if u.pkgPathOf(cs.Parent()) == rlePath {
					next = append(next, cs.Parent())
				}
			}
		}
		for _, g := range next {
			counters = append(counters, incrementedFields(g)...)
		}
		if len(counters) > 0 {
			packFn = next[0]
		}
		frontier = next
	}
	if len(counters) != 1 {
		r.undecided("LA-runkind", "encoder group counter", u.Pos(packFn.Pos()), fmt.Sprintf("expected exactly one counter incremented next to bitpack.Pack, found %d", len(counters)))
		return
	}
	gc := counters[0]
	encReach := map[*ssa.Function]bool{}
	var roots []*ssa.Function
	for _, n := range []string{"RLE.Write", "RLE.Bytes"} {
		if f := u.Func(rlePath, n); f != nil {
			roots = append(roots, f)
		} else {
			r.failf("rle.%s not found", n)
		}
	}
	for f := range u.reach(roots) {
		encReach[f] = true
	}
	nBP, nRLE := 0, 0
	varintWriters = map[*ssa.Function]bool{}
	// Candidates are recognised by what they carry in the bits above the run-kind bit, not by their syntactic form:
	// a byte whose bits 1.. are the group counter is a bit-packed run header; an integer handed to a callee whose
	// bits 1.. are another counter field is an RLE run header.
	shiftedField := func(bv vec, env *bitEnv, n int) *types.Var {
		if bv == nil || len(bv) < n || bv[1].k != 2 {
			return nil
		}
		base := env.bases[bv[1].i]
		for i := 1; i < n; i++ {
			if bv[i] != (bit{k: 2, i: bv[1].i, b: i - 1}) {
				return nil
			}
		}
		return fieldOfLoad(base)
	}
	for _, f := range fns {
		if !encReach[f] {
			continue
		}
		for _, b := range f.Blocks {
			for _, ins := range b.Instrs {
				switch x := ins.(type) {
				case *ssa.Store:
					if w, _ := intWidth(x.Val.Type()); w != 8 {
						continue
					}
					env := &bitEnv{}
					bv := env.bits(x.Val, 0)
					if shiftedField(bv, env, 7) != gc {
						continue
					}
					nBP++
					key := fmt.Sprintf("%s bit-packed run header #%d", u.FnName(f), nBP)
					if bv[0] == (bit{k: 1}) {
						r.ok("LA-runkind", key, u.Pos(x.Pos()), "header byte = (groups << 1) | 1: LSB 1, group count in bits 1..")
					} else {
						r.bad("LA-runkind", key, u.Pos(x.Pos()), fmt.Sprintf("run-kind bit (LSB) of the bit-packed run header is %s, must be 1", bv[0]))
					}
				case *ssa.Call:
					sc := x.Call.StaticCallee()
					if sc == nil || !u.InUniverse(sc) {
						continue
					}
					for _, a := range x.Call.Args {
						if w, _ := intWidth(a.Type()); w < 16 {
							continue
						}
						env := &bitEnv{}
						bv := env.bits(a, 0)
						fld := shiftedField(bv, env, 16)
						if fld == nil || fld == gc {
							continue
						}
						nRLE++
						varintWriters[sc] = true
						key := fmt.Sprintf("%s RLE run header #%d", u.FnName(f), nRLE)
						if bv[0] == (bit{}) {
							r.ok("LA-runkind", key, u.Pos(x.Pos()), "header = count << 1: LSB 0 (count from "+fld.Name()+")")
						} else {
							r.bad("LA-runkind", key, u.Pos(x.Pos()), fmt.Sprintf("run-kind bit (LSB) of the RLE run header is %s, must be 0", bv[0]))
						}
					}
				}
			}
		}
	}
	// the bit-packed run header is a single byte: (groups << 1) | 1 must stay below 0x80, i.e. a run may hold at most
	// 63 groups. The function that adds a group must close the run when the counter has reached a bound K <= 63.
	{
		key := u.FnName(packFn) + " bit-packed run length bound"
		bound := int64(-1)
		var bpos string
		for _, b := range packFn.Blocks {
			iff, ok := lastInstr(b).(*ssa.If)
			if !ok {
				continue
			}
			bo, ok := iff.Cond.(*ssa.BinOp)
			if !ok || fieldOfLoad(bo.X) != gc {
				continue
			}
			k, ok := bo.Y.(*ssa.Const)
			if !ok || k.Value == nil {
				continue
			}
			v, _ := constant.Int64Val(k.Value)
			switch bo.Op {
			case token.GEQ, token.EQL:
				bound = v
			case token.GTR:
				bound = v + 1
			default:
				continue
			}
			bpos = u.Pos(iff.Pos())
			// the true side must close the run (reach a store of 0 to the counter) before the increment
			closes := false
			for g := range u.reach([]*ssa.Function{packFn}) {
				for _, b2 := range g.Blocks {
					for _, ins := range b2.Instrs {
						if st, ok := ins.(*ssa.Store); ok && fieldOf(st.Addr) == gc && constIs(st.Val, 0) {
							closes = true
						}
					}
				}
			}
			if !closes {
				bound = -1
			}
		}
		switch {
		case bound < 0:
			r.bad("LA-runkind", key, u.Pos(packFn.Pos()), "no test `groups >= K` that closes the current bit-packed run before another group is added: a run can grow beyond what its one-byte header can say")
		case bound > 63:
			r.bad("LA-runkind", key, bpos, fmt.Sprintf("a bit-packed run is closed only at %d groups, but its header is the single byte (groups<<1)|1: from 64 groups on bit 7 (the varint continuation bit) is set and the stream is mis-parsed", bound))
		default:
			r.ok("LA-runkind", key, bpos, fmt.Sprintf("a run is closed at %d groups (<= 63): the header (groups<<1)|1 fits one varint byte", bound))
		}
	}
	r.count("LA-runkind/bit-packed-headers", nBP)
	r.count("LA-runkind/rle-headers", nRLE)
	r.floor("LA-runkind/bit-packed-headers", 1, "endPreviousBitPackedRun")
	r.floor("LA-runkind/rle-headers", 1, "writeRLERun")

	// decoder: If on (h & 1) == 0 dispatching to a reader that reaches bitpack.Unpack only on the LSB-1 side
	nDec := 0
	for _, f := range fns {
		for _, b := range f.Blocks {
			iff, ok := lastInstr(b).(*ssa.If)
			if !ok {
				continue
			}
			bo, ok := iff.Cond.(*ssa.BinOp)
			if !ok || (bo.Op != token.EQL && bo.Op != token.NEQ) {
				continue
			}
			and, ok := bo.X.(*ssa.BinOp)
			if !ok || and.Op != token.AND || !(constIs(bo.Y, 0) || constIs(bo.Y, 1)) {
				continue
			}
			env := &bitEnv{}
			bv := env.bits(and, 0)
			if bv == nil || bv[0].k != 2 || bv[0].b != 0 {
				continue
			}
			only := true
			for i := 1; i < len(bv); i++ {
				if bv[i] != (bit{}) {
					only = false
				}
			}
			if !only {
				continue
			}
			h := env.bases[bv[0].i]
			// successors: zero side / one side
			zero, one := b.Succs[0], b.Succs[1]
			if (bo.Op == token.NEQ) != constIs(bo.Y, 1) {
				zero, one = one, zero
			}
			sideCalls := func(start *ssa.BasicBlock) (unpack, other bool, takesH bool) {
				for _, blk := range f.Blocks {
					if blk != start && !start.Dominates(blk) {
						continue
					}
					for _, ins := range blk.Instrs {
						// the header is what this side works from: handed to the run reader, or (decoder written inline)
						// shifted / converted here
						for _, op := range ins.Operands(nil) {
							if op != nil && *op != nil && (*op == h || stripConvert(*op) == h) {
								if _, isIf := ins.(*ssa.If); !isIf {
									takesH = true
								}
							}
						}
						call, ok := ins.(*ssa.Call)
						if !ok {
							continue
						}
						sc := call.Call.StaticCallee()
						if sc == nil || !u.InUniverse(sc) {
							continue
						}
						if sc.String() == bitpackUnpackName || reachesCallee(u, sc, bitpackUnpackName) {
							unpack = true
						} else {
							other = true
						}
					}
				}
				return
			}
			zu, zo, zh := sideCalls(zero)
			ou, oo, oh := sideCalls(one)
			if !(zu || zo || ou || oo) {
				continue
			}
			nDec++
			key := u.FnName(f) + " run-kind dispatch"
			pos := u.Pos(iff.Pos())
			switch {
			case zu:
				r.bad("LA-runkind", key, pos, "headers with LSB 0 (RLE runs) are decoded by the bit-packed reader")
			case !ou:
				r.bad("LA-runkind", key, pos, "headers with LSB 1 (bit-packed runs) are not decoded by a reader that unpacks groups")
			case !zo || oo:
				r.bad("LA-runkind", key, pos, "the two sides of the run-kind test do not call distinct readers")
			case !zh || !oh:
				r.bad("LA-runkind", key, pos, "a side of the run-kind test does not work from the header it was selected by")
			default:
				r.ok("LA-runkind", key, pos, "header&1 == 0 -> RLE reader, == 1 -> bit-packed reader (reaches bitpack.Unpack), both receive the header")
			}
		}
	}
	r.count("LA-runkind/decoder-dispatch", nDec)
	r.floor("LA-runkind/decoder-dispatch", 1, "RLE.Read")
}

// --- LEB128 ---

func laLEB(c *Ctx) {
	r, u := c.R, c.U
	fns := rleFuncs(u)
	nEnc, nDec := 0, 0
	matched := map[*ssa.Function]bool{}
	defer func() {
		for f := range varintWriters {
			if !matched[f] {
				r.bad("LA-leb128", u.FnName(f)+" varint writer", u.Pos(f.Pos()), "the function that encodes RLE run headers is not a LEB128 loop (7 value bits per byte while the value is >= 128): long runs get a malformed header")
			}
		}
	}()
	for _, f := range fns {
		// writer: a loop that appends single bytes built from an integer parameter
		if len(f.Params) >= 1 {
			var valPhi *ssa.Phi
			for _, b := range f.Blocks {
				for _, ins := range b.Instrs {
					if phi, ok := ins.(*ssa.Phi); ok {
						for _, e := range phi.Edges {
							if p, ok := e.(*ssa.Parameter); ok {
								if w, _ := intWidth(p.Type()); w > 0 {
									valPhi = phi
								}
							}
						}
					}
				}
			}
			if valPhi != nil && returnsByteSlice(f) {
				nEnc++
				matched[f] = true
				checkLEBWriter(c, f, valPhi)
			}
		}
		// reader: a variable shift (x & m) << shift accumulated with |
		for _, b := range f.Blocks {
			for _, ins := range b.Instrs {
				sh, ok := ins.(*ssa.BinOp)
				if !ok || sh.Op != token.SHL {
					continue
				}
				if _, isConst := sh.Y.(*ssa.Const); isConst {
					continue
				}
				nDec++
				checkLEBReader(c, f, sh)
			}
		}
	}
	r.count("LA-leb128/writers", nEnc)
	r.count("LA-leb128/readers", nDec)
	r.floor("LA-leb128/writers", 1, "RLE.leb128")
	r.floor("LA-leb128/readers", 1, "readLEB128")
	_ = u
}

func returnsByteSlice(f *ssa.Function) bool {
	res := f.Signature.Results()
	if res.Len() != 1 {
		return false
	}
	sl, ok := res.At(0).Type().Underlying().(*types.Slice)
	return ok && types.Identical(sl.Elem(), types.Typ[types.Byte])
}

func checkLEBWriter(c *Ctx, f *ssa.Function, V *ssa.Phi) {
	r, u := c.R, c.U
	key := u.FnName(f) + " varint writer"
	pos := u.Pos(f.Pos())
	env := &bitEnv{}
	vid := env.base(V)
	// appended bytes
	type app struct {
		b      vec
		inLoop bool
		pos    string
	}
	var apps []app
	type appBlk struct {
		blk  *ssa.BasicBlock
		cont bool
	}
	var appBlocks []appBlk
	for _, b := range f.Blocks {
		for _, ins := range b.Instrs {
			st, ok := ins.(*ssa.Store)
			if !ok {
				continue
			}
			ia, ok := st.Addr.(*ssa.IndexAddr)
			if !ok {
				continue
			}
			if _, ok := ia.X.(*ssa.Alloc); !ok {
				continue
			}
			if w, _ := intWidth(st.Val.Type()); w != 8 {
				continue
			}
			inLoop := false
			for _, s := range reachableBlocks(b) {
				if s == b {
					inLoop = true
				}
			}
			apps = append(apps, app{env.bits(st.Val, 0), inLoop, u.Pos(st.Pos())})
			if bv := env.bits(st.Val, 0); bv != nil {
				appBlocks = append(appBlocks, appBlk{b, bv[7] == (bit{k: 1})})
			}
		}
	}
	var bad []string
	cont, last := 0, 0
	for _, a := range apps {
		for i := 0; i < 7; i++ {
			if a.b[i] != (bit{k: 2, i: vid, b: i}) {
				bad = append(bad, fmt.Sprintf("byte appended at %s: bit %d is %s, must be value bit %d", a.pos, i, a.b[i], i))
			}
		}
		switch {
		case a.inLoop && a.b[7] == (bit{k: 1}):
			cont++
		case !a.inLoop && a.b[7] == (bit{}):
			last++
		default:
			bad = append(bad, fmt.Sprintf("byte appended at %s: continuation bit is %s (in loop: %v)", a.pos, a.b[7], a.inLoop))
		}
	}
	if cont != 1 || last != 1 {
		bad = append(bad, fmt.Sprintf("expected one continuation byte in the loop and one final byte, found %d and %d", cont, last))
	}
	// loop update: value >>= 7
	okShift := false
	for _, e := range V.Edges {
		if _, isParam := e.(*ssa.Parameter); isParam {
			continue
		}
		bv := env.bits(e, 0)
		okShift = bv != nil
		for i := 0; okShift && i < 50; i++ {
			if bv[i] != (bit{k: 2, i: vid, b: i + 7}) {
				okShift = false
			}
		}
	}
	if !okShift {
		bad = append(bad, "the value is not advanced by exactly 7 bits per emitted byte")
	}
	// loop condition: continues while any bit >= 7 (at least up to bit 31) is set
	okCond := false
	for _, b := range f.Blocks {
		iff, ok := lastInstr(b).(*ssa.If)
		if !ok {
			continue
		}
		bo, ok := iff.Cond.(*ssa.BinOp)
		if !ok || (bo.Op != token.NEQ && bo.Op != token.EQL) || !constIs(bo.Y, 0) {
			continue
		}
		bv := env.bits(bo.X, 0)
		if bv == nil {
			continue
		}
		// the edge taken while high bits remain leads to the continuation byte, the other one to the final byte
		more, done := b.Succs[0], b.Succs[1]
		if bo.Op == token.EQL {
			more, done = done, more
		}
		good := true
		for _, a := range appBlocks {
			inMore := a.blk == more || more.Dominates(a.blk)
			inDone := a.blk == done || done.Dominates(a.blk)
			if a.cont && (!inMore || inDone && !inMore) {
				good = false
			}
			if !a.cont && inMore && !inDone && len(more.Preds) == 1 {
				good = false
			}
		}
		for i := 0; i < len(bv); i++ {
			switch {
			case i < 7 && bv[i] != (bit{}):
				good = false
			case i >= 7 && i < 32 && bv[i] != (bit{k: 2, i: vid, b: i}):
				good = false
			}
		}
		if good {
			okCond = true
		}
	}
	if !okCond {
		bad = append(bad, "the loop does not continue exactly while a bit above the low 7 is set")
	}
	if len(bad) > 0 {
		r.bad("LA-leb128", key, pos, strings.Join(bad, "; "))
	} else {
		r.ok("LA-leb128", key, pos, "7 value bits per byte, continuation bit on all but the last byte, loop while value >= 128 (multi-byte run headers)")
	}
}

func reachableBlocks(b *ssa.BasicBlock) []*ssa.BasicBlock {
	seen := map[*ssa.BasicBlock]bool{}
	var out []*ssa.BasicBlock
	var visit func(x *ssa.BasicBlock)
	visit = func(x *ssa.BasicBlock) {
		if seen[x] {
			return
		}
		seen[x] = true
		out = append(out, x)
		for _, s := range x.Succs {
			visit(s)
		}
	}
	for _, s := range b.Succs {
		visit(s)
	}
	return out
}

func checkLEBReader(c *Ctx, f *ssa.Function, sh *ssa.BinOp) {
	r, u := c.R, c.U
	key := u.FnName(f) + " varint reader"
	pos := u.Pos(sh.Pos())
	env := &bitEnv{}
	var bad []string
	// payload: low 7 bits of one byte value
	pv := env.bits(sh.X, 0)
	var x ssa.Value
	if pv == nil || pv[0].k != 2 {
		bad = append(bad, "shifted payload is not a masked input byte")
	} else {
		x = env.bases[pv[0].i]
		for i := 0; i < len(pv); i++ {
			want := bit{}
			if i < 7 {
				want = bit{k: 2, i: pv[0].i, b: i}
			}
			if pv[i] != want {
				bad = append(bad, fmt.Sprintf("payload bit %d is %s, want %s (low 7 bits of the byte only)", i, pv[i], want))
				break
			}
		}
	}
	// shift amount: phi {0, shift+7}
	okShift := false
	if phi, ok := sh.Y.(*ssa.Phi); ok {
		zero, plus7 := false, false
		for _, e := range phi.Edges {
			if constIs(e, 0) {
				zero = true
			} else if bo, ok := e.(*ssa.BinOp); ok && bo.Op == token.ADD && bo.X == ssa.Value(phi) && constIs(bo.Y, 7) {
				plus7 = true
			} else {
				zero = false
				plus7 = false
				break
			}
		}
		okShift = zero && plus7
	}
	if !okShift {
		bad = append(bad, "shift does not start at 0 and grow by 7 per byte")
	}
	// accumulated with OR into the result
	acc := false
	for _, ref := range *sh.Referrers() {
		if bo, ok := ref.(*ssa.BinOp); ok && bo.Op == token.OR {
			acc = true
		}
	}
	if !acc {
		bad = append(bad, "shifted payload is not OR-ed into the result")
	}
	// termination: returns when (x & m) == 0 with m = continuation bit only
	okStop := false
	for _, b := range f.Blocks {
		iff, ok := lastInstr(b).(*ssa.If)
		if !ok {
			continue
		}
		bo, ok := iff.Cond.(*ssa.BinOp)
		if !ok || (bo.Op != token.EQL && bo.Op != token.NEQ) || !constIs(bo.Y, 0) {
			continue
		}
		bv := env.bits(bo.X, 0)
		if bv == nil || x == nil {
			continue
		}
		only := bv[7].k == 2 && env.bases[bv[7].i] == x && bv[7].b == 7
		for i := range bv {
			if i != 7 && bv[i] != (bit{}) {
				only = false
			}
		}
		if !only {
			continue
		}
		stop := b.Succs[0]
		if bo.Op == token.NEQ {
			stop = b.Succs[1]
		}
		if _, isRet := lastInstr(stop).(*ssa.Return); isRet {
			okStop = true
		}
	}
	if !okStop {
		bad = append(bad, "does not stop exactly at the first byte whose continuation bit (bit 7) is clear")
	}
	if len(bad) > 0 {
		r.bad("LA-leb128", key, pos, strings.Join(bad, "; "))
	} else {
		r.ok("LA-leb128", key, pos, "result |= (byte & 0x7f) << shift, shift += 7, stop at the first byte without bit 7")
	}
}

// --- LA-prefix ---

func laPrefix(c *Ctx) {
	r, u := c.R, c.U
	enc := u.Func(rlePath, "RLE.Bytes")
	dec := u.Func(rlePath, "RLE.Read")
	if enc == nil || dec == nil {
		r.failf("rle.RLE.Bytes / Read not found")
		return
	}
	// writer side
	var ws []*ssa.Call
	for g := range u.reach([]*ssa.Function{enc}) {
		if u.pkgPathOf(g) == rlePath {
			ws = append(ws, callsTo(g, "encoding/binary.Write")...)
		}
	}
	key := "rle.(*RLE).Bytes length prefix"
	var wType types.Type
	var wOrder string
	if len(ws) != 1 {
		r.undecided("LA-prefix", key, u.Pos(enc.Pos()), fmt.Sprintf("expected one binary.Write of the prefix, found %d", len(ws)))
	} else {
		w := ws[0]
		wOrder = symExpr(w.Call.Args[1], 0)
		val := w.Call.Args[2]
		if mi, ok := val.(*ssa.MakeInterface); ok {
			val = mi.X
		}
		wType = val.Type()
		sizeExpr := symExpr(val, 0)
		// what is appended after the prefix
		var tail string
		for _, b := range enc.Blocks {
			if ret, ok := lastInstr(b).(*ssa.Return); ok {
				if call, ok := ret.Results[0].(*ssa.Call); ok {
					if bi, ok := call.Call.Value.(*ssa.Builtin); ok && bi.Name() == "append" && len(call.Call.Args) == 2 {
						tail = symExpr(call.Call.Args[1], 0)
					}
				}
			}
		}
		// sizeExpr: int32((*writeBuffer).size(BUF)); tail: (*writeBuffer).bytes(BUF)
		bufOf := func(s, method string) string {
			i := strings.Index(s, method+"(")
			if i < 0 {
				return ""
			}
			rest := s[i+len(method)+1:]
			depth := 1
			for j, ch := range rest {
				if ch == '(' {
					depth++
				} else if ch == ')' {
					depth--
					if depth == 0 {
						return rest[:j]
					}
				}
			}
			return ""
		}
		sb, tb := bufOf(sizeExpr, ".size"), bufOf(tail, ".bytes")
		pos := u.Pos(w.Pos())
		// with the buffer helpers printed through: prefix = T(N), payload = data[:N] for the same N
		n := sizeExpr
		if i := strings.Index(n, "("); i >= 0 && strings.HasSuffix(n, ")") && !strings.Contains(n[:i], ".") {
			n = n[i+1 : len(n)-1]
		}
		switch {
		case n == "builtin len("+tail+")":
			r.ok("LA-prefix", key, pos, "prefix = "+types.TypeString(wType, nil)+"(len(payload)) of the very bytes that follow")
		case strings.HasSuffix(tail, "[nil:"+n+"]") || strings.HasSuffix(tail, "[0:"+n+"]"):
			r.ok("LA-prefix", key, pos, "prefix = "+types.TypeString(wType, nil)+"(n), followed by data[:n] for the same n = "+n)
		case sb == "" || tb == "":
			// fall back: both must mention the same loaded buffer field
			r.undecided("LA-prefix", key, pos, "prefix value "+sizeExpr+" / payload "+tail+" not of the form size(buf) / bytes(buf)")
		case sb != tb:
			r.bad("LA-prefix", key, pos, "the length prefix is the size of "+sb+" but the bytes that follow are those of "+tb)
		default:
			// size() and bytes() of the buffer must agree: bytes returns d[:i], size returns i
			if !sizeMatchesBytes(u) {
				r.bad("LA-prefix", key, pos, "writeBuffer.size() is not the length of writeBuffer.bytes()")
			} else {
				r.ok("LA-prefix", key, pos, "prefix = "+types.TypeString(wType, nil)+"(size(buf)), followed by bytes(buf) of the same buffer; size() = len(bytes())")
			}
		}
	}
	// reader side
	rs := callsTo(dec, "encoding/binary.Read")
	key = "rle.(*RLE).Read length prefix"
	if len(rs) != 1 {
		r.undecided("LA-prefix", key, u.Pos(dec.Pos()), fmt.Sprintf("expected one binary.Read of the prefix, found %d", len(rs)))
		return
	}
	rd := rs[0]
	pos := u.Pos(rd.Pos())
	dst := rd.Call.Args[2]
	if mi, ok := dst.(*ssa.MakeInterface); ok {
		dst = mi.X
	}
	cell, ok := dst.(*ssa.Alloc)
	if !ok {
		r.undecided("LA-prefix", key, pos, "prefix is not read into a local variable")
		return
	}
	rType := cell.Type().(*types.Pointer).Elem()
	var bad []string
	if wType != nil && !types.Identical(rType, wType) {
		bad = append(bad, fmt.Sprintf("prefix is written as %s but read as %s", wType, rType))
	}
	if wOrder != "" && symExpr(rd.Call.Args[1], 0) != wOrder {
		bad = append(bad, "prefix byte order differs between Bytes and Read")
	}
	// buffer of exactly `length` bytes is consumed; the function reports length + sizeof(prefix)
	isLen := func(v ssa.Value) bool {
		for i := 0; i < 3; i++ {
			if cv, ok := v.(*ssa.Convert); ok {
				v = cv.X
				continue
			}
			break
		}
		ld, ok := v.(*ssa.UnOp)
		return ok && ld.Op == token.MUL && ld.X == ssa.Value(cell)
	}
	okAlloc := false
	for _, b := range dec.Blocks {
		for _, ins := range b.Instrs {
			if ms, ok := ins.(*ssa.MakeSlice); ok && isLen(ms.Len) {
				// consumed by a Read on the input
				for _, ref := range *ms.Referrers() {
					if call, ok := ref.(*ssa.Call); ok && call.Call.IsInvoke() && call.Call.Method.Name() == "Read" {
						okAlloc = true
					}
					if call, ok := ref.(*ssa.Call); ok && fullCalleeName(&call.Call) == "io.ReadFull" {
						okAlloc = true
					}
				}
			}
		}
	}
	// ... or by a helper of the package that is handed the length and reads into a slice of that size
	readsInto := func(ms *ssa.MakeSlice) bool {
		for _, ref := range *ms.Referrers() {
			if call, ok := ref.(*ssa.Call); ok && call.Call.IsInvoke() && call.Call.Method.Name() == "Read" {
				return true
			}
			if call, ok := ref.(*ssa.Call); ok && fullCalleeName(&call.Call) == "io.ReadFull" {
				return true
			}
		}
		return false
	}
	for _, b := range dec.Blocks {
		for _, ins := range b.Instrs {
			call, ok := ins.(*ssa.Call)
			if !ok {
				continue
			}
			sc := call.Call.StaticCallee()
			if sc == nil || sc.Blocks == nil || u.pkgPathOf(sc) != rlePath {
				continue
			}
			for i, a := range call.Call.Args {
				if !isLen(a) || i >= len(sc.Params) {
					continue
				}
				for _, b2 := range sc.Blocks {
					for _, i2 := range b2.Instrs {
						if ms, ok := i2.(*ssa.MakeSlice); ok && stripConvert(ms.Len) == ssa.Value(sc.Params[i]) && readsInto(ms) {
							okAlloc = true
						}
					}
				}
			}
		}
	}
	if !okAlloc {
		bad = append(bad, "the decoder does not consume exactly `length` bytes after the prefix")
	}
	okRet := false
	size := sizeofBasic(rType)
	for _, b := range dec.Blocks {
		if ret, ok := lastInstr(b).(*ssa.Return); ok && len(ret.Results) == 3 && isNilConst(ret.Results[2]) {
			if bo, ok := ret.Results[1].(*ssa.BinOp); ok && bo.Op == token.ADD && isLen(bo.X) && constIs(bo.Y, int64(size)) {
				okRet = true
			}
		}
	}
	if !okRet {
		bad = append(bad, fmt.Sprintf("the decoder does not report length + %d consumed bytes", size))
	}
	if len(bad) > 0 {
		r.bad("LA-prefix", key, pos, strings.Join(bad, "; "))
	} else {
		r.ok("LA-prefix", key, pos, fmt.Sprintf("reads a little-endian %s, consumes that many bytes, reports length + %d", rType, size))
	}
}

// sizeMatchesBytes: (*writeBuffer).bytes returns d[:i] and size returns i for the same field i.
func sizeMatchesBytes(u *Universe) bool {
	sz := u.Func(rlePath, "writeBuffer.size")
	by := u.Func(rlePath, "writeBuffer.bytes")
	if sz == nil || by == nil {
		return false
	}
	var szF, byF *types.Var
	for _, b := range sz.Blocks {
		if ret, ok := lastInstr(b).(*ssa.Return); ok {
			szF = fieldOfLoad(ret.Results[0])
		}
	}
	for _, b := range by.Blocks {
		if ret, ok := lastInstr(b).(*ssa.Return); ok {
			if sl, ok := ret.Results[0].(*ssa.Slice); ok && sl.Low == nil && sl.High != nil {
				byF = fieldOfLoad(sl.High)
			}
		}
	}
	return szF != nil && szF == byF
}

// --- LA-order: level streams of a page: presence, order and widths agree between writer and reader ---

type levelSite struct {
	guards []string
	level  string // Reps / Defs
	width  string
	pos    string
	order  int
	wv     ssa.Value // the width argument
}

// minimalWidth: v is bits.Len*(max) of a maximum-level field (through integer conversions and pure one-expression
// helpers) — the width the format prescribes: the smallest number of bits that holds the column's maximum level.
// Returns the field whose bit length is taken.
func minimalWidth(u *Universe, v ssa.Value, bind map[*ssa.Parameter]ssa.Value, depth int) *types.Var {
	if depth > 8 {
		return nil
	}
	switch x := v.(type) {
	case *ssa.Convert:
		return minimalWidth(u, x.X, bind, depth+1)
	case *ssa.ChangeType:
		return minimalWidth(u, x.X, bind, depth+1)
	case *ssa.Parameter:
		if b, ok := bind[x]; ok {
			return minimalWidth(u, b, nil, depth+1)
		}
	case *ssa.BinOp:
		// N - bits.LeadingZerosN(max)
		if x.Op == token.SUB {
			if k, ok := x.X.(*ssa.Const); ok && k.Value != nil {
				if call, ok := stripConvert(x.Y).(*ssa.Call); ok {
					if sc := call.Call.StaticCallee(); sc != nil && sc.Pkg != nil && sc.Pkg.Pkg.Path() == "math/bits" && strings.HasPrefix(sc.Name(), "LeadingZeros") {
						n, _ := constant.Int64Val(k.Value)
						arg := call.Call.Args[0]
						if w, _ := intWidth(arg.Type()); int64(w) == n || (w == 0 && n == 64) {
							return widthOperand(u, arg, bind, depth+1)
						}
					}
				}
			}
		}
	case *ssa.Call:
		sc := x.Call.StaticCallee()
		if sc == nil {
			return nil
		}
		if sc.Pkg != nil && sc.Pkg.Pkg.Path() == "math/bits" && strings.HasPrefix(sc.Name(), "Len") {
			return widthOperand(u, x.Call.Args[0], bind, depth+1)
		}
		if u.InUniverse(sc) && len(sc.Blocks) == 1 && sc.Signature.Results().Len() == 1 && pureBlock(sc.Blocks[0]) {
			if ret, ok := sc.Blocks[0].Instrs[len(sc.Blocks[0].Instrs)-1].(*ssa.Return); ok {
				nb := map[*ssa.Parameter]ssa.Value{}
				for i, a := range callArgs(&x.Call) {
					if i < len(sc.Params) {
						if p, isP := a.(*ssa.Parameter); isP && bind[p] != nil {
							a = bind[p]
						}
						nb[sc.Params[i]] = a
					}
				}
				return minimalWidth(u, ret.Results[0], nb, depth+1)
			}
		}
	}
	return nil
}

// widthOperand: the operand of the bit-length computation is a load of a struct field, through widening conversions only.
func widthOperand(u *Universe, v ssa.Value, bind map[*ssa.Parameter]ssa.Value, depth int) *types.Var {
	for depth < 12 {
		depth++
		switch x := v.(type) {
		case *ssa.Convert:
			// a narrowing conversion would drop high bits of the maximum
			wf, _ := intWidth(x.X.Type())
			wt, _ := intWidth(x.Type())
			if wf == 0 {
				wf = 64
			}
			if wt == 0 {
				wt = 64
			}
			if wt < wf {
				return nil
			}
			v = x.X
			continue
		case *ssa.ChangeType:
			v = x.X
			continue
		case *ssa.Parameter:
			if b, ok := bind[x]; ok {
				v, bind = b, nil
				continue
			}
			return nil
		}
		return fieldOfLoad(v)
	}
	return nil
}

func laOrder(c *Ctx, rule string) {
	r, u := c.R, c.U
	// level writer / reader helpers of the runtime: functions that call (*RLE).Bytes / (*RLE).Read
	var lw, lr *ssa.Function
	for _, f := range u.Funcs {
		if u.pkgPathOf(f) != rtPath || f.Synthetic != "" {
			continue
		}
		if len(callsTo(f, "(*"+rlePath+".RLE).Bytes")) > 0 {
			lw = f
		}
		if len(callsTo(f, "(*"+rlePath+".RLE).Read")) > 0 {
			lr = f
		}
	}
	if lw == nil || lr == nil {
		r.failf("%s: level writer/reader helpers (callers of rle.RLE.Bytes / Read) not found in the runtime", rule)
		return
	}
	// width parameter position: the parameter handed to rle.New
	widthParam := func(f *ssa.Function) int {
		for _, call := range callsTo(f, rlePath+".New") {
			for i, p := range f.Params {
				if call.Call.Args[0] == ssa.Value(p) {
					return i
				}
			}
		}
		return -1
	}
	wi, ri := widthParam(lw), widthParam(lr)
	if wi < 0 || ri < 0 {
		r.undecided(rule, "level helpers", u.Pos(lw.Pos()), "the bit width handed to rle.New is not a parameter of the level helper")
		return
	}
	// The level streams of a page, in execution order, looking through helpers: starting from the function that is not
	// itself called by another function with level streams, calls into helpers that contain level streams are walked
	// in place (guards accumulate along the way).
	collect := func(helper *ssa.Function, widx int, writer bool) (root *ssa.Function, sites []levelSite, nroots int) {
		memo := map[*ssa.Function]int{}
		var has func(f *ssa.Function) bool
		has = func(f *ssa.Function) bool {
			if f == nil || f.Blocks == nil || f.Synthetic != "" || u.pkgPathOf(f) != rtPath || f == helper {
				return false
			}
			if v, ok := memo[f]; ok {
				return v == 1
			}
			memo[f] = 0
			res := false
			for _, b := range f.Blocks {
				for _, ins := range b.Instrs {
					if call, ok := ins.(*ssa.Call); ok {
						sc := call.Call.StaticCallee()
						if sc == helper || has(sc) {
							res = true
						}
					}
				}
			}
			if res {
				memo[f] = 1
			}
			return res
		}
		var roots []*ssa.Function
		for _, f := range u.Funcs {
			if f.Synthetic != "" || !has(f) {
				continue
			}
			calledByOther := false
			for _, cs := range callersOf(f) {
				if has(cs.Parent()) {
					calledByOther = true
				}
			}
			if !calledByOther {
				roots = append(roots, f)
			}
		}
		nroots = len(roots)
		if nroots != 1 {
			return nil, nil, nroots
		}
		root = roots[0]
		var walk func(f *ssa.Function, inherited []string, depth int)
		walk = func(f *ssa.Function, inherited []string, depth int) {
			if depth > 4 {
				return
			}
			for _, b := range f.Blocks {
				for _, ins := range b.Instrs {
					call, ok := ins.(*ssa.Call)
					if !ok {
						continue
					}
					sc := call.Call.StaticCallee()
					g := append(append([]string{}, inherited...), guardConds(b)...)
					sort.Strings(g)
					switch {
					case sc == helper:
						ls := levelSite{guards: g, width: symExpr(call.Call.Args[widx], 0), pos: u.Pos(call.Pos()), order: len(sites) + 1, wv: call.Call.Args[widx]}
						if writer {
							for _, a := range call.Call.Args {
								if f2 := fieldOfLoad(a); f2 != nil {
									if _, isSl := f2.Type().Underlying().(*types.Slice); isSl {
										ls.level = f2.Name()
									}
								}
							}
						} else {
							for _, name := range []string{"Reps", "Defs"} {
								if flowsToField(call, name, 0) {
									ls.level = name
								}
							}
						}
						sites = append(sites, ls)
					case has(sc):
						walk(sc, g, depth+1)
					}
				}
			}
		}
		walk(root, nil, 0)
		return
	}
	wf, wl, nw := collect(lw, wi, true)
	rf, rl, nr := collect(lr, ri, false)
	if nw != 1 || nr != 1 {
		r.undecided(rule, "page writers/readers", "", fmt.Sprintf("expected one page writer and one page reader with level streams, found %d and %d", nw, nr))
		return
	}
	r.count(rule+"/level-sites", len(wl)+len(rl))
	key := u.FnName(wf) + " vs " + u.FnName(rf)
	if len(wl) != len(rl) {
		r.bad(rule, key+" streams", wl[0].pos, fmt.Sprintf("writer emits %d level streams per page, reader decodes %d", len(wl), len(rl)))
		return
	}
	for i := range wl {
		w, rd := wl[i], rl[i]
		k := fmt.Sprintf("%s stream %d", key, i+1)
		var bad []string
		if w.level != rd.level || w.level == "" {
			bad = append(bad, fmt.Sprintf("writer's stream %d carries %q, reader stores it into %q", i+1, w.level, rd.level))
		}
		if w.width != rd.width {
			bad = append(bad, fmt.Sprintf("bit width differs: writer %s, reader %s", w.width, rd.width))
		}
		// guards: the reader is inside loops/other guards; compare only guards on receiver fields
		wg, rg := onlyRecvGuards(w.guards), onlyRecvGuards(rd.guards)
		if strings.Join(wg, ";") != strings.Join(rg, ";") {
			bad = append(bad, fmt.Sprintf("presence condition differs: writer %v, reader %v", wg, rg))
		}
		if len(bad) > 0 {
			r.bad(rule, k, w.pos, strings.Join(bad, "; "))
		} else {
			r.ok(rule, k, w.pos, fmt.Sprintf("%s under %v, width %s on both sides (reader at %s)", w.level, wg, w.width, rd.pos))
		}
	}
	// LA-width: each side's width is the minimal bit width of that stream's maximum level — the width every other
	// implementation derives from the schema (a writer and reader that agree on a wider width still round-trip)
	for _, side := range []struct {
		name  string
		sites []levelSite
	}{{"writer", wl}, {"reader", rl}} {
		for i, ls := range side.sites {
			k := fmt.Sprintf("%s %s stream %d width", key, side.name, i+1)
			r.count(rule+"/widths", 1)
			fld := minimalWidth(u, ls.wv, nil, 0)
			want := strings.TrimSuffix(ls.level, "s") // Defs -> Def, Reps -> Rep
			switch {
			case fld == nil:
				r.bad(rule, k, ls.pos, "the bit width of the "+ls.level+" stream is "+ls.width+", not bits.Len(maximum level): the Parquet format fixes the width of a level stream to the minimal number of bits holding the column's maximum level, which is what a reader that knows only the schema uses")
			case fld.Name() != want:
				r.bad(rule, k, ls.pos, fmt.Sprintf("the bit width of the %s stream is taken from %s, want the maximum %s level", ls.level, fld.Name(), want))
			default:
				r.ok(rule, k, ls.pos, "width = bits.Len("+fld.Name()+")")
			}
		}
	}
	r.floor(rule+"/widths", 4, "2 writer + 2 reader level streams")
	r.floor(rule+"/level-sites", 2, "2 writeLevels in OptionalField.DoWrite, 2 readLevels in OptionalField.DoRead")
}

func onlyRecvGuards(gs []string) []string {
	var out []string
	for _, g := range gs {
		if strings.Contains(g, "load(recv.") && !strings.Contains(g, "param:") && !strings.Contains(g, "#") {
			out = append(out, g)
		}
	}
	return out
}

// laRLEThresholds (C07, C01, C03): the encoder keeps two views of a run of equal values — it stops buffering values
// once the repeat counter has reached a threshold K1, and elsewhere decides "this is an RLE run, emit it" by a test of
// the same counter against K2. With K2 > K1 there are counter values (K1 ≤ c < K2) for which values have been counted
// but neither buffered nor emitted: they are lost (a page whose level stream ends in a run of exactly K1 equal values).
// Also: the run header the decoder obtained must not be narrowed below 32 bits before the run length is computed, and
// rle.New accepts exactly the widths the bit packer implements.
func laRLEThresholds(c *Ctx) {
	r, u := c.R, c.U
	fns := rleFuncs(u)
	// the repeat counter: the field whose value (shifted left by one) is written as an RLE run header
	var rep *types.Var
	var runWriter *ssa.Function
	for _, f := range fns {
		for _, b := range f.Blocks {
			for _, ins := range b.Instrs {
				bo, ok := ins.(*ssa.BinOp)
				if !ok || bo.Op != token.SHL || !constIs(bo.Y, 1) {
					continue
				}
				if fl := fieldOfLoad(stripConvert(bo.X)); fl != nil {
					// used as the argument of a call (the varint writer)
					for _, ref := range *bo.Referrers() {
						if _, isCall := ref.(*ssa.Call); isCall {
							rep, runWriter = fl, f
						}
					}
				}
			}
		}
	}
	if rep == nil {
		r.undecided("LA-runkind", "encoder repeat counter", "", "no field is written (shifted left by one) as an RLE run header")
		return
	}
	type test struct {
		k    int64 // counter >= k on the true edge
		iff  *ssa.If
		fn   *ssa.Function
		kind string
	}
	var tests []test
	reachesRun := func(b *ssa.BasicBlock) bool {
		for _, blk := range append([]*ssa.BasicBlock{b}, reachableBlocks(b)...) {
			if blk != b && !b.Dominates(blk) {
				continue
			}
			for _, ins := range blk.Instrs {
				if call, ok := ins.(ssa.CallInstruction); ok && call.Common().StaticCallee() == runWriter {
					return true
				}
			}
		}
		return false
	}
	// buffering: a non-constant store into an element of an array/slice field of the encoder (the pending group), in
	// the function itself or in an encoder function it calls
	var bufFn func(f *ssa.Function, d int) bool
	bufBlock := func(blk *ssa.BasicBlock, d int) bool {
		for _, ins := range blk.Instrs {
			switch x := ins.(type) {
			case *ssa.Store:
				if ia, ok := x.Addr.(*ssa.IndexAddr); ok {
					if _, isC := x.Val.(*ssa.Const); !isC && (fieldOf(ia.X) != nil || fieldOfLoad(ia.X) != nil) {
						return true
					}
				}
			case ssa.CallInstruction:
				if sc := x.Common().StaticCallee(); sc != nil && u.pkgPathOf(sc) == rlePath && sc != runWriter && d < 3 && bufFn(sc, d+1) {
					return true
				}
			}
		}
		return false
	}
	bufMemo := map[*ssa.Function]bool{}
	bufFn = func(f *ssa.Function, d int) bool {
		if v, ok := bufMemo[f]; ok {
			return v
		}
		bufMemo[f] = false
		res := false
		for _, blk := range f.Blocks {
			if bufBlock(blk, d) {
				res = true
			}
		}
		bufMemo[f] = res
		return res
	}
	buffersFrom := func(b *ssa.BasicBlock) bool {
		for _, blk := range append([]*ssa.BasicBlock{b}, reachableBlocks(b)...) {
			if bufBlock(blk, 0) {
				return true
			}
		}
		return false
	}
	for _, f := range fns {
		for _, b := range f.Blocks {
			iff, ok := lastInstr(b).(*ssa.If)
			if !ok {
				continue
			}
			bo, ok := iff.Cond.(*ssa.BinOp)
			if !ok || fieldOfLoad(stripConvert(bo.X)) != rep {
				continue
			}
			kc, ok := bo.Y.(*ssa.Const)
			if !ok || kc.Value == nil {
				continue
			}
			kv, _ := constant.Int64Val(kc.Value)
			// hi: the edge on which counter >= k
			var k int64
			hi, lo := b.Succs[0], b.Succs[1]
			switch bo.Op {
			case token.GEQ:
				k = kv
			case token.GTR:
				k = kv + 1
			case token.LSS:
				k, hi, lo = kv, lo, hi
			case token.LEQ:
				k, hi, lo = kv+1, lo, hi
			default:
				continue
			}
			t := test{k: k, iff: iff, fn: f}
			// what the two edges do: "stop buffering" — below k the value is put into the group buffer, from k on it is not
			switch {
			case reachesRun(hi):
				t.kind = "emit-run"
			case buffersFrom(lo) && !buffersFrom(hi):
				t.kind = "stop-buffering"
			default:
				continue
			}
			tests = append(tests, t)
		}
	}
	var stops, emits []test
	for _, t := range tests {
		if t.kind == "stop-buffering" {
			stops = append(stops, t)
		} else {
			emits = append(emits, t)
		}
	}
	r.count("LA-runkind/repeat-thresholds", len(tests))
	if len(stops) == 0 || len(emits) == 0 {
		r.undecided("LA-runkind", "encoder repeat thresholds", u.Pos(runWriter.Pos()), fmt.Sprintf("found %d tests that stop buffering and %d that emit an RLE run", len(stops), len(emits)))
	} else {
		k1 := stops[0].k
		for _, s := range stops {
			if s.k < k1 {
				k1 = s.k
			}
		}
		for i, e := range emits {
			key := fmt.Sprintf("%s RLE run threshold #%d", u.FnName(e.fn), i+1)
			if e.k > k1 {
				r.bad("LA-runkind", key, u.Pos(e.iff.Pos()), fmt.Sprintf("a run is emitted as RLE only when the repeat counter is >= %d, but values stop being buffered once it is >= %d: with the counter at %d..%d the values have been counted, are in no buffer and are not emitted — a level stream ending in a run of exactly %d equal values loses its last value", e.k, k1, k1, e.k-1, k1))
			} else {
				r.ok("LA-runkind", key, u.Pos(e.iff.Pos()), fmt.Sprintf("emit at >= %d, buffering stops at >= %d", e.k, k1))
			}
		}
	}
	r.floor("LA-runkind/repeat-thresholds", 2, "Write (stop buffering), Write/Bytes (emit)")
	// the run value is replaced only after a pending run has been emitted: from the stop-buffering threshold on the
	// repeated values live nowhere but in (run value, repeat counter), so a store of a new run value must come after the
	// test that emits the pending run — in the same function
	var prev *types.Var
	for _, b := range runWriter.Blocks {
		for _, ins := range b.Instrs {
			if call, ok := ins.(*ssa.Call); ok {
				if sc := call.Call.StaticCallee(); sc != nil && u.pkgPathOf(sc) == rlePath {
					for i, a := range callArgs(&call.Call) {
						if i < len(sc.Params) {
							if bt, ok := sc.Params[i].Type().Underlying().(*types.Basic); ok && bt.Kind() == types.Uint8 {
								if fl := fieldOfLoad(stripConvert(a)); fl != nil && fl != rep {
									prev = fl
								}
							}
						}
					}
				}
			}
		}
	}
	if prev != nil {
		nPrev := 0
		for _, f := range fns {
			for _, b := range f.Blocks {
				for _, ins := range b.Instrs {
					st, ok := ins.(*ssa.Store)
					if !ok || fieldOf(st.Addr) != prev {
						continue
					}
					if fa, ok := st.Addr.(*ssa.FieldAddr); ok {
						if _, fresh := fa.X.(*ssa.Alloc); fresh {
							continue // the constructor's literal
						}
					}
					nPrev++
					key := fmt.Sprintf("%s run value replaced #%d", u.FnName(f), nPrev)
					emitted := false
					for _, e := range emits {
						if e.fn == f && (e.iff.Block() == b || e.iff.Block().Dominates(b)) {
							emitted = true
						}
					}
					if emitted {
						r.ok("LA-runkind", key, u.Pos(st.Pos()), "after the test that emits a pending run")
					} else {
						r.bad("LA-runkind", key, u.Pos(st.Pos()), "the run value is replaced here without the pending run having been emitted first (no `repeat counter >= threshold -> write the RLE run` test before it in this function): the values of a pending run exist only as (run value, counter) and are lost")
					}
				}
			}
		}
		r.count("LA-runkind/run-value-stores", nPrev)
	}
	// decoder: no narrowing of the run header
	for _, f := range fns {
		for _, p := range f.Params {
			if w, _ := intWidth(p.Type()); w != 64 || p.Referrers() == nil {
				continue
			}
			// a header parameter: its value is shifted right by one somewhere
			isHeader := false
			var narrow *ssa.Convert
			var visit func(v ssa.Value, d int)
			seen := map[ssa.Value]bool{}
			visit = func(v ssa.Value, d int) {
				if d > 4 || seen[v] || v.Referrers() == nil {
					return
				}
				seen[v] = true
				for _, ref := range *v.Referrers() {
					switch x := ref.(type) {
					case *ssa.BinOp:
						if x.Op == token.SHR && constIs(x.Y, 1) {
							isHeader = true
						}
						visit(x, d+1)
					case *ssa.Convert:
						if w2, _ := intWidth(x.Type()); w2 > 0 && w2 < 32 {
							narrow = x
						}
						visit(x, d+1)
					}
				}
			}
			visit(p, 0)
			if !isHeader {
				continue
			}
			r.count("LA-runkind/header-params", 1)
			key := u.FnName(f) + " run header width"
			if narrow != nil {
				r.bad("LA-runkind", key, u.Pos(narrow.Pos()), "the run header is narrowed to "+narrow.Type().String()+" before the run length is taken from it: runs of 128 groups / values or more (legal, and written by other implementations) are decoded with a wrong length")
			} else {
				r.ok("LA-runkind", key, u.Pos(f.Pos()), "the run length is computed from the full header")
			}
		}
	}
	// New: accepts exactly the widths the bit packer implements
	newFn := u.Func(rlePath, "New")
	pack := u.Func(bitpackPath, "Pack")
	if newFn != nil && pack != nil {
		maxW := int64(0)
		for _, b := range pack.Blocks {
			if iff, ok := lastInstr(b).(*ssa.If); ok {
				if bo, ok := iff.Cond.(*ssa.BinOp); ok && bo.Op == token.EQL {
					if k, ok := bo.Y.(*ssa.Const); ok && k.Value != nil && k.Value.Kind() == constant.Int {
						if kv, _ := constant.Int64Val(k.Value); kv > maxW {
							maxW = kv
						}
					}
				}
			}
		}
		key := "rle.New accepted widths"
		found := false
		for _, b := range newFn.Blocks {
			iff, ok := lastInstr(b).(*ssa.If)
			if !ok {
				continue
			}
			bo, ok := iff.Cond.(*ssa.BinOp)
			if !ok || stripConvert(bo.X) != ssa.Value(newFn.Params[0]) {
				continue
			}
			k, ok := bo.Y.(*ssa.Const)
			if !ok || k.Value == nil {
				continue
			}
			kv, _ := constant.Int64Val(k.Value)
			rej := int64(-1) // rejects widths >= rej
			hi := b.Succs[0] // the edge on which width >= rej
			switch bo.Op {
			case token.GTR:
				rej = kv + 1
			case token.GEQ:
				rej = kv
			case token.LEQ:
				rej, hi = kv+1, b.Succs[1]
			case token.LSS:
				rej, hi = kv, b.Succs[1]
			}
			if rej < 0 {
				continue
			}
			// that edge ends in an error return
			refuses := false
			if ri := errIndex(newFn.Signature); ri >= 0 {
				for _, blk := range append([]*ssa.BasicBlock{hi}, reachableBlocks(hi)...) {
					if ret, ok := lastInstr(blk).(*ssa.Return); ok && (blk == hi || hi.Dominates(blk)) && !isNilConst(ret.Results[ri]) {
						refuses = true
					}
				}
			}
			if !refuses {
				continue
			}
			found = true
			if rej != maxW+1 {
				r.bad("LA-runkind", key, u.Pos(iff.Pos()), fmt.Sprintf("rle.New refuses widths >= %d, the bit packer implements widths up to %d: columns whose maximum level needs %d bits cannot be written or read", rej, maxW, rej))
			} else {
				r.ok("LA-runkind", key, u.Pos(iff.Pos()), fmt.Sprintf("widths 0..%d, as the bit packer", maxW))
			}
		}
		if !found || maxW == 0 {
			r.undecided("LA-runkind", key, u.Pos(newFn.Pos()), "the width bound of rle.New / the widths of bitpack.Pack were not recognised")
		}
	}
}
