package main

// ST — statistics (C12, DESIGN.md §4 ST): structural, inductive argument over
// the accumulator code of every type implementing parquet.Stats in the
// instantiated template packages.

import (
	"fmt"
	"go/constant"
	"go/token"
	"go/types"
	"sort"
	"strings"

	"golang.org/x/tools/go/ssa"
)

func init() {
	register("C12", "other", LoadOpts{TC: true, SSA: true}, checkC12)
}

func lastInstr(b *ssa.BasicBlock) ssa.Instruction { return b.Instrs[len(b.Instrs)-1] }

// loadOf: v is a load of field fld (optionally of the given base pointer).
func loadOf(v ssa.Value, fld *types.Var, base ssa.Value) bool {
	un, ok := v.(*ssa.UnOp)
	if !ok || un.Op != token.MUL {
		return false
	}
	fa, ok := un.X.(*ssa.FieldAddr)
	if !ok || fieldOf(fa) != fld {
		return false
	}
	return base == nil || fa.X == base
}

// guarded: every way into block b passes the required-truth-value edge of an accepted condition (DESIGN.md §3.5).
func guarded(b *ssa.BasicBlock, accept func(iff *ssa.If, truth bool) bool, depth int) bool {
	if len(b.Preds) > 0 {
		all := true
		for _, p := range b.Preds {
			switch t := lastInstr(p).(type) {
			case *ssa.If:
				if p.Succs[0] == p.Succs[1] || !accept(t, p.Succs[0] == b) {
					all = false
				}
			case *ssa.Jump:
				if depth > 4 || !guarded(p, accept, depth+1) {
					all = false
				}
			default:
				all = false
			}
		}
		if all {
			return true
		}
	}
	for d := b.Idom(); d != nil; d = d.Idom() {
		iff, ok := lastInstr(d).(*ssa.If)
		if !ok || d.Succs[0] == d.Succs[1] {
			continue
		}
		for si, truth := range []bool{true, false} {
			t := d.Succs[si]
			if len(t.Preds) == 1 && t.Dominates(b) && accept(iff, truth) {
				return true
			}
		}
	}
	return false
}

func isFloat(t types.Type) bool {
	b, ok := t.Underlying().(*types.Basic)
	return ok && b.Info()&types.IsFloat != 0
}

type statsType struct {
	pkg    string
	named  *types.Named
	min    *types.Var
	max    *types.Var
	minFn  *ssa.Function
	maxFn  *ssa.Function
	nullFn *ssa.Function
}

// retField: the field whose loaded value (through conversions / one helper call) every non-nil return of fn yields; nilRets = number of nil returns.
func retField(fn *ssa.Function) (fld *types.Var, nilRets, valRets int, mixed bool) {
	for _, b := range fn.Blocks {
		ret, ok := lastInstr(b).(*ssa.Return)
		if !ok || len(ret.Results) != 1 {
			continue
		}
		if isNilConst(ret.Results[0]) {
			nilRets++
			continue
		}
		// a helper of the same package that may itself return nil (absence decided inside the helper)
		if call, ok := ret.Results[0].(*ssa.Call); ok {
			if sc := call.Call.StaticCallee(); sc != nil && sc.Blocks != nil && sc.Pkg == fn.Pkg && sc != fn {
				_, n2, v2, _ := retField(sc)
				if n2 > 0 {
					nilRets += n2
					if v2 == 0 {
						continue
					}
				}
			}
		}
		valRets++
		f := traceField(ret.Results[0], 0)
		if f == nil || (fld != nil && fld != f) {
			mixed = true
		}
		if f != nil {
			fld = f
		}
	}
	return
}

func traceField(v ssa.Value, depth int) *types.Var {
	if depth > 5 {
		return nil
	}
	switch x := v.(type) {
	case *ssa.UnOp:
		if x.Op == token.MUL {
			if f := fieldOf(x.X); f != nil {
				return f
			}
		}
	case *ssa.Convert:
		return traceField(x.X, depth+1)
	case *ssa.ChangeType:
		return traceField(x.X, depth+1)
	case *ssa.FieldAddr:
		return fieldOf(x)
	case *ssa.Call:
		var found *types.Var
		for _, a := range x.Call.Args {
			if f := traceField(a, depth+1); f != nil {
				if found != nil && found != f {
					return nil
				}
				found = f
			}
		}
		return found
	case *ssa.Slice:
		return traceField(x.X, depth+1)
	}
	return nil
}

func checkC12(c *Ctx) {
	r, u := c.R, c.U
	r.Explanation = "Structural soundness argument for page statistics, per type implementing parquet.Stats in the instantiated templates (all 8 element types, required and optional): ST1 every store to the field Min() (Max()) serialises is guarded by `v < acc` (`v > acc`) on the stored value — so after a value is added min <= v and min never increases, for every value multiset incl. negatives, extremes, NaN (never wins a comparison), arbitrary strings; an in-band sentinel test guarding a store is a violation; ST2 every non-null value reaches both updates on every path; ST3 the comparison is Go's order on the column's element type and the schema type function declares the matching physical/converted type; ST4 Min/Max serialise their own field with a bit-preserving little-endian full-width encoding; ST5 absence is keyed on a counter/flag that only value processing sets; ST6 the null counter is incremented exactly under def < maxDef for each level. Not decided: thrift encoding of the header."
	iface := u.Pkgs[rtPath].Types.Scope().Lookup("Stats")
	if iface == nil {
		r.failf("parquet.Stats interface not found")
		return
	}
	// the accumulators are fed each record's own values and levels exactly once (optional columns)
	runFT(c, "FT", map[string]bool{"delta": true})
	it := iface.Type().Underlying().(*types.Interface)
	for _, path := range u.TC {
		sp := u.SSAPkgs[path]
		short := strings.TrimPrefix(path, "uni/")
		var names []string
		for n, m := range sp.Members {
			if _, ok := m.(*ssa.Type); ok {
				names = append(names, n)
			}
		}
		sort.Strings(names)
		for _, n := range names {
			named, ok := sp.Members[n].(*ssa.Type).Type().(*types.Named)
			if !ok {
				continue
			}
			if _, isStruct := named.Underlying().(*types.Struct); !isStruct {
				continue
			}
			pt := types.NewPointer(named)
			if !types.Implements(pt, it) {
				continue
			}
			r.count("ST/stats-types", 1)
			st := &statsType{pkg: path, named: named}
			ms := u.Prog.MethodSets.MethodSet(pt)
			get := func(name string) *ssa.Function {
				sel := ms.Lookup(sp.Pkg, name)
				if sel == nil {
					sel = ms.Lookup(nil, name)
				}
				if sel == nil {
					return nil
				}
				return u.Prog.MethodValue(sel)
			}
			st.minFn, st.maxFn, st.nullFn = get("Min"), get("Max"), get("NullCount")
			checkStatsType(c, st, short+"."+n)
		}
	}
	checkTypeFuncs(c)
	checkST7(c)
	// required columns have no absence guard: relies on "no page without values" (WH-empty, shared with C06)
	runWHEmpty(c, "WH-empty")
	r.floor("ST/stats-types", 16+2, "alltypes instantiates all 16 stats templates; the other packages add more")
	r.floor("ST/guarded-stores", 28, "2 per numeric type (12 types) + string types")
	r.assume("thrift serialises the Statistics struct faithfully")
	r.assume("one stats object per field object, field objects recreated per page (Fields() in Write and newParquetWriter) — template-fixed")
}

func checkStatsType(c *Ctx, st *statsType, key string) {
	r, u := c.R, c.U
	if st.minFn == nil || st.maxFn == nil {
		r.undecided("ST", key, "", "Min/Max methods not resolvable")
		return
	}
	for _, side := range []struct {
		name string
		fn   *ssa.Function
		op   token.Token
	}{{"min", st.minFn, token.LSS}, {"max", st.maxFn, token.GTR}} {
		fld, nilRets, valRets, mixed := retField(side.fn)
		pos := u.Pos(side.fn.Pos())
		k := key + " " + side.name
		if valRets == 0 {
			r.ok("ST5", k, pos, "never present: "+side.fn.Name()+"() returns nil on every path")
			continue
		}
		if fld == nil || mixed {
			r.undecided("ST4", k, pos, "cannot tell which single field "+side.fn.Name()+"() serialises")
			continue
		}
		if side.name == "min" {
			st.min = fld
		} else {
			st.max = fld
		}
		checkST1(c, st, k, fld, side.op)
		checkST4(c, k, side.fn, fld)
		checkST5(c, st, k, side.fn, fld, nilRets)
	}
	if st.min != nil && st.min == st.max {
		r.bad("ST4", key+" distinct", u.Pos(st.minFn.Pos()), "Min() and Max() serialise the same field "+st.min.Name())
	}
	checkST6(c, st, key)
}

func constIs(v ssa.Value, want int64) bool {
	c, ok := v.(*ssa.Const)
	if !ok || c.Value == nil {
		return false
	}
	if c.Value.Kind() == constant.Int {
		i, ok := constant.Int64Val(c.Value)
		return ok && i == want
	}
	return false
}

func constBool(v ssa.Value, want bool) bool {
	c, ok := v.(*ssa.Const)
	return ok && c.Value != nil && c.Value.Kind() == constant.Bool && constant.BoolVal(c.Value) == want
}

// storesTo: all stores to field fld in the universe, split into constructor initialisations (into a fresh allocation) and the rest.
func storesTo(u *Universe, fld *types.Var) (ctor, other []*ssa.Store) {
	for _, f := range u.Funcs {
		for _, b := range f.Blocks {
			for _, ins := range b.Instrs {
				st, ok := ins.(*ssa.Store)
				if !ok || fieldOf(st.Addr) != fld {
					continue
				}
				fa := st.Addr.(*ssa.FieldAddr)
				if _, fresh := fa.X.(*ssa.Alloc); fresh {
					ctor = append(ctor, st)
				} else {
					other = append(other, st)
				}
			}
		}
	}
	return
}

// flagMonotone: field k (bool or integer) is, outside constructors, only ever stored `true` or incremented.
func flagMonotone(u *Universe, k *types.Var) bool {
	_, other := storesTo(u, k)
	for _, st := range other {
		if constBool(st.Val, true) {
			continue
		}
		if bo, ok := st.Val.(*ssa.BinOp); ok && bo.Op == token.ADD {
			if loadOf(bo.X, k, nil) {
				if cst, ok := bo.Y.(*ssa.Const); ok && cst.Value != nil && constant.Sign(cst.Value) > 0 {
					continue
				}
			}
		}
		return false
	}
	ctor, _ := storesTo(u, k)
	for _, st := range ctor {
		if !(constBool(st.Val, false) || constIs(st.Val, 0)) {
			return false
		}
	}
	return true
}

// noValueYet: cond/truth means "flag k is unset": !k (true), k (false), k == 0 (true), k != 0 (false).
func noValueYet(cond ssa.Value, truth bool, base ssa.Value) *types.Var {
	fldOfLoad := func(v ssa.Value) *types.Var {
		if un, ok := v.(*ssa.UnOp); ok && un.Op == token.MUL {
			if fa, ok := un.X.(*ssa.FieldAddr); ok && (base == nil || fa.X == base) {
				return fieldOf(fa)
			}
		}
		return nil
	}
	switch x := cond.(type) {
	case *ssa.UnOp:
		if x.Op == token.NOT {
			if f := fldOfLoad(x.X); f != nil && truth {
				return f
			}
		}
		if x.Op == token.MUL && !truth {
			if f := fldOfLoad(x); f != nil {
				if b, ok := f.Type().Underlying().(*types.Basic); ok && b.Kind() == types.Bool {
					return f
				}
			}
		}
	case *ssa.BinOp:
		if (x.Op == token.EQL && truth) || (x.Op == token.NEQ && !truth) {
			if f := fldOfLoad(x.X); f != nil && (constIs(x.Y, 0) || constBool(x.Y, false)) {
				return f
			}
			if f := fldOfLoad(x.Y); f != nil && (constIs(x.X, 0) || constBool(x.X, false)) {
				return f
			}
		}
		// ordered forms on a counter that starts at 0 and only grows: k <= 0, k < 1, !(k > 0), !(k >= 1) and mirrored
		op, l, rr := x.Op, x.X, x.Y
		if fldOfLoad(rr) != nil && fldOfLoad(l) == nil {
			l, rr = rr, l
			switch op {
			case token.LSS:
				op = token.GTR
			case token.GTR:
				op = token.LSS
			case token.LEQ:
				op = token.GEQ
			case token.GEQ:
				op = token.LEQ
			}
		}
		if f := fldOfLoad(l); f != nil {
			switch {
			case truth && op == token.LEQ && constIs(rr, 0), truth && op == token.LSS && constIs(rr, 1),
				!truth && op == token.GTR && constIs(rr, 0), !truth && op == token.GEQ && constIs(rr, 1):
				return f
			}
		}
	}
	return nil
}

func checkST1(c *Ctx, st *statsType, key string, fld *types.Var, want token.Token) {
	r, u := c.R, c.U
	_, stores := storesTo(u, fld)
	float := isFloat(fld.Type())
	type gate struct{ b *ssa.BasicBlock }
	var gates []*ssa.BasicBlock // blocks that decide/perform the update (for ST2)
	var val ssa.Value
	for i, s := range stores {
		k := fmt.Sprintf("%s store #%d in %s", key, i+1, s.Parent().Name())
		pos := u.Pos(s.Pos())
		base := s.Addr.(*ssa.FieldAddr).X
		V := s.Val
		if !types.Identical(V.Type(), fld.Type()) {
			r.bad("ST3", k, pos, "stored value has type "+V.Type().String()+", accumulator "+fld.Type().String())
		}
		sentinel := ""
		firstValue := false
		var gateBlocks []*ssa.BasicBlock
		accept := func(iff *ssa.If, truth bool) bool {
			bo, ok := iff.Cond.(*ssa.BinOp)
			if ok {
				isV := func(x ssa.Value) bool { return x == V }
				isACC := func(x ssa.Value) bool {
					if !loadOf(x, fld, base) {
						return false
					}
					return x.(*ssa.UnOp).Block() == iff.Block()
				}
				lt, le, gt, ge := token.LSS, token.LEQ, token.GTR, token.GEQ
				if want == token.GTR {
					lt, le, gt, ge = token.GTR, token.GEQ, token.LSS, token.LEQ
				}
				mono := false
				switch {
				case truth && (bo.Op == lt || bo.Op == le) && isV(bo.X) && isACC(bo.Y):
					mono = true
				case truth && (bo.Op == gt || bo.Op == ge) && isACC(bo.X) && isV(bo.Y):
					mono = true
				case !truth && !float && (bo.Op == ge || bo.Op == gt) && isV(bo.X) && isACC(bo.Y):
					mono = true
				case !truth && !float && (bo.Op == le || bo.Op == lt) && isACC(bo.X) && isV(bo.Y):
					mono = true
				}
				if mono {
					if !types.Identical(bo.X.Type(), fld.Type()) {
						return false
					}
					gateBlocks = append(gateBlocks, iff.Block())
					return true
				}
				// equality of the accumulator with a value of the element type: in-band sentinel
				if (bo.Op == token.EQL || bo.Op == token.NEQ) && (isACC(bo.X) || isACC(bo.Y)) {
					other := bo.Y
					if isACC(bo.Y) {
						other = bo.X
					}
					if types.Identical(other.Type(), fld.Type()) {
						sentinel = other.String()
					}
				}
			}
			if k := noValueYet(iff.Cond, truth, base); k != nil && k != fld {
				// first-value idiom: sound only if "flag unset" really means "no value processed before"
				if !flagMonotone(u, k) || !perValueSets(k, V, base) {
					return false
				}
				firstValue = true
				gateBlocks = append(gateBlocks, s.Block())
				return true
			}
			return false
		}
		ok := guarded(s.Block(), accept, 0)
		r.count("ST/guarded-stores", 1)
		switch {
		case ok && firstValue && float:
			r.bad("ST1", k, pos, "first-value initialisation of a floating-point accumulator: a NaN first value is stored and then never replaced (no comparison with NaN is true)")
		case ok:
			form := "monotone guard `v " + want.String() + " acc`"
			if firstValue {
				form = "first-value idiom (flag set with the store) or " + form
			}
			r.ok("ST1", k, pos, form)
			gates = append(gates, gateBlocks...)
			val = V
		case sentinel != "":
			r.bad("ST1", k, pos, "store guarded by equality of the accumulator with the in-band sentinel "+sentinel+": a page value equal to the sentinel makes the next value overwrite the bound")
		default:
			r.bad("ST1", k, pos, "store to the "+key[strings.LastIndex(key, " ")+1:]+" accumulator is not guarded by a comparison of the stored value with the accumulator")
		}
	}
	if len(stores) == 0 {
		r.bad("ST1", key+" stores", u.Pos(fld.Pos()), "accumulator is serialised but never updated")
		return
	}
	// ST2: every value reaches the update decision
	if val != nil && len(gates) > 0 {
		checkST2(c, key, val, gates)
		checkST8(c, key, val)
	}
}

// ST8: when the value is taken from a slice by a hand-kept position (vals[i] next to a loop over the levels), the position
// advances by exactly one for every value taken and stays put otherwise — or the accumulators see the first value again
// and again (or skip values) and the bounds are not bounds of the page.
func checkST8(c *Ctx, key string, V ssa.Value) {
	r, u := c.R, c.U
	ld, ok := V.(*ssa.UnOp)
	if !ok || ld.Op != token.MUL {
		return
	}
	ia, ok := ld.X.(*ssa.IndexAddr)
	if !ok {
		return
	}
	if _, isParam := ia.X.(*ssa.Parameter); !isParam {
		return
	}
	fn := ld.Parent()
	pos := u.Pos(ld.Pos())
	k := strings.TrimSuffix(strings.TrimSuffix(key, " min"), " max") + " value position"
	// the index of a `for i, v := range vals` loop enumerates by construction
	for _, l := range countedLoops(fn) {
		if l.idx == ia.Index && l.full && l.seq == ia.X {
			r.ok("ST8", k, pos, "range index of the values")
			return
		}
	}
	I, ok := ia.Index.(*ssa.Phi)
	if !ok {
		r.bad("ST8", k, pos, "the value is taken at position "+symExpr(ia.Index, 0)+", which is not a running position")
		return
	}
	E := ld.Block()
	var bad []string
	seen := map[*ssa.Phi]bool{}
	var leaves func(phi *ssa.Phi)
	leaves = func(phi *ssa.Phi) {
		if seen[phi] {
			return
		}
		seen[phi] = true
		for i, e := range phi.Edges {
			from := phi.Block().Preds[i]
			if p2, ok := e.(*ssa.Phi); ok && p2 != I {
				leaves(p2)
				continue
			}
			through := from == E || E.Dominates(from)
			switch {
			case through:
				if bo, ok := e.(*ssa.BinOp); !ok || bo.Op != token.ADD || bo.X != ssa.Value(I) || !constIs(bo.Y, 1) {
					bad = append(bad, "after a value has been taken the position becomes "+symExpr(e, 0)+", want position+1: the next value compared is not the next value of the page")
				}
			case constIs(e, 0) && !phi.Block().Dominates(from):
				// entry
			case e == ssa.Value(I):
				// a null: the position stays
			default:
				if bo, ok := e.(*ssa.BinOp); ok && bo.Op == token.ADD && bo.X == ssa.Value(I) {
					bad = append(bad, "the position also advances on a path that takes no value (a null level)")
				} else if !(constIs(e, 0)) {
					bad = append(bad, "the position is set to "+symExpr(e, 0))
				}
			}
		}
	}
	leaves(I)
	if len(bad) > 0 {
		r.bad("ST8", k, pos, strings.Join(bad, "; "))
	} else {
		r.ok("ST8", k, pos, "the position advances by one exactly when a value is taken")
	}
}

func checkST2(c *Ctx, key string, V ssa.Value, gates []*ssa.BasicBlock) {
	r, u := c.R, c.U
	var E *ssa.BasicBlock
	var fn *ssa.Function
	switch x := V.(type) {
	case *ssa.Parameter:
		fn = x.Parent()
		E = fn.Blocks[0]
	case ssa.Instruction:
		E = x.Block()
		fn = x.Parent()
	}
	if E == nil {
		r.undecided("ST2", key, "", "value origin not found")
		return
	}
	cut := map[*ssa.BasicBlock]bool{}
	for _, g := range gates {
		cut[g] = true
	}
	pos := u.Pos(fn.Pos())
	if cut[E] {
		r.ok("ST2", key, pos, "the update decision is taken in the block that obtains the value")
		return
	}
	seen := map[*ssa.BasicBlock]bool{}
	var esc *ssa.BasicBlock
	var visit func(b *ssa.BasicBlock)
	visit = func(b *ssa.BasicBlock) {
		if esc != nil || seen[b] || cut[b] {
			return
		}
		seen[b] = true
		if _, ok := lastInstr(b).(*ssa.Return); ok {
			esc = b
			return
		}
		if b == E || (b.Dominates(E) && b != E) {
			esc = b // next iteration / left the value's scope
			return
		}
		for _, s := range b.Succs {
			visit(s)
		}
	}
	for _, s := range E.Succs {
		visit(s)
	}
	if esc != nil {
		r.bad("ST2", key, pos, fmt.Sprintf("a non-null value can skip the %s update: path from block %d reaches block %d (%s) without comparing it", key[strings.LastIndex(key, " ")+1:], E.Index, esc.Index, u.Pos(lastInstr(esc).Pos())))
	} else {
		r.ok("ST2", key, pos, "every path from the value to the end of its processing passes the update decision")
	}
}

// ST4: the returned bytes are the full-width little-endian bit pattern of the field (or the string's bytes).
func checkST4(c *Ctx, key string, fn *ssa.Function, fld *types.Var) {
	r, u := c.R, c.U
	pos := u.Pos(fn.Pos())
	ok, why := plainEncodes(u, fn, fld)
	if ok {
		r.ok("ST4", key, pos, fn.Name()+"() serialises field "+fld.Name()+": "+why)
	} else {
		r.bad("ST4", key, pos, fn.Name()+"(): "+why)
	}
}

func sizeofBasic(t types.Type) int {
	b, ok := t.Underlying().(*types.Basic)
	if !ok {
		return 0
	}
	switch b.Kind() {
	case types.Int32, types.Uint32, types.Float32:
		return 4
	case types.Int64, types.Uint64, types.Float64:
		return 8
	case types.Int16, types.Uint16:
		return 2
	case types.Int8, types.Uint8, types.Bool:
		return 1
	}
	return 0
}

// plainEncodes checks that every non-nil return of fn is the PLAIN encoding of a load of fld.
func plainEncodes(u *Universe, fn *ssa.Function, fld *types.Var) (bool, string) {
	why := ""
	for _, b := range fn.Blocks {
		ret, ok := lastInstr(b).(*ssa.Return)
		if !ok || isNilConst(ret.Results[0]) {
			continue
		}
		ok, w := plainValue(u, ret.Results[0], func(v ssa.Value) bool { return loadOf(v, fld, nil) }, nil, 0)
		if !ok {
			return false, w
		}
		why = w
	}
	return true, why
}

// plainValue: result (a []byte) is the PLAIN encoding of a value satisfying isSrc. bind maps callee parameters to actual arguments.
func plainValue(u *Universe, res ssa.Value, isSrc func(ssa.Value) bool, bind map[*ssa.Parameter]ssa.Value, depth int) (bool, string) {
	if depth > 3 {
		return false, "encoding helper chain too deep"
	}
	resolve := func(v ssa.Value) ssa.Value {
		if p, ok := v.(*ssa.Parameter); ok && bind != nil {
			if a, ok := bind[p]; ok {
				return a
			}
		}
		return v
	}
	switch x := res.(type) {
	case *ssa.Phi:
		// a named result: nil on the paths that report absence (ST5), the encoding on the others
		why, some := "", false
		for _, e := range x.Edges {
			if isNilConst(e) {
				continue
			}
			ok2, w := plainValue(u, e, isSrc, bind, depth+1)
			if !ok2 {
				return false, w
			}
			why, some = w, true
		}
		if !some {
			return false, "never returns an encoding"
		}
		return true, why
	case *ssa.Convert:
		// []byte(string)
		if b, ok := x.X.Type().Underlying().(*types.Basic); ok && b.Info()&types.IsString != 0 {
			if isSrc(resolve(x.X)) {
				return true, "bytes of the string"
			}
		}
		return false, "returns a conversion of something other than the accumulator"
	case *ssa.Call:
		sc := x.Call.StaticCallee()
		if sc == nil || sc.Blocks == nil || !u.InUniverse(sc) {
			return false, "returns the result of an opaque call"
		}
		nb := map[*ssa.Parameter]ssa.Value{}
		for i, a := range x.Call.Args {
			if i < len(sc.Params) {
				nb[sc.Params[i]] = resolve(a)
			}
		}
		var why string
		for _, b := range sc.Blocks {
			if ret, ok := lastInstr(b).(*ssa.Return); ok {
				if isNilConst(ret.Results[0]) {
					continue // absence, decided by ST5
				}
				ok2, w := plainValue(u, ret.Results[0], isSrc, nb, depth+1)
				if !ok2 {
					return false, w
				}
				why = w
			}
		}
		return true, why
	case *ssa.Slice:
		al, ok := x.X.(*ssa.Alloc)
		if !ok {
			return false, "returned slice is not a fresh buffer"
		}
		arr, ok := al.Type().(*types.Pointer).Elem().Underlying().(*types.Array)
		if !ok {
			return false, "returned slice is not a fresh fixed-size buffer"
		}
		n := int(arr.Len())
		// the single PutUintNN into this slice
		var put *ssa.Call
		for _, ref := range *x.Referrers() {
			if call, ok := ref.(*ssa.Call); ok {
				if sc := call.Call.StaticCallee(); sc != nil && strings.HasPrefix(sc.Name(), "PutUint") && strings.Contains(sc.String(), "encoding/binary.littleEndian") {
					if put != nil {
						return false, "buffer written more than once"
					}
					put = call
				}
			}
		}
		if put == nil {
			return false, "buffer is not filled by binary.LittleEndian.PutUintNN"
		}
		var bits int
		fmt.Sscanf(put.Call.StaticCallee().Name(), "PutUint%d", &bits)
		if bits/8 != n {
			return false, fmt.Sprintf("buffer of %d bytes filled by %s", n, put.Call.StaticCallee().Name())
		}
		args := put.Call.Args
		v := resolve(args[len(args)-1])
		conv := "identity"
		for i := 0; i < 4; i++ {
			switch y := v.(type) {
			case *ssa.Convert:
				from, to := sizeofBasic(y.X.Type()), sizeofBasic(y.Type())
				if isFloat(y.X.Type()) || isFloat(y.Type()) {
					return false, "numeric float<->int conversion changes the bit pattern"
				}
				if from != to {
					return false, fmt.Sprintf("conversion %s -> %s changes the width", y.X.Type(), y.Type())
				}
				conv = "same-width integer conversion"
				v = resolve(y.X)
				continue
			case *ssa.Call:
				if sc := y.Call.StaticCallee(); sc != nil && sc.Pkg != nil && sc.Pkg.Pkg.Path() == "math" && (sc.Name() == "Float32bits" || sc.Name() == "Float64bits") {
					conv = "math." + sc.Name()
					v = resolve(y.Call.Args[0])
					continue
				}
			}
			break
		}
		if !isSrc(v) {
			return false, "encoded value is not the accumulator field"
		}
		if sizeofBasic(v.Type()) != n {
			return false, fmt.Sprintf("%d-byte encoding of a %s", n, v.Type())
		}
		return true, fmt.Sprintf("%d-byte little-endian, %s", n, conv)
	}
	return false, fmt.Sprintf("unrecognised encoding shape (%T)", res)
}

// ST5: absence. If Min() can return nil, the guard must be a flag/counter that only value processing sets.
func checkST5(c *Ctx, st *statsType, key string, fn *ssa.Function, fld *types.Var, nilRets int) {
	r, u := c.R, c.U
	pos := u.Pos(fn.Pos())
	if nilRets == 0 {
		if st.nullFn != nil {
			if _, _, v, _ := retField(st.nullFn); v > 0 {
				r.bad("ST5", key, pos, fn.Name()+"() is never absent although the column has definition levels: a page whose entries are all null would carry a bound")
				return
			}
		}
		r.ok("ST5", key, pos, "always present; absence for an empty page relies on WH-empty (no page is written without values), checked below")
		return
	}
	// nil returns of the function itself and of the same-package helpers whose result it returns
	var nilBlocks []*ssa.BasicBlock
	var collectNil func(g *ssa.Function, depth int)
	collectNil = func(g *ssa.Function, depth int) {
		if depth > 2 {
			return
		}
		for _, b := range g.Blocks {
			ret, ok := lastInstr(b).(*ssa.Return)
			if !ok || len(ret.Results) != 1 {
				continue
			}
			if isNilConst(ret.Results[0]) {
				nilBlocks = append(nilBlocks, b)
			} else if call, ok := ret.Results[0].(*ssa.Call); ok {
				if sc := call.Call.StaticCallee(); sc != nil && sc.Blocks != nil && sc.Pkg == g.Pkg && sc != g {
					collectNil(sc, depth+1)
				}
			}
		}
	}
	collectNil(fn, 0)
	for _, b := range nilBlocks {
		var flag *types.Var
		sentinel := false
		okG := guarded(b, func(iff *ssa.If, truth bool) bool {
			if k := noValueYet(iff.Cond, truth, nil); k != nil && k != fld {
				flag = k
				return true
			}
			if bo, ok := iff.Cond.(*ssa.BinOp); ok && (loadOf(bo.X, fld, nil) || loadOf(bo.Y, fld, nil)) {
				sentinel = true
			}
			return false
		}, 0)
		switch {
		case okG && flag != nil && flagMonotone(u, flag) && setOnlyWithValues(u, st, flag):
			r.ok("ST5", key, pos, "absent exactly while "+flag.Name()+" is unset; "+flag.Name()+" is set only while a non-null value is being added")
		case okG && flag != nil:
			r.bad("ST5", key, pos, "absence is keyed on "+flag.Name()+", which is not a set-once/increment-only flag updated only when a non-null value is added")
		case sentinel:
			r.bad("ST5", key, pos, "absence is decided by comparing the accumulator with an in-band sentinel value")
		default:
			r.undecided("ST5", key, pos, "nil return not guarded by a recognisable 'no value yet' test")
		}
	}
}

// setOnlyWithValues: every non-constructor store to flag sits in a block where an accumulator update decision for a value is taken or dominated by one
// (i.e. not on the null branch). Approximated: the storing block is not guarded by a `def < maxDef` null test.
func setOnlyWithValues(u *Universe, st *statsType, flag *types.Var) bool {
	_, stores := storesTo(u, flag)
	for _, s := range stores {
		isNullBranch := guarded(s.Block(), func(iff *ssa.If, truth bool) bool {
			bo, ok := iff.Cond.(*ssa.BinOp)
			if !ok {
				return false
			}
			f := fieldOfLoad(bo.Y)
			return truth && bo.Op == token.LSS && f != nil && f.Name() == "maxDef"
		}, 0)
		if isNullBranch {
			return false
		}
	}
	return len(stores) > 0
}

func fieldOfLoad(v ssa.Value) *types.Var {
	if un, ok := v.(*ssa.UnOp); ok && un.Op == token.MUL {
		return fieldOf(un.X)
	}
	return nil
}

// ST6: null counter.
func checkST6(c *Ctx, st *statsType, key string) {
	r, u := c.R, c.U
	if st.nullFn == nil {
		return
	}
	pos := u.Pos(st.nullFn.Pos())
	fld, nilRets, valRets, mixed := retField(st.nullFn)
	if valRets == 0 {
		r.ok("ST6", key, pos, "null_count absent (column without definition levels)")
		return
	}
	if fld == nil || mixed || nilRets > 0 {
		r.undecided("ST6", key, pos, "NullCount() does not return the address of a single counter field")
		return
	}
	_, stores := storesTo(u, fld)
	if len(stores) == 0 {
		r.bad("ST6", key, pos, "null counter is never incremented")
		return
	}
	var maxDefFld *types.Var
	for i, s := range stores {
		k := fmt.Sprintf("%s nulls store #%d", key, i+1)
		p := u.Pos(s.Pos())
		base := s.Addr.(*ssa.FieldAddr).X
		bo, ok := s.Val.(*ssa.BinOp)
		if !ok || bo.Op != token.ADD || !loadOf(bo.X, fld, base) {
			r.bad("ST6", k, p, "null counter is not incremented by exactly one")
			continue
		}
		// where the count is taken: at the store itself (+= 1), or in a local counter that starts at 0, is advanced by
		// one at some places of a loop and is added to the field once, after the loop
		incBlocks := []*ssa.BasicBlock{s.Block()}
		if !constIs(bo.Y, 1) {
			incBlocks = nil
			okLocal := !inCycleBlock(s.Block())
			seenPhi := map[*ssa.Phi]bool{}
			var walk func(v ssa.Value, d int)
			walk = func(v ssa.Value, d int) {
				v = stripConvert(v)
				if d > 6 {
					okLocal = false
					return
				}
				switch y := v.(type) {
				case *ssa.Const:
					if !constIs(y, 0) {
						okLocal = false
					}
				case *ssa.Phi:
					if seenPhi[y] {
						return
					}
					seenPhi[y] = true
					for _, e := range y.Edges {
						walk(e, d+1)
					}
				case *ssa.BinOp:
					if y.Op == token.ADD && constIs(y.Y, 1) {
						incBlocks = append(incBlocks, y.Block())
						walk(y.X, d+1)
					} else {
						okLocal = false
					}
				default:
					okLocal = false
				}
			}
			walk(bo.Y, 0)
			if !okLocal || len(incBlocks) == 0 {
				r.bad("ST6", k, p, "null counter is not incremented by exactly one")
				continue
			}
		}
		var lvl ssa.Value
		okG := true
		for _, ib := range incBlocks {
			if !guarded(ib, func(iff *ssa.If, truth bool) bool {
				c2, ok := iff.Cond.(*ssa.BinOp)
				if !ok {
					return false
				}
				var d, m ssa.Value
				switch {
				case truth && c2.Op == token.LSS:
					d, m = c2.X, c2.Y
				case truth && c2.Op == token.GTR:
					d, m = c2.Y, c2.X
				case !truth && c2.Op == token.GEQ:
					d, m = c2.X, c2.Y
				case !truth && c2.Op == token.LEQ:
					d, m = c2.Y, c2.X
				default:
					return false
				}
				f := fieldOfLoad(m)
				if f == nil {
					return false
				}
				// d must be an element of the levels slice parameter
				ld, ok := d.(*ssa.UnOp)
				if !ok || ld.Op != token.MUL {
					return false
				}
				ia, ok := ld.X.(*ssa.IndexAddr)
				if !ok {
					return false
				}
				if _, isParam := ia.X.(*ssa.Parameter); !isParam {
					return false
				}
				if ld.Block() != iff.Block() {
					return false
				}
				maxDefFld = f
				lvl = d
				return true
			}, 0) {
				okG = false
			}
		}
		if !okG {
			r.bad("ST6", k, p, "increment of the null counter is not guarded by `level < maximum definition level` on an element of the levels parameter")
			continue
		}
		_ = lvl
		r.ok("ST6", k, p, "incremented by one exactly under def < "+maxDefFld.Name()+" for each element of the levels slice")
	}
	if maxDefFld != nil {
		// maxDef is set only by the constructor, from its parameter; every constructor call passes maxDef(types) of the types given to NewOptionalField
		ctor, other := storesTo(u, maxDefFld)
		k := key + " maxDef"
		if len(other) > 0 {
			r.bad("ST6", k, u.Pos(other[0].Pos()), "the maximum definition level of the stats object is modified after construction")
			return
		}
		okAll := len(ctor) > 0
		why := ""
		for _, s := range ctor {
			par, ok := s.Val.(*ssa.Parameter)
			if !ok {
				okAll, why = false, "constructor does not take the maximum definition level as a parameter"
				continue
			}
			cf := par.Parent()
			idx := -1
			for i, p := range cf.Params {
				if p == par {
					idx = i
				}
			}
			n := 0
			for _, f := range u.Funcs {
				for _, b := range f.Blocks {
					for _, ins := range b.Instrs {
						call, ok := ins.(*ssa.Call)
						if !ok || call.Call.StaticCallee() != cf {
							continue
						}
						n++
						if fieldOfLoad(call.Call.Args[idx]) == maxDefFld {
							continue // copied from an existing stats object of the same column
						}
						arg, ok := call.Call.Args[idx].(*ssa.Call)
						if !ok || arg.Call.StaticCallee() == nil || len(arg.Call.Args) != 1 {
							okAll, why = false, "stats constructor argument at "+u.Pos(call.Pos())+" is not a max-definition-level computation"
							continue
						}
						typesArg := arg.Call.Args[0]
						// the same `types` value must be handed to parquet.NewOptionalField in this function
						same := false
						for _, b2 := range f.Blocks {
							for _, i2 := range b2.Instrs {
								if c2, ok := i2.(*ssa.Call); ok {
									if sc := c2.Call.StaticCallee(); sc != nil && sc.Name() == "NewOptionalField" && len(c2.Call.Args) >= 2 && c2.Call.Args[1] == typesArg {
										same = true
									}
								}
							}
						}
						if !same {
							okAll, why = false, "max definition level at "+u.Pos(call.Pos())+" is computed from something other than the repetition types given to NewOptionalField"
						}
						if !countsNonRequired(arg.Call.StaticCallee()) {
							okAll, why = false, arg.Call.StaticCallee().Name()+" does not count the non-required (type > 0) entries"
						}
					}
				}
			}
			if n == 0 {
				okAll, why = false, "stats constructor is never called"
			}
		}
		if okAll {
			r.ok("ST6", k, u.Pos(maxDefFld.Pos()), "set once by the constructor to maxDef(types) of the column's own repetition types")
		} else {
			r.bad("ST6", k, u.Pos(maxDefFld.Pos()), why)
		}
	}
}

// countsNonRequired: fn(types []int) uint8 returns the number of elements > 0 (optional or repeated).
func countsNonRequired(fn *ssa.Function) bool {
	if fn.Blocks == nil || len(fn.Params) != 1 {
		return false
	}
	// shape: a counter incremented by 1 exactly under `elem > 0` (or 0 < elem) for each element of the parameter
	incs := 0
	for _, b := range fn.Blocks {
		for _, ins := range b.Instrs {
			bo, ok := ins.(*ssa.BinOp)
			if !ok || bo.Op != token.ADD || !constIs(bo.Y, 1) {
				continue
			}
			if _, isPhi := bo.X.(*ssa.Phi); !isPhi {
				continue
			}
			if !types.Identical(bo.Type(), types.Typ[types.Uint8]) {
				continue // index increments are ints
			}
			okG := guarded(b, func(iff *ssa.If, truth bool) bool {
				return nonZeroTest(iff.Cond, truth, func(e ssa.Value) bool {
					ld, ok := e.(*ssa.UnOp)
					if !ok || ld.Op != token.MUL {
						return false
					}
					ia, ok := ld.X.(*ssa.IndexAddr)
					return ok && ia.X == ssa.Value(fn.Params[0])
				})
			}, 0)
			if okG {
				incs++
			} else {
				return false
			}
		}
	}
	return incs == 1
}

// ST3 (second half): each generated <T>Type function declares the physical/converted type whose order is Go's order on T.
var physFor = map[string][2]string{
	"int32":   {"INT32", ""},
	"uint32":  {"INT32", "UINT_32"},
	"int64":   {"INT64", ""},
	"uint64":  {"INT64", "UINT_64"},
	"float32": {"FLOAT", ""},
	"float64": {"DOUBLE", ""},
	"bool":    {"BOOLEAN", ""},
	"string":  {"BYTE_ARRAY", ""},
}

// typeFuncInfo: which constants a FieldFunc stores into SchemaElement.Type / ConvertedType.
func typeFuncInfo(fn *ssa.Function) (phys, conv string, ok bool) {
	return typeFuncInfoD(fn, 0)
}

func typeFuncInfoD(fn *ssa.Function, depth int) (phys, conv string, ok bool) {
	if fn == nil || fn.Blocks == nil || len(fn.Params) != 1 || depth > 3 {
		return "", "", false
	}
	cellVal := map[*ssa.Alloc]*ssa.Const{}
	for _, b := range fn.Blocks {
		for _, ins := range b.Instrs {
			if s, isS := ins.(*ssa.Store); isS {
				if al, isA := s.Addr.(*ssa.Alloc); isA {
					if cst, isC := s.Val.(*ssa.Const); isC {
						cellVal[al] = cst
					}
				}
			}
		}
	}
	// the constant a pointer value points to: &local holding a constant, or a `func XPtr(v X) *X` helper applied to a constant
	pointee := func(v ssa.Value) *ssa.Const {
		switch x := v.(type) {
		case *ssa.Alloc:
			return cellVal[x]
		case *ssa.Call:
			if len(x.Call.Args) == 1 {
				if k, isC := x.Call.Args[0].(*ssa.Const); isC {
					if sc := x.Call.StaticCallee(); sc != nil && strings.HasSuffix(sc.Name(), "Ptr") {
						if p, isP := x.Type().Underlying().(*types.Pointer); isP && types.Identical(p.Elem(), k.Type()) {
							return k
						}
					}
				}
			}
		}
		return nil
	}
	ok = true
	for _, b := range fn.Blocks {
		for _, ins := range b.Instrs {
			switch x := ins.(type) {
			case *ssa.Call:
				// delegation to another schema-element setter of the same package with the same element
				if sc := x.Call.StaticCallee(); sc != nil && sc.Pkg == fn.Pkg && len(x.Call.Args) == 1 && x.Call.Args[0] == ssa.Value(fn.Params[0]) {
					p2, c2, ok2 := typeFuncInfoD(sc, depth+1)
					if ok2 {
						if p2 != "" {
							phys = p2
						}
						if c2 != "" {
							conv = c2
						}
					}
				}
			case *ssa.Store:
				f := fieldOf(x.Addr)
				if f == nil || (f.Name() != "Type" && f.Name() != "ConvertedType") {
					continue
				}
				k := pointee(x.Val)
				if k == nil {
					ok = false
					continue
				}
				if f.Name() == "Type" {
					phys = enumName(k)
				} else {
					conv = enumName(k)
				}
			}
		}
	}
	if phys == "" {
		ok = false
	}
	return
}

// enumName renders a thrift enum constant through its String method table (types of package schema).
func enumName(c *ssa.Const) string {
	named, ok := c.Type().(*types.Named)
	if !ok {
		return c.String()
	}
	v, _ := constant.Int64Val(c.Value)
	// find the package-level constant of that type with that value
	scope := named.Obj().Pkg().Scope()
	for _, n := range scope.Names() {
		if k, ok := scope.Lookup(n).(*types.Const); ok && types.Identical(k.Type(), named) {
			if kv, _ := constant.Int64Val(k.Val()); kv == v {
				return strings.TrimPrefix(n, named.Obj().Name()+"_")
			}
		}
	}
	return c.String()
}

func checkTypeFuncs(c *Ctx) {
	r, u := c.R, c.U
	for _, path := range u.TC {
		sp := u.SSAPkgs[path]
		short := strings.TrimPrefix(path, "uni/")
		fieldIface := sp.Pkg.Scope().Lookup("Field")
		if fieldIface == nil {
			r.failf("Field interface missing in %s", path)
			continue
		}
		it, _ := fieldIface.Type().Underlying().(*types.Interface)
		var names []string
		for n := range sp.Members {
			names = append(names, n)
		}
		sort.Strings(names)
		for _, n := range names {
			tm, ok := sp.Members[n].(*ssa.Type)
			if !ok {
				continue
			}
			named, ok := tm.Type().(*types.Named)
			if !ok {
				continue
			}
			stt, ok := named.Underlying().(*types.Struct)
			if !ok || it == nil || !types.Implements(types.NewPointer(named), it) {
				continue
			}
			var elem types.Type
			for i := 0; i < stt.NumFields(); i++ {
				if roleOf(stt.Field(i)) == "vals" {
					if sl, ok := stt.Field(i).Type().Underlying().(*types.Slice); ok {
						elem = sl.Elem()
					}
				}
			}
			key := short + "." + n
			schemaFn := u.Func(path, n+".Schema")
			if elem == nil || schemaFn == nil {
				r.undecided("ST3", key, "", "field type without vals slice or Schema method")
				continue
			}
			r.count("ST/field-types", 1)
			var tf *ssa.Function
			for _, b := range schemaFn.Blocks {
				for _, ins := range b.Instrs {
					if s, ok := ins.(*ssa.Store); ok {
						if f := fieldOf(s.Addr); f != nil && f.Name() == "Type" {
							v := s.Val
							if ct, ok := v.(*ssa.ChangeType); ok {
								v = ct.X
							}
							tf, _ = v.(*ssa.Function)
						}
					}
				}
			}
			pos := u.Pos(schemaFn.Pos())
			if tf == nil {
				r.undecided("ST3", key, pos, "Schema() does not set Type to a named function")
				continue
			}
			phys, conv, ok := typeFuncInfo(tf)
			want, known := physFor[elem.String()]
			switch {
			case !known:
				r.undecided("ST3", key, pos, "element type "+elem.String()+" not in the order table")
			case !ok:
				r.undecided("ST3", key, pos, tf.Name()+" does not store constants into the schema element")
			case phys != want[0] || conv != want[1]:
				r.bad("ST3", key, pos, fmt.Sprintf("column of Go type %s is declared %s/%s by %s; its order (and PLAIN width) requires %s/%s", elem, phys, conv, tf.Name(), want[0], want[1]))
			default:
				r.ok("ST3", key, pos, fmt.Sprintf("Go %s <-> %s %s (%s): Go's comparison is the column order", elem, phys, conv, tf.Name()))
			}
		}
	}
	r.floor("ST/field-types", 16, "all 16 field templates in alltypes")
}

// perValueSets: on every path that processes the value V (from the block that obtains it to the end of the function
// or of the loop iteration) flag k is stored, or is already known to be set (the "set" edge of a test on k).
func perValueSets(k *types.Var, V ssa.Value, base ssa.Value) bool {
	var E *ssa.BasicBlock
	switch x := V.(type) {
	case *ssa.Parameter:
		E = x.Parent().Blocks[0]
	case ssa.Instruction:
		E = x.Block()
	}
	if E == nil {
		return false
	}
	seen := map[*ssa.BasicBlock]bool{}
	ok := true
	var visit func(b *ssa.BasicBlock, first bool)
	visit = func(b *ssa.BasicBlock, first bool) {
		if !ok {
			return
		}
		if !first {
			if b == E || b.Dominates(E) {
				ok = false // next iteration reached without the flag having been set
				return
			}
			if seen[b] {
				return
			}
			seen[b] = true
		}
		for _, ins := range b.Instrs {
			if s, isS := ins.(*ssa.Store); isS && fieldOf(s.Addr) == k {
				return
			}
		}
		switch t := lastInstr(b).(type) {
		case *ssa.Return:
			ok = false
		case *ssa.If:
			for si, truth := range []bool{true, false} {
				if f := noValueYet(t.Cond, !truth, base); f == k {
					continue // on this edge the flag is known to be set already
				}
				visit(b.Succs[si], false)
			}
		default:
			for _, s := range b.Succs {
				visit(s, false)
			}
		}
	}
	visit(E, true)
	return ok
}

// ST7: what the accumulators report reaches the page header unchanged — every store into a schema.Statistics field is
// directly the result of the corresponding method of the Stats value of that page (no truncation, no substitution).
func checkST7(c *Ctx) {
	r, u := c.R, c.U
	want := map[string]string{"MinValue": "Min", "MaxValue": "Max", "NullCount": "NullCount", "DistinctCount": "DistinctCount", "Min": "", "Max": ""}
	n := 0
	for name, method := range want {
		fld := schemaField(u, "Statistics", name)
		if fld == nil {
			r.failf("schema.Statistics.%s not found", name)
			continue
		}
		ctor, other := storesTo(u, fld)
		for _, st := range append(ctor, other...) {
			if u.pkgPathOf(st.Parent()) == schPath {
				continue
			}
			n++
			key := fmt.Sprintf("%s Statistics.%s", u.FnName(st.Parent()), name)
			pos := u.Pos(st.Pos())
			if method == "" {
				r.bad("ST7", key, pos, "the deprecated min/max fields (signed-byte order) are written; C12's order is that of min_value/max_value")
				continue
			}
			call, ok := st.Val.(*ssa.Call)
			if !ok || !call.Call.IsInvoke() || call.Call.Method.Name() != method {
				r.bad("ST7", key, pos, fmt.Sprintf("the page header's %s is not the value returned by the page's Stats.%s(): it is %s — a transformed bound (e.g. a truncated max) is no longer a bound", name, method, symExpr(st.Val, 0)))
				continue
			}
			if _, isParam := call.Call.Value.(*ssa.Parameter); !isParam {
				r.undecided("ST7", key, pos, "the Stats value is not the page writer's parameter")
				continue
			}
			r.ok("ST7", key, pos, name+" = stats."+method+"() of the page being written, unchanged")
		}
	}
	r.count("ST7/header-stat-stores", n)
	r.floor("ST7/header-stat-stores", 3, "NullCount, DistinctCount, MinValue, MaxValue in WritePageHeader")
}
