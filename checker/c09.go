package main

import (
	"fmt"
	"os"

	"golang.org/x/tools/go/ssa"
)

func init() {
	register("C09", "other", LoadOpts{TC: true, SSA: true, Controls: []string{"ep"}}, checkC09)
}

// sinkSeeds: the io.Writer parameter of NewParquetWriter in every G_tc package.
func sinkSeeds(c *Ctx) []ssa.Value {
	var seeds []ssa.Value
	for _, p := range c.U.TC {
		f := c.U.Func(p, "NewParquetWriter")
		if f == nil || len(f.Params) == 0 {
			c.R.failf("API root NewParquetWriter missing in %s", p)
			continue
		}
		seeds = append(seeds, f.Params[0])
		for _, m := range []string{"ParquetWriter.Add", "ParquetWriter.Write", "ParquetWriter.Close"} {
			if c.U.Func(p, m) == nil {
				c.R.failf("API root %s missing in %s", m, p)
			}
		}
	}
	return seeds
}

func debugSites(c *Ctx, ops *Ops) {
	if os.Getenv("VERIF_DEBUG") == "" {
		return
	}
	for _, s := range ops.Sites {
		fmt.Fprintf(os.Stderr, "site kind=%d %s -> %s #%d err=%d at %s %s\n", s.Kind, c.U.FnName(s.Fn), s.Callee, s.Ord, s.ErrIdx, c.U.Pos(s.Site.Pos()), s.Note)
	}
	for _, b := range ops.Beliefs {
		fmt.Fprintf(os.Stderr, "belief %s\n", b)
	}
}

func checkC09(c *Ctx) {
	r := c.R
	r.Explanation = "Decides the error-reporting clause of C09 for every k at once: every call site (in the runtime and in freshly instantiated template code for 4 structs covering all field templates) that can touch the destination io.Writer — found by a wrapper-alias analysis seeded at NewParquetWriter's writer parameter, over go/ssa with a VTA call graph — must, on every CFG path on which its error is non-nil, return a non-nil error up to NewParquetWriter/Write/Close. The belief in Add ('an error can't happen here') is checked by resolving the function-valued options passed there. Does not decide 'nothing panics'."
	t := c.U.NewTaint(sinkSeeds(c)...)
	ops := BuildOps(c.U, t)
	debugSites(c, ops)
	runEP(c.U, r, "EP/sink", ops, func(s *OpSite) bool { return !c.U.isCtl(s.Fn) })
	c.controlsEP()
	// "nothing panics": the write path never dereferences state that only a reader has
	runNilState(c, "NS", "writer")
	r.Analysed["call_sites_touching_sink"] = len(ops.Sites)
	for _, b := range ops.Beliefs {
		r.ok("EP/sink/belief", b[:indexOr(b, " at ")], "", b)
		r.count("EP/sink/belief", 1)
	}
	n := len(c.U.TC)
	r.floor("EP/sink/primitive", 3+n, "WritePageHeader, Footer x2, RequiredField.DoWrite, OptionalField.DoWrite + at least one write of the magic per generated package")
	r.floor("EP/sink/param-dynamic", n, "opt(p) in newParquetWriter per generated package")
	r.floor("EP/sink/derived", 1+3*n, "DoWrite->WritePageHeader x2; NewParquetWriter, Write x2, Close per generated package")
	// one "cannot operate" belief per package whose Add builds the next page's writer through the constructor (a
	// struct literal there has no error to ignore)
	nb := 0
	for _, p := range c.U.TC {
		add, inner := c.U.Func(p, "ParquetWriter.Add"), roleFunc(c.U, p, "writerInner")
		if add == nil || inner == nil {
			continue
		}
		for _, g := range unitFns(c.U, add) {
			if g != inner && callsDirectly(g, inner) {
				nb++
				break
			}
		}
	}
	r.floor("EP/sink/belief", nb, "Add -> newParquetWriter per generated package that creates pages that way")
	r.assume("io.Writer contract: a failed write returns a non-nil error (partial writes with nil error are outside the contract)")
	r.assume("the sink does not flow through reflection or unsafe (ND rule of C13 excludes both in the universe)")
	r.assume("opaque callees (encoding/binary.Write) return the writer's error")
}

func indexOr(s, sub string) int {
	for i := 0; i+len(sub) <= len(s); i++ {
		if s[i:i+len(sub)] == sub {
			return i
		}
	}
	return len(s)
}
