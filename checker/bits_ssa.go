package main

// Bit-provenance evaluation over SSA values (the BP domain of DESIGN.md §4 applied
// to integer SSA values): every bit of a value is 0, 1, "bit b of base value i", or unknown.
// Base values are SSA values the evaluator does not look through (loads, phis, parameters, calls).

import (
	"go/constant"
	"go/token"
	"go/types"

	"golang.org/x/tools/go/ssa"
)

type bitEnv struct {
	bases []ssa.Value
}

func (e *bitEnv) base(v ssa.Value) int {
	for i, b := range e.bases {
		if b == v {
			return i
		}
	}
	e.bases = append(e.bases, v)
	return len(e.bases) - 1
}

func intWidth(t types.Type) (w int, signed bool) {
	b, ok := t.Underlying().(*types.Basic)
	if !ok {
		return 0, false
	}
	switch b.Kind() {
	case types.Uint8:
		return 8, false
	case types.Uint16:
		return 16, false
	case types.Uint32:
		return 32, false
	case types.Uint64, types.Uint, types.Uintptr:
		return 64, false
	case types.Int8:
		return 8, true
	case types.Int16:
		return 16, true
	case types.Int32:
		return 32, true
	case types.Int64, types.Int:
		return 64, true
	}
	return 0, false
}

// bits evaluates v; nil if v is not an integer.
func (e *bitEnv) bits(v ssa.Value, depth int) vec {
	w, _ := intWidth(v.Type())
	if w == 0 {
		return nil
	}
	top := func() vec {
		out := make(vec, w)
		for i := range out {
			out[i] = bit{k: 3}
		}
		return out
	}
	baseVec := func() vec {
		id := e.base(v)
		out := make(vec, w)
		for i := range out {
			out[i] = bit{k: 2, i: id, b: i}
		}
		return out
	}
	if depth > 10 {
		return baseVec()
	}
	switch x := v.(type) {
	case *ssa.Const:
		if x.Value == nil || x.Value.Kind() != constant.Int {
			return top()
		}
		if u, ok := constant.Uint64Val(x.Value); ok {
			return constVec(u, w)
		}
		if i, ok := constant.Int64Val(x.Value); ok {
			return constVec(uint64(i), w)
		}
		return top()
	case *ssa.Convert:
		sw, ssigned := intWidth(x.X.Type())
		if sw == 0 {
			return baseVec()
		}
		src := e.bits(x.X, depth+1)
		out := make(vec, w)
		for i := 0; i < w; i++ {
			switch {
			case i < sw:
				out[i] = src[i]
			case ssigned:
				out[i] = src[sw-1] // sign extension replicates the top bit
			default:
				out[i] = bit{}
			}
		}
		return out
	case *ssa.BinOp:
		switch x.Op {
		case token.AND, token.OR, token.XOR, token.AND_NOT:
			a, b := e.bits(x.X, depth+1), e.bits(x.Y, depth+1)
			if a == nil || b == nil || len(a) != len(b) {
				return top()
			}
			out := make(vec, len(a))
			for i := range a {
				out[i] = bitop(x.Op, a[i], b[i])
			}
			return out
		case token.ADD:
			// carry-free addition (no position where both operands can be 1) is a bitwise OR
			a, b := e.bits(x.X, depth+1), e.bits(x.Y, depth+1)
			if a == nil || b == nil || len(a) != len(b) {
				return top()
			}
			out := make(vec, len(a))
			for i := range a {
				if a[i].k != 0 && b[i].k != 0 {
					for j := i; j < len(out); j++ {
						out[j] = bit{k: 3}
					}
					return out
				}
				out[i] = bitop(token.OR, a[i], b[i])
			}
			return out
		case token.SHL, token.SHR:
			c, ok := x.Y.(*ssa.Const)
			if !ok || c.Value == nil {
				return top()
			}
			s64, _ := constant.Int64Val(constant.ToInt(c.Value))
			s := int(s64)
			a := e.bits(x.X, depth+1)
			if a == nil {
				return top()
			}
			_, signed := intWidth(x.X.Type())
			out := make(vec, len(a))
			for i := range out {
				j := i - s
				if x.Op == token.SHR {
					j = i + s
				}
				switch {
				case j >= 0 && j < len(a):
					out[i] = a[j]
				case x.Op == token.SHR && signed:
					out[i] = a[len(a)-1]
				default:
					out[i] = bit{}
				}
			}
			return out
		}
		return baseVec()
	}
	return baseVec()
}
