package main

// Obligation bookkeeping, known findings, evidence (DESIGN.md §3.7, §6, §8).

import (
	"bufio"
	"encoding/json"
	"fmt"
	"os"
	"path/filepath"
	"sort"
	"strings"
	"time"
)

const (
	Discharged = "discharged"
	Violated   = "violated"
	Undecided  = "undecided"
)

// Ob is one obligation: a rule applied to one construct of the analysed source.
type Ob struct {
	Rule   string `json:"rule"`
	Key    string `json:"construct"` // stable name, never a line number
	Status string `json:"status"`
	Pos    string `json:"pos,omitempty"` // file:line of the construct on this run
	Why    string `json:"why,omitempty"`
}

func (o Ob) ID() string { return o.Rule + "|" + o.Key }

// Report collects what one check did.
type Report struct {
	Prop        string
	Tier        string
	Seed        int64
	Level       string
	Obs         []Ob
	Counts      map[string]int // rule instance counts
	Floors      map[string]int // minimum instance counts confirmed by hand
	FloorWhy    map[string]string
	Controls    []string // control results, human readable
	Fail        []string // framework failures (vacuity, control failure, missing anchors)
	Assumptions []string
	Explanation string
	Extra       map[string]interface{}
	Analysed    map[string]int // packages, functions, call sites ...
	start       time.Time
	seen        map[string]bool
}

func newReport(prop, tier string, seed int64, level string) *Report {
	return &Report{Prop: prop, Tier: tier, Seed: seed, Level: level, Counts: map[string]int{}, Floors: map[string]int{},
		FloorWhy: map[string]string{}, Extra: map[string]interface{}{}, Analysed: map[string]int{}, start: time.Now(), seen: map[string]bool{}}
}

func (r *Report) add(rule, key, status, pos, why string) {
	id := rule + "|" + key
	if r.seen[id] {
		// keys must be unique; disambiguate deterministically
		for i := 2; ; i++ {
			k := fmt.Sprintf("%s#%d", key, i)
			if !r.seen[rule+"|"+k] {
				key = k
				id = rule + "|" + k
				break
			}
		}
	}
	r.seen[id] = true
	r.Obs = append(r.Obs, Ob{Rule: rule, Key: key, Status: status, Pos: pos, Why: why})
}

func (r *Report) ok(rule, key, pos, why string)        { r.add(rule, key, Discharged, pos, why) }
func (r *Report) bad(rule, key, pos, why string)       { r.add(rule, key, Violated, pos, why) }
func (r *Report) undecided(rule, key, pos, why string) { r.add(rule, key, Undecided, pos, why) }
func (r *Report) failf(f string, a ...interface{})     { r.Fail = append(r.Fail, fmt.Sprintf(f, a...)) }
func (r *Report) count(rule string, n int)             { r.Counts[rule] += n }
func (r *Report) floor(rule string, n int, why string) { r.Floors[rule] = n; r.FloorWhy[rule] = why }
func (r *Report) assume(s string) {
	for _, a := range r.Assumptions {
		if a == s {
			return
		}
	}
	r.Assumptions = append(r.Assumptions, s)
}

// Known findings file: JSON lines {"property","rule","construct","what","repro"}
// and "fixed: property=<id> <commit> <what failed>" lines. Never written by a check.
type Finding struct {
	Property  string `json:"property"`
	Rule      string `json:"rule"`
	Construct string `json:"construct"`
	What      string `json:"what"`
	Repro     string `json:"repro,omitempty"`
}

func loadFindings(verif string) (map[string]Finding, []string, error) {
	out := map[string]Finding{}
	var fixed []string
	paths, _ := filepath.Glob(filepath.Join(verif, "known_findings*.jsonl"))
	sort.Strings(paths)
	for _, p := range paths {
		f, err := os.Open(p)
		if err != nil {
			return nil, nil, err
		}
		sc := bufio.NewScanner(f)
		sc.Buffer(make([]byte, 1<<20), 1<<24)
		ln := 0
		for sc.Scan() {
			ln++
			line := strings.TrimSpace(sc.Text())
			switch {
			case line == "" || strings.HasPrefix(line, "#"):
			case strings.HasPrefix(line, "fixed:"):
				fixed = append(fixed, line)
			default:
				var fd Finding
				if err := json.Unmarshal([]byte(line), &fd); err != nil {
					f.Close()
					return nil, nil, fmt.Errorf("%s:%d: %v", p, ln, err)
				}
				out[fd.Property+"|"+fd.Rule+"|"+fd.Construct] = fd
			}
		}
		f.Close()
	}
	return out, fixed, nil
}

// finish applies floors and known findings, prints the protocol lines, writes
// evidence and returns the process exit code.
func (r *Report) finish(verif string) int {
	sort.SliceStable(r.Obs, func(i, j int) bool { return r.Obs[i].ID() < r.Obs[j].ID() })
	for rule, fl := range r.Floors {
		if r.Counts[rule] < fl {
			r.failf("vacuity: rule %s matched %d instances, floor is %d (%s)", rule, r.Counts[rule], fl, r.FloorWhy[rule])
		}
	}
	sort.Strings(r.Fail)
	known, fixed, err := loadFindings(verif)
	if err != nil {
		r.failf("known findings file unreadable: %v", err)
	}
	if dump := os.Getenv("VERIF_DUMP_FINDINGS"); dump != "" {
		// development aid (verif dump-findings): list every violated obligation as a candidate finding line; judge nothing
		f, _ := os.Create(dump)
		enc := json.NewEncoder(f)
		enc.SetEscapeHTML(false)
		for _, o := range r.Obs {
			if o.Status == Violated {
				enc.Encode(Finding{Property: r.Prop, Rule: o.Rule, Construct: o.Key, What: o.Why})
			}
		}
		f.Close()
	}
	var viol, und, kn []Ob
	matched := map[string]bool{}
	nd := 0
	for _, o := range r.Obs {
		switch o.Status {
		case Discharged:
			nd++
		case Violated, Undecided:
			k := r.Prop + "|" + o.ID()
			if _, ok := known[k]; ok && o.Status == Violated {
				kn = append(kn, o)
				matched[k] = true
			} else if o.Status == Violated {
				viol = append(viol, o)
			} else {
				und = append(und, o)
			}
		}
	}
	var stale []string
	for k, f := range known {
		if f.Property == r.Prop && !matched[k] && r.Tier == "thorough" {
			stale = append(stale, f.Rule+"|"+f.Construct)
		}
	}
	sort.Strings(stale)

	// summary
	fmt.Printf("property=%s tier=%s level=%s obligations=%d discharged=%d violated=%d undecided=%d known=%d failures=%d\n",
		r.Prop, r.Tier, r.Level, len(r.Obs), nd, len(viol), len(und), len(kn), len(r.Fail))
	var rules []string
	for k := range r.Counts {
		rules = append(rules, k)
	}
	sort.Strings(rules)
	for _, k := range rules {
		fl := ""
		if f, ok := r.Floors[k]; ok {
			fl = fmt.Sprintf(" (floor %d)", f)
		}
		fmt.Printf("  instances %-28s %d%s\n", k, r.Counts[k], fl)
	}
	for _, c := range r.Controls {
		fmt.Printf("  control %s\n", c)
	}
	knownPrinted := 0
	for _, o := range kn {
		// the list can be long for corpus properties; every entry is printed (the interface asks for one line each)
		fmt.Printf("KNOWN-FINDING: property=%s %s %s\n", r.Prop, o.ID(), oneLine(o.Why))
		knownPrinted++
	}
	if len(stale) > 0 {
		fmt.Printf("  note: %d listed known findings were not re-derived on this run (not a failure), e.g. %s\n", len(stale), stale[0])
	}
	for _, f := range fixed {
		if strings.Contains(f, "property="+r.Prop+" ") {
			fmt.Printf("  %s\n", f)
		}
	}
	code := 0
	vdir := filepath.Join(evidenceDir(verif), "violations")
	writeViolation := func(kind string, i int, o interface{}) string {
		os.MkdirAll(vdir, 0o755)
		p := filepath.Join(vdir, fmt.Sprintf("%s-%s-%d.json", r.Prop, kind, i))
		b, _ := json.MarshalIndent(map[string]interface{}{"property": r.Prop, "tier": r.Tier, "kind": kind, "record": o}, "", " ")
		os.WriteFile(p, b, 0o644)
		return p
	}
	// remove stale violation records of this property
	if old, _ := filepath.Glob(filepath.Join(vdir, r.Prop+"-*.json")); len(old) > 0 {
		for _, p := range old {
			os.Remove(p)
		}
	}
	for i, o := range viol {
		p := writeViolation("violation", i, o)
		fmt.Printf("  violated %s at %s: %s\n", o.ID(), o.Pos, o.Why)
		fmt.Printf("VIOLATION property=%s replay=%s\n", r.Prop, p)
		code = 1
	}
	for i, o := range und {
		p := writeViolation("undecided", i, o)
		fmt.Printf("  undecided (counts as failure) %s at %s: %s\n", o.ID(), o.Pos, o.Why)
		fmt.Printf("VIOLATION property=%s replay=%s\n", r.Prop, p)
		code = 1
	}
	for i, f := range r.Fail {
		p := writeViolation("checker-failure", i, f)
		fmt.Printf("  check failed: %s\n", f)
		fmt.Printf("VIOLATION property=%s replay=%s\n", r.Prop, p)
		code = 1
	}
	r.writeEvidence(verif, nd, len(viol)+len(und)+len(r.Fail), len(kn))
	if code == 0 {
		fmt.Printf("OK property=%s\n", r.Prop)
	}
	return code
}

func oneLine(s string) string {
	s = strings.ReplaceAll(s, "\n", " ")
	if len(s) > 300 {
		s = s[:300] + "…"
	}
	return s
}

func (r *Report) writeEvidence(verif string, nd, nviol, nknown int) {
	distinct := map[string]bool{}
	for _, o := range r.Obs {
		distinct[o.Rule+"|"+strings.SplitN(o.Key, "#", 2)[0]] = true
	}
	// samples: up to 12 obligations, spread over rules, preferring non-discharged ones
	var samples []interface{}
	perRule := map[string]int{}
	for _, pass := range []int{0, 1} {
		for _, o := range r.Obs {
			if (pass == 0) != (o.Status != Discharged) {
				continue
			}
			if perRule[o.Rule] >= 2 || len(samples) >= 16 {
				continue
			}
			perRule[o.Rule]++
			samples = append(samples, o)
		}
	}
	cov := map[string]interface{}{
		"explanation":          r.Explanation,
		"evaluations":          len(r.Obs),
		"distinct_nontrivial":  len(distinct),
		"rule":                 "one evaluation = one obligation (rule applied to one construct of the source as analysed on this run); distinct_nontrivial = distinct (rule, construct) pairs, every obligation is non-trivial by construction (it names a construct the rule had to decide)",
		"samples":              samples,
		"obligations":          len(r.Obs),
		"discharged":           nd,
		"known_findings":       nknown,
		"rule_instance_counts": r.Counts,
		"rule_floors":          r.Floors,
		"controls":             r.Controls,
		"analysed":             r.Analysed,
		"checker_failures":     r.Fail,
	}
	for k, v := range r.Extra {
		cov[k] = v
	}
	if r.Assumptions == nil {
		r.Assumptions = []string{}
	}
	if r.Controls == nil {
		r.Controls = []string{}
	}
	if r.Fail == nil {
		r.Fail = []string{}
	}
	ev := map[string]interface{}{
		"property_id": r.Prop,
		"tier":        r.Tier,
		"seed":        r.Seed,
		"level":       r.Level,
		"coverage":    cov,
		"assumptions": r.Assumptions,
		"wall_s":      time.Since(r.start).Seconds(),
		"violations":  nviol,
	}
	b, _ := json.MarshalIndent(ev, "", " ")
	os.MkdirAll(evidenceDir(verif), 0o755)
	os.WriteFile(filepath.Join(evidenceDir(verif), r.Prop+".json"), append(b, '\n'), 0o644)
}

// evidenceDir: /verif/evidence, or VERIF_OUT when the checker is pointed at a scratch copy (mutant self-test).
func evidenceDir(verif string) string {
	if d := os.Getenv("VERIF_OUT"); d != "" {
		return d
	}
	return filepath.Join(verif, "evidence")
}
