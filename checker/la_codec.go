package main

// LA-codec, LA-cfg, LA-extent (C01, C04, C16): sibling agreement between the
// compressor and the decompressor, provenance of decode-time choices, page extents.

import (
	"fmt"
	"go/constant"
	"go/token"
	"go/types"
	"reflect"
	"sort"
	"strings"

	"golang.org/x/tools/go/ssa"
)

func init() {
	register("C04", "other", LoadOpts{TC: true, SSA: true}, checkC04)
	register("C16", "other", LoadOpts{TC: true, SSA: true}, checkC16)
}

type codecFn struct {
	fn    *ssa.Function
	tag   ssa.Value          // the switched value
	cases map[int64][]string // codec constant -> library calls on that case
	blks  map[int64]*ssa.BasicBlock
}

var codecLib = map[string]string{
	"github.com/golang/snappy.Encode": "snappy+",
	"github.com/golang/snappy.Decode": "snappy-",
	"compress/gzip.NewWriterLevel":    "gzip+",
	"compress/gzip.NewWriter":         "gzip+",
	"compress/gzip.NewReader":         "gzip-",
	"compress/flate.NewWriter":        "flate+",
	"compress/flate.NewReader":        "flate-",
}

// codecSwitches: functions of the runtime that compare a CompressionCodec value with >= 2 constants.
func codecSwitches(u *Universe) []*codecFn {
	var out []*codecFn
	for _, f := range u.Funcs {
		if u.pkgPathOf(f) != rtPath || f.Synthetic != "" {
			continue
		}
		cf := &codecFn{fn: f, cases: map[int64][]string{}, blks: map[int64]*ssa.BasicBlock{}}
		for _, b := range f.Blocks {
			iff, ok := lastInstr(b).(*ssa.If)
			if !ok {
				continue
			}
			bo, ok := iff.Cond.(*ssa.BinOp)
			if !ok || bo.Op != token.EQL {
				continue
			}
			named, ok := bo.X.Type().(*types.Named)
			if !ok || named.Obj().Name() != "CompressionCodec" {
				continue
			}
			k, ok := bo.Y.(*ssa.Const)
			if !ok || k.Value == nil {
				continue
			}
			v, _ := constant.Int64Val(k.Value)
			cf.tag = bo.X
			caseBlk := b.Succs[0]
			cf.blks[v] = caseBlk
			// library calls on this case: in the blocks the case dominates and, transitively, in the helpers called there
			seenLib := map[string]bool{}
			for _, ins := range caseRegionCalls(u, f, caseBlk) {
				if l, ok := codecLib[fullCalleeName(ins.Common())]; ok {
					seenLib[l] = true
				}
			}
			var libs []string
			for l := range seenLib {
				libs = append(libs, l)
			}
			sort.Strings(libs)
			cf.cases[v] = libs
		}
		if len(cf.cases) >= 2 {
			out = append(out, cf)
		}
	}
	return out
}

// caseRegionCalls: call instructions in the blocks dominated by start and, transitively, in universe callees called there.
func caseRegionCalls(u *Universe, f *ssa.Function, start *ssa.BasicBlock) []ssa.CallInstruction {
	var out []ssa.CallInstruction
	var roots []*ssa.Function
	for _, blk := range f.Blocks {
		if blk != start && !start.Dominates(blk) {
			continue
		}
		for _, ins := range blk.Instrs {
			if call, ok := ins.(ssa.CallInstruction); ok {
				out = append(out, call)
				if sc := call.Common().StaticCallee(); sc != nil && u.InUniverse(sc) && sc != f {
					roots = append(roots, sc)
				}
			}
		}
	}
	for g := range u.reach(roots) {
		if g == f {
			continue
		}
		for _, b := range g.Blocks {
			for _, ins := range b.Instrs {
				if call, ok := ins.(ssa.CallInstruction); ok {
					out = append(out, call)
				}
			}
		}
	}
	return out
}

func codecName(u *Universe, v int64) string {
	sp := u.Pkgs[rtPath].Imports[schPath]
	for _, n := range sp.Types.Scope().Names() {
		if k, ok := sp.Types.Scope().Lookup(n).(*types.Const); ok && strings.HasPrefix(n, "CompressionCodec_") {
			if kv, _ := constant.Int64Val(k.Val()); kv == v {
				return strings.TrimPrefix(n, "CompressionCodec_")
			}
		}
	}
	return fmt.Sprint(v)
}

func laCodec(c *Ctx, rule string) {
	r, u := c.R, c.U
	var comp, decomp *codecFn
	for _, cf := range codecSwitches(u) {
		plus, minus := false, false
		for _, libs := range cf.cases {
			for _, l := range libs {
				if strings.HasSuffix(l, "+") {
					plus = true
				}
				if strings.HasSuffix(l, "-") {
					minus = true
				}
			}
		}
		switch {
		case plus && !minus:
			comp = cf
		case minus && !plus:
			decomp = cf
		default:
			r.undecided(rule, u.FnName(cf.fn)+" direction", u.Pos(cf.fn.Pos()), "a codec dispatch mixes compressing and decompressing library calls")
		}
	}
	if comp == nil || decomp == nil {
		r.failf("%s: compressor / decompressor codec dispatch not found in the runtime", rule)
		return
	}
	r.count(rule+"/codec-cases", len(comp.cases)+len(decomp.cases))
	inverse := func(ws []string) string {
		var out []string
		for _, w := range ws {
			out = append(out, strings.TrimSuffix(w, "+")+"-")
		}
		return strings.Join(out, ",")
	}
	var ks []int64
	for k := range comp.cases {
		ks = append(ks, k)
	}
	// the writer's default (no case) is "store unchanged": codecs the writer can be configured with but has no case for
	sort.Slice(ks, func(i, j int) bool { return ks[i] < ks[j] })
	for _, k := range ks {
		key := fmt.Sprintf("%s vs %s codec %s", u.FnName(comp.fn), u.FnName(decomp.fn), codecName(u, k))
		pos := u.Pos(comp.blks[k].Instrs[0].Pos())
		rl, ok := decomp.cases[k]
		if !ok {
			r.bad(rule, key, pos, "the writer compresses with this codec but the reader has no case for it")
			continue
		}
		if inverse(comp.cases[k]) != strings.Join(rl, ",") {
			r.bad(rule, key, pos, fmt.Sprintf("writer applies %v, reader applies %v: not inverse operations", comp.cases[k], rl))
		} else {
			r.ok(rule, key, pos, fmt.Sprintf("writer %v <-> reader %v", comp.cases[k], rl))
		}
	}
	// a streaming compressor is finished (Close) before the compressed bytes are taken from its destination
	for _, k := range ks {
		for _, ins := range caseRegionCalls(u, comp.fn, comp.blks[k]) {
			call, ok := ins.(*ssa.Call)
			if !ok {
				continue
			}
			name := fullCalleeName(&call.Call)
			if l, isLib := codecLib[name]; !isLib || !strings.HasSuffix(l, "+") || !strings.Contains(name, ".NewWriter") {
				continue
			}
			key := fmt.Sprintf("%s codec %s stream completion", u.FnName(comp.fn), codecName(u, k))
			r.count(rule+"/streams", 1)
			var w ssa.Value = call
			if ex := extractOf(call, 0); ex != nil {
				w = ex
			}
			dst := call.Call.Args[0]
			if mi, ok := dst.(*ssa.MakeInterface); ok {
				dst = mi.X
			}
			var closes []*ssa.Call
			var takes []*ssa.Call
			for _, b := range call.Parent().Blocks {
				for _, i2 := range b.Instrs {
					c2, ok := i2.(*ssa.Call)
					if !ok || c2 == call {
						continue
					}
					args := callArgs(&c2.Call)
					if sc := c2.Call.StaticCallee(); sc != nil && sc.Name() == "Close" && len(args) > 0 && args[0] == w {
						closes = append(closes, c2)
					}
					if len(args) > 0 && args[0] == dst && dominatesInstr(call, c2) {
						takes = append(takes, c2)
					}
				}
			}
			switch {
			case len(closes) == 0:
				r.bad(rule, key, u.Pos(call.Pos()), "the compressing writer is never closed: the last block and the trailer (checksum, length) of the stream are missing from the page body")
			default:
				okAll := true
				for _, t := range takes {
					dom := false
					for _, cl := range closes {
						if dominatesInstr(cl, t) {
							dom = true
						}
					}
					if !dom {
						okAll = false
						r.bad(rule, key, u.Pos(t.Pos()), "the destination buffer is read at "+u.Pos(t.Pos())+" before the compressing writer is closed: the page body lacks the end of the stream")
					}
				}
				if okAll {
					r.ok(rule, key, u.Pos(call.Pos()), fmt.Sprintf("Close precedes every use of the destination (%d)", len(takes)))
				}
			}
		}
	}
	// every codec the reader accepts and the writer has no case for must be stored unchanged by the writer: UNCOMPRESSED only
	for k, rl := range decomp.cases {
		if _, ok := comp.cases[k]; ok {
			continue
		}
		key := fmt.Sprintf("%s vs %s codec %s", u.FnName(comp.fn), u.FnName(decomp.fn), codecName(u, k))
		if len(rl) == 0 {
			r.ok(rule, key, u.Pos(decomp.blks[k].Instrs[0].Pos()), "writer stores the bytes unchanged (no case), reader reads them unchanged")
		} else {
			r.bad(rule, key, u.Pos(decomp.blks[k].Instrs[0].Pos()), fmt.Sprintf("reader applies %v for a codec the writer stores unchanged", rl))
		}
	}
	// provenance of the reader's tag: Page.Codec, which is only ever set from the file's ColumnMetaData.Codec
	key := u.FnName(decomp.fn) + " codec provenance"
	fileCodec := schemaField(u, "ColumnMetaData", "Codec")
	var why []string
	var prov func(v ssa.Value, depth int) bool
	prov = func(v ssa.Value, depth int) bool {
		if depth > 4 {
			why = append(why, "call chain too deep")
			return false
		}
		if p, ok := v.(*ssa.Parameter); ok {
			// every call site must pass a value of file provenance
			fn := p.Parent()
			idx := -1
			for i, q := range fn.Params {
				if q == p {
					idx = i
				}
			}
			n := 0
			okAll := true
			for _, f := range u.Funcs {
				for _, b := range f.Blocks {
					for _, ins := range b.Instrs {
						if call, ok := ins.(ssa.CallInstruction); ok && call.Common().StaticCallee() == fn {
							n++
							if !prov(callArgs(call.Common())[idx], depth+1) {
								okAll = false
							}
						}
					}
				}
			}
			if n == 0 {
				why = append(why, "no call site of "+u.FnName(fn)+" found")
				return false
			}
			return okAll
		}
		tagFld := fieldOfLoad(v)
		if tagFld == nil {
			if fv, ok := v.(*ssa.Field); ok {
				tagFld = fieldOf(fv)
			}
		}
		if tagFld == nil {
			why = append(why, "the decompressor's codec does not come from the chunk description (Page.Codec): "+symExpr(v, 0))
			return false
		}
		if tagFld == fileCodec {
			return true
		}
		ctor, other := storesTo(u, tagFld)
		if len(ctor)+len(other) == 0 {
			why = append(why, "field "+tagFld.Name()+" is never set")
			return false
		}
		okAll := true
		for _, st := range append(ctor, other...) {
			if fieldOfLoad(st.Val) != fileCodec {
				okAll = false
				why = append(why, fmt.Sprintf("%s is set at %s from %s, not from the file's ColumnMetaData.Codec", tagFld.Name(), u.Pos(st.Pos()), symExpr(st.Val, 0)))
			}
		}
		return okAll
	}
	if prov(decomp.tag, 0) {
		r.ok(rule, key, u.Pos(decomp.fn.Pos()), "the switched codec is Page.Codec, which is set only from the file's ColumnMetaData.Codec")
	} else {
		r.bad(rule, key, u.Pos(decomp.fn.Pos()), strings.Join(why, "; "))
	}
	r.floor(rule+"/codec-cases", 4, "compress: snappy, gzip; pageData: snappy, gzip, uncompressed")
}

// laCfg: nothing reachable from the reader reads a writer-configuration field.
func laCfg(c *Ctx, rule string) {
	r, u := c.R, c.U
	roots := sourceRoots(c)
	reach := u.reach(append(append([]*ssa.Function{}, roots.reader...), roots.intro...))
	cfg := map[*types.Var]string{}
	for _, t := range [][2]string{{"RequiredField", "compression"}, {"OptionalField", "compression"}} {
		if f := rtField(u, rtPath, t[0], t[1]); f != nil {
			cfg[f] = t[0] + "." + t[1]
		} else {
			r.failf("%s: runtime field %s.%s not found", rule, t[0], t[1])
		}
	}
	for _, p := range u.TC {
		for _, fld := range []string{"max", "compression"} {
			if f := roleField(u, p, "ParquetWriter", fld); f != nil {
				cfg[f] = strings.TrimPrefix(p, "uni/") + ".ParquetWriter." + fld
			} else {
				r.failf("%s: field ParquetWriter.%s not found in %s", rule, fld, p)
			}
		}
	}
	r.count(rule+"/config-fields", len(cfg))
	var fns []*ssa.Function
	for f := range reach {
		fns = append(fns, f)
	}
	sort.Slice(fns, func(i, j int) bool { return fns[i].String() < fns[j].String() })
	bad := 0
	for _, f := range fns {
		// constructors of fields run on the reader side too (Fields(compressionUnknown)); they only STORE the configuration
		for _, b := range f.Blocks {
			for _, ins := range b.Instrs {
				ld, ok := ins.(*ssa.UnOp)
				if !ok || ld.Op != token.MUL {
					continue
				}
				if name, isCfg := cfg[fieldOf(ld.X)]; isCfg {
					bad++
					r.bad(rule, u.FnName(f)+" reads "+name, u.Pos(ld.Pos()), "a function reachable from the reader reads the writer-side configuration field "+name+": decoding would depend on how this process would write, not on what the file says")
				}
			}
		}
	}
	if bad == 0 {
		r.ok(rule, "reader-reachable functions", "", fmt.Sprintf("none of the %d functions reachable from the reader/introspection roots loads any of the %d writer-configuration fields", len(fns), len(cfg)))
	}
	r.floor(rule+"/config-fields", 2+2*len(u.TC), "RequiredField/OptionalField.compression + ParquetWriter.{max,compression} per package")
}

// laExtent: the bytes consumed for a page body derive from that page header's compressed size.
func laExtent(c *Ctx, rule string) {
	r, u := c.R, c.U
	var decomp *codecFn
	for _, cf := range codecSwitches(u) {
		for _, libs := range cf.cases {
			for _, l := range libs {
				if strings.HasSuffix(l, "-") {
					decomp = cf
				}
			}
		}
	}
	if decomp == nil {
		r.failf("%s: decompressor not found", rule)
		return
	}
	_, t, _ := srcAnalysis(c)
	unc := int64(-1)
	for k := range decomp.cases {
		if codecName(u, k) == "UNCOMPRESSED" {
			unc = k
		}
	}
	n := 0
	for k, blk := range decomp.blks {
		{
			for _, ci := range caseRegionCalls(u, decomp.fn, blk) {
				call, ok := ci.(*ssa.Call)
				if !ok || !t.AnyArg(call) {
					continue
				}
				ins := ssa.Instruction(call)
				_ = ins
				name := fullCalleeName(&call.Call)
				var size string
				switch name {
				case "io.ReadFull":
					size = sliceLenExpr(call.Call.Args[1])
				case "io.CopyN":
					size = symExpr(call.Call.Args[2], 0)
				default:
					continue
				}
				n++
				key := fmt.Sprintf("%s codec %s body extent", u.FnName(decomp.fn), codecName(u, k))
				pos := u.Pos(call.Pos())
				switch {
				case strings.Contains(size, ".CompressedPageSize"):
					r.ok(rule, key, pos, "consumes "+size+" bytes")
				case k == unc && strings.Contains(size, ".UncompressedPageSize"):
					r.ok(rule, key, pos, "consumes "+size+" bytes (codec UNCOMPRESSED: both sizes are equal in a conformant file)")
				default:
					r.bad(rule, key, pos, "the number of bytes consumed for the page body ("+size+") does not derive from the page header's compressed_page_size")
				}
			}
		}
	}
	r.count(rule+"/body-reads", n)
	r.floor(rule+"/body-reads", 2, "snappy, gzip, uncompressed")
}

// sliceLenExpr: the length expression of a freshly made slice.
func sliceLenExpr(v ssa.Value) string {
	switch x := v.(type) {
	case *ssa.MakeSlice:
		return symExpr(x.Len, 0)
	case *ssa.Slice:
		if x.High != nil {
			return symExpr(x.High, 0)
		}
		return sliceLenExpr(x.X)
	case *ssa.Phi:
		var out []string
		for _, e := range x.Edges {
			out = append(out, sliceLenExpr(e))
		}
		return strings.Join(out, "|")
	}
	return "len(" + symExpr(v, 0) + ")"
}

func checkC04(c *Ctx) {
	r := c.R
	r.Explanation = "Necessary structural preconditions of C04 only (thin claim): decode-time choices come from the file, never from writer configuration (LA-codec provenance of the codec switch; LA-cfg: no reader-reachable function loads a writer-configuration field); writer and reader pair inverse codec operations; both run kinds and multi-byte run headers are handled by the level decoder (LA-runkind, LA-leb128); a page body's extent is the header's compressed size (LA-extent); level streams are read in the order and with the widths they are written (LA-order); reading is independent of read fragmentation (SR, as C08); the decode path uses no thrift field a conformant writer may omit — statistics, crc, optional offsets — other than the v1 data-page discriminator (LA-optmeta); decoded levels are cut to the page's num_values, non-null and per-page counts are each page's own, chunk descriptors come from the file's column metadata (data_page_offset when the reader positions by it) (LA-trim, LA-nonnull, LA-sizes, LA-pages, SR-count); the generated reader's drivers (TD: Next, constructor, readRowGroup); a page is refused for its level encoding only where the column decodes such levels (FG-over); valid footers are not refused (FOOTER-REJECT) and are located at tail position − length (LA-footer). NOT decided: correctness of level/run/PLAIN decoding, page concatenation and trimming for all legal encodings — that needs an independent writer."
	laCodec(c, "LA-codec")
	laCfg(c, "LA-cfg")
	laExtent(c, "LA-extent")
	laRunKind(c)
	laLEB(c)
	laOrder(c, "LA-order")
	laOptMeta(c, "LA-optmeta")
	laTrim(c, "LA-trim")
	laPages(c, "LA-pages")
	laNonNull(c, "LA-nonnull")
	laSizes(c, "LA-sizes")
	laReadCounter(c, "SR-count")
	runTD(c, "TD", map[string]bool{"reader": true})
	// the generated column types' Read and Scan are part of the reader a foreign file meets
	runFT(c, "FT", map[string]bool{"read": true})
	runTVDriver(c, "TV-driver")
	footerRejects(c, footerPathFns(c))
	laThriftLimits(c, "LA-thrift")
	runFG(c, true)
	r.floor("FG-over/header-consumers", 1, "RequiredField.DoRead, OptionalField.DoRead")
	laFooterMeta(c, "LA-footer", map[string]bool{"rows": true, "seek": true})
	_, t, _ := srcAnalysis(c)
	runSR(c.U, r, t, func(f *ssa.Function) bool { return !c.U.isCtl(f) })
	r.assume("value-level decoding correctness (levels, runs, PLAIN values, page chains) is NOT decided by this check")
}

// --- C16 ---

func checkC16(c *Ctx) {
	r, u := c.R, c.U
	r.Explanation = "Necessary structural conditions of C16 only (thin claim): every Read/Seek failure on the introspection paths (ReadMetaData, PageHeaders, PageHeadersAtOffset) is reported (EP restricted to those functions); the page walk reads one header per iteration, appends exactly that header once, skips exactly its compressed_page_size bytes and advances its value count by that header's num_values; the walk stops by count — for every class of the requested count no path leads from one header read to the next without comparing the values covered with it (LA-walk stops-by-count); PageHeaders visits every column chunk of every row group in order and passes that chunk's own data_page_offset and num_values. every read on those paths is fill-or-fail (SR restricted to them); a valid footer is not refused and is located at tail position − length. Equality with an independent walk of arbitrary files is value-level and NOT decided."
	roots, _, ops := srcAnalysis(c)
	reach := u.reach(roots.intro)
	runEP(u, r, "EP/introspection", ops, fnSet(reach))
	r.floor("EP/introspection/primitive", 4, "getMetaDataSize x2, ReadMetaData x2 (+constructor), PageHeadersAtOffset Seek x2, PageHeader")
	laWalk(c, "LA-walk")
	laThriftLimits(c, "LA-thrift")
	footerRejects(c, footerPathFns(c))
	laFooterMeta(c, "LA-footer", map[string]bool{"seek": true})
	// what the calls report must not depend on how the source fragments its reads either (a footer longer than one read)
	{
		_, t, _ := srcAnalysis(c)
		runSR(c.U, r, t, func(f *ssa.Function) bool { return reach[f] && !c.U.isCtl(f) })
	}
	r.assume("equality of the listing with an independent walk of arbitrary files is value-level and NOT decided")
}

// laWalk: structure of PageHeadersAtOffset and PageHeaders.
func laWalk(c *Ctx, rule string) {
	r, u := c.R, c.U
	hdrFn := u.Func(rtPath, "PageHeader")
	at := u.Func(rtPath, "PageHeadersAtOffset")
	all := u.Func(rtPath, "PageHeaders")
	if hdrFn == nil || at == nil || all == nil {
		r.failf("%s: PageHeader / PageHeadersAtOffset / PageHeaders not found", rule)
		return
	}
	key := u.FnName(at)
	pos := u.Pos(at.Pos())
	// the header of an iteration: read by PageHeader in the walk itself, or by a helper of the walk that returns it
	returnsHeader := func(f *ssa.Function) bool {
		res := f.Signature.Results()
		return res.Len() >= 1 && strings.HasSuffix(res.At(0).Type().String(), "schema.PageHeader")
	}
	// (a header is read wherever the thrift decoder of PageHeader is called, by PageHeader() or by another helper)
	thr := thriftHeaderRead(u)
	reachesHdr := func(f *ssa.Function) bool {
		if f == hdrFn || (thr != nil && callsDirectly(f, thr)) {
			return true
		}
		for g := range u.reach([]*ssa.Function{f}) {
			if g == hdrFn || (thr != nil && callsDirectly(g, thr)) {
				return true
			}
		}
		return false
	}
	var hcalls []*ssa.Call
	for _, b := range at.Blocks {
		for _, ins := range b.Instrs {
			if call, ok := ins.(*ssa.Call); ok {
				if sc := call.Call.StaticCallee(); sc != nil && returnsHeader(sc) && reachesHdr(sc) {
					hcalls = append(hcalls, call)
				}
			}
		}
	}
	if len(hcalls) != 1 {
		r.bad(rule, key+" one-header-per-iteration", pos, fmt.Sprintf("%d header reads in the walk, want exactly 1 per iteration", len(hcalls)))
		return
	}
	hc := hcalls[0]
	var ph ssa.Value
	for _, ref := range *hc.Referrers() {
		if ex, ok := ref.(*ssa.Extract); ok && ex.Index == 0 {
			ph = ex
		}
	}
	inIter := func(ins ssa.Instruction) bool { return hc.Block() == ins.Block() || hc.Block().Dominates(ins.Block()) }
	// appended once
	appends := 0
	for _, b := range at.Blocks {
		for _, ins := range b.Instrs {
			call, ok := ins.(*ssa.Call)
			if !ok {
				continue
			}
			if bi, ok := call.Call.Value.(*ssa.Builtin); ok && bi.Name() == "append" && inIter(call) {
				for _, el := range appendedValues(call) {
					if strings.Contains(symExpr(el, 0), symExpr(ph, 0)) {
						appends++
					}
				}
			}
		}
	}
	if appends == 1 {
		r.ok(rule, key+" append-once", pos, "the header just read is appended exactly once per iteration")
	} else {
		r.bad(rule, key+" append-once", pos, fmt.Sprintf("the header just read is appended %d times per iteration", appends))
	}
	// skip by compressed size, relative to the current position — in the walk, or in the helper that read the header
	skipOK, skipWhy := false, "no Seek over the page body found in the iteration"
	type seekCtx struct {
		fn    *ssa.Function
		hdr   string
		after ssa.Instruction
	}
	ctxs := []seekCtx{{at, symExpr(ph, 0), hc}}
	if sc := hc.Call.StaticCallee(); sc != hdrFn {
		for _, g := range unitFns(u, sc) {
			for _, b := range g.Blocks {
				for _, ins := range b.Instrs {
					if call, ok := ins.(*ssa.Call); ok && call.Call.StaticCallee() == hdrFn {
						if ex := extractOf(call, 0); ex != nil {
							ctxs = append(ctxs, seekCtx{g, symExpr(ex, 0), call})
						}
					}
				}
			}
		}
	}
	for _, cx := range ctxs {
		for _, b := range cx.fn.Blocks {
			for _, ins := range b.Instrs {
				call, ok := ins.(*ssa.Call)
				if !ok || !call.Call.IsInvoke() || call.Call.Method.Name() != "Seek" || !dominatesInstr(cx.after, call) {
					continue
				}
				off := symExpr(call.Call.Args[0], 0)
				wh := call.Call.Args[1]
				switch {
				case !strings.Contains(off, "load("+cx.hdr+".CompressedPageSize)"):
					skipWhy = "the walk skips " + off + " bytes, not the header's compressed_page_size"
				case !constIs(wh, 1):
					skipWhy = "the skip is not relative to the current position (io.SeekCurrent)"
				default:
					skipOK = true
				}
			}
		}
	}
	phs := symExpr(ph, 0)
	if skipOK {
		r.ok(rule, key+" skip-compressed-size", pos, "Seek(int64(ph.CompressedPageSize), io.SeekCurrent)")
	} else {
		r.bad(rule, key+" skip-compressed-size", pos, skipWhy)
	}
	// progress: nRead += ph.DataPageHeader.NumValues
	progOK := false
	for _, b := range at.Blocks {
		for _, ins := range b.Instrs {
			bo, ok := ins.(*ssa.BinOp)
			if !ok || bo.Op != token.ADD || !inIter(bo) {
				continue
			}
			if _, isPhi := bo.X.(*ssa.Phi); isPhi && strings.Contains(symExpr(bo.Y, 0), "load("+phs+".DataPageHeader).NumValues)") {
				progOK = true
			}
		}
	}
	if progOK {
		r.ok(rule, key+" progress", pos, "values covered += that header's num_values")
	} else {
		r.bad(rule, key+" progress", pos, "the count of covered values is not advanced by the header's num_values")
	}
	laWalkStop(c, rule, at, hc)
	// PageHeaders: one call per column chunk, with that chunk's own offset and count, results appended in order
	key = u.FnName(all)
	pos = u.Pos(all.Pos())
	calls := 0
	var allBlocks []*ssa.BasicBlock
	for _, g := range unitFns(u, all) {
		if g != at && !reachesHdr(g) || g == all || (g != at && len(callsTo(g, at.String())) > 0) {
			allBlocks = append(allBlocks, g.Blocks...)
		}
	}
	for _, b := range allBlocks {
		for _, ins := range b.Instrs {
			call, ok := ins.(*ssa.Call)
			if !ok || call.Call.StaticCallee() != at {
				continue
			}
			calls++
			o, n := symExpr(call.Call.Args[1], 0), symExpr(call.Call.Args[2], 0)
			ob, nb := strings.TrimSuffix(o, ".DataPageOffset)"), strings.TrimSuffix(n, ".NumValues)")
			if ob == o || nb == n || ob != nb {
				r.bad(rule, key+" chunk-args", u.Pos(call.Pos()), "the walk is not started with one chunk's own data_page_offset and num_values: "+o+", "+n)
			} else if !strings.Contains(ob, ".Columns") || !strings.Contains(ob, ".RowGroups") {
				r.bad(rule, key+" chunk-args", u.Pos(call.Pos()), "the chunk is not an element of footer.RowGroups[i].Columns[j]: "+ob)
			} else {
				r.ok(rule, key+" chunk-args", u.Pos(call.Pos()), "PageHeadersAtOffset(r, col.MetaData.DataPageOffset, col.MetaData.NumValues) for col in rg.Columns for rg in footer.RowGroups")
			}
		}
	}
	if calls != 1 {
		r.bad(rule, key+" one-walk-per-chunk", pos, fmt.Sprintf("%d walk call sites, want 1 inside the row-group/column loops", calls))
	}
	r.count(rule+"/walk-call-sites", calls)
	r.floor(rule+"/walk-call-sites", 1, "PageHeaders -> PageHeadersAtOffset")
}

// appendedValues: the element values of append(s, e1, e2...) (variadic array resolved), or the spread slice itself.
func appendedValues(call *ssa.Call) []ssa.Value {
	if len(call.Call.Args) != 2 {
		return nil
	}
	if sl, ok := call.Call.Args[1].(*ssa.Slice); ok {
		if al, ok := sl.X.(*ssa.Alloc); ok {
			var out []ssa.Value
			for _, ref := range *al.Referrers() {
				if ia, ok := ref.(*ssa.IndexAddr); ok {
					for _, r2 := range *ia.Referrers() {
						if st, ok := r2.(*ssa.Store); ok && st.Addr == ssa.Value(ia) {
							out = append(out, st.Val)
						}
					}
				}
			}
			if len(out) > 0 {
				return out
			}
		}
	}
	return []ssa.Value{call.Call.Args[1]}
}

// laOptMeta (C04): decoding must not depend on metadata a conformant writer may leave out. Every use — on the reader's
// decode path — of a field of a thrift struct of package schema that is not marked `required` (statistics, crc, key/value
// metadata, encoding stats, optional offsets, …), or of its Get/IsSet accessor, is reported; the one accepted use is the
// union discriminator PageHeader.DataPageHeader, whose presence is what identifies a v1 data page (gated under C18).
func laOptMeta(c *Ctx, rule string) {
	r, u := c.R, c.U
	schPkg := u.Pkgs[rtPath].Imports[schPath]
	if schPkg == nil {
		r.failf("%s: schema package not loaded", rule)
		return
	}
	type optInfo struct{ owner, name string }
	opt := map[*types.Var]optInfo{}
	optByName := map[string]map[string]bool{} // owner type -> optional field names
	scope := schPkg.Types.Scope()
	for _, n := range scope.Names() {
		tn, ok := scope.Lookup(n).(*types.TypeName)
		if !ok {
			continue
		}
		st, ok := tn.Type().Underlying().(*types.Struct)
		if !ok {
			continue
		}
		for i := 0; i < st.NumFields(); i++ {
			tag := reflect.StructTag(st.Tag(i)).Get("thrift")
			if tag == "" || strings.HasSuffix(tag, ",required") {
				continue
			}
			opt[st.Field(i)] = optInfo{n, st.Field(i).Name()}
			if optByName[n] == nil {
				optByName[n] = map[string]bool{}
			}
			optByName[n][st.Field(i).Name()] = true
		}
	}
	r.count(rule+"/optional-fields", len(opt))
	accepted := map[string]string{
		"PageHeader.DataPageHeader": "union discriminator: its presence identifies a v1 data page (tested under C18); every v1 data page carries it",
		"ColumnChunk.MetaData":      "the chunk's metadata (codec, num_values, sizes) has no other home: a file in the supported subset keeps its chunks in the same file and records them here",
	}
	roots := sourceRoots(c)
	reach := u.reach(append([]*ssa.Function{}, roots.reader...))
	var fns []*ssa.Function
	for f := range reach {
		if u.InUniverse(f) && f.Synthetic == "" {
			fns = append(fns, f)
		}
	}
	sort.Slice(fns, func(i, j int) bool { return fns[i].String() < fns[j].String() })
	uses := map[string]string{} // owner.field -> first position
	note := func(owner, name, pos string, f *ssa.Function) {
		k := owner + "." + name + " in " + u.FnName(f)
		if _, dup := uses[k]; !dup {
			uses[k] = pos
		}
	}
	for _, f := range fns {
		for _, b := range f.Blocks {
			for _, ins := range b.Instrs {
				switch x := ins.(type) {
				case *ssa.UnOp:
					if x.Op == token.MUL {
						if oi, ok := opt[fieldOf(x.X)]; ok {
							note(oi.owner, oi.name, u.Pos(x.Pos()), f)
						}
					}
				case *ssa.Field:
					if oi, ok := opt[fieldOf(x)]; ok {
						note(oi.owner, oi.name, u.Pos(x.Pos()), f)
					}
				case ssa.CallInstruction:
					sc := x.Common().StaticCallee()
					if sc == nil || sc.Pkg == nil || sc.Pkg.Pkg.Path() != schPath || sc.Signature.Recv() == nil {
						continue
					}
					owner := ""
					rt := sc.Signature.Recv().Type()
					if p, ok := rt.(*types.Pointer); ok {
						rt = p.Elem()
					}
					if nm, ok := rt.(*types.Named); ok {
						owner = nm.Obj().Name()
					}
					for _, pre := range []string{"Get", "IsSet"} {
						if fld := strings.TrimPrefix(sc.Name(), pre); fld != sc.Name() && optByName[owner][fld] {
							note(owner, fld, u.Pos(x.Pos()), f)
						}
					}
				}
			}
		}
	}
	var keys []string
	for k := range uses {
		keys = append(keys, k)
	}
	sort.Strings(keys)
	nAcc := 0
	for _, k := range keys {
		of := k[:strings.Index(k, " in ")]
		if why, ok := accepted[of]; ok {
			nAcc++
			r.ok(rule, k, uses[k], "accepted: "+why)
			continue
		}
		r.bad(rule, k, uses[k], "the decode path uses "+of+", which a conformant writer may omit (the thrift field is not `required`; an unset value reads as nil/0): what the reader returns would depend on whether the file's writer recorded optional metadata")
	}
	r.count(rule+"/accepted-uses", nAcc)
	r.ok(rule, "reader decode path", "", fmt.Sprintf("%d functions reachable from the generated reader's API scanned for loads of, and Get/IsSet accessors on, the %d non-required thrift fields of package schema", len(fns), len(opt)))
	r.floor(rule+"/optional-fields", 20, "package schema declares dozens of optional fields (statistics, crc, key_value_metadata, …)")
	r.floor(rule+"/accepted-uses", 2, "PageHeader.DataPageHeader (page gate), ColumnChunk.MetaData (Pages / readRowGroup)")
}
