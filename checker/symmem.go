package main

// A tiny symbolic executor for straight-line functions (a chain of blocks without branching): values are printed as
// terms over the function's parameters and the memory it found on entry (`old(recv.F)`), stores update a symbolic
// memory, so that `f.vals = vals; use(f.vals[n:])` and `use(vals[n:]); f.vals = vals` print the same term. Used by the
// field-template rules (FT), whose subjects are a handful of straight-line methods.

import (
	"fmt"
	"go/token"
	"strings"

	"golang.org/x/tools/go/ssa"
)

type symMem struct {
	fn    *ssa.Function
	env   map[ssa.Value]string
	mem   map[string]string
	calls []*ssa.Call
	ok    bool
}

func (m *symMem) addr(v ssa.Value) string {
	switch x := v.(type) {
	case *ssa.FieldAddr:
		if f := fieldOf(x); f != nil {
			if inner, ok := x.X.(*ssa.FieldAddr); ok {
				return m.addr(inner) + "." + roleOf(f) // a field of an embedded / nested struct
			}
			return m.sym(x.X) + "." + roleOf(f)
		}
	case *ssa.Alloc:
		return "cell:" + x.Name()
	case *ssa.IndexAddr:
		return m.sym(x.X) + "[" + m.sym(x.Index) + "]"
	}
	return "addr:" + m.sym(v)
}

func (m *symMem) sym(v ssa.Value) string {
	if s, ok := m.env[v]; ok {
		return s
	}
	switch x := v.(type) {
	case *ssa.Parameter:
		if len(m.fn.Params) > 0 && x == m.fn.Params[0] && m.fn.Signature.Recv() != nil {
			return "recv"
		}
		return "param:" + x.Name()
	case *ssa.Const:
		if x.Value == nil {
			return "nil"
		}
		return x.Value.ExactString()
	case *ssa.Function:
		return x.String()
	case *ssa.Global:
		return x.String()
	case *ssa.Alloc:
		return "cell:" + x.Name()
	case *ssa.FieldAddr, *ssa.IndexAddr:
		return "&" + m.addr(v)
	}
	return v.Name()
}

func symExec(fn *ssa.Function) *symMem {
	m := &symMem{fn: fn, env: map[ssa.Value]string{}, mem: map[string]string{}, ok: true}
	if fn == nil || len(fn.Blocks) == 0 {
		m.ok = false
		return m
	}
	// a straight chain of blocks
	b := fn.Blocks[0]
	seen := map[*ssa.BasicBlock]bool{}
	for b != nil && !seen[b] {
		seen[b] = true
		for _, ins := range b.Instrs {
			m.step(ins)
		}
		switch len(b.Succs) {
		case 0:
			b = nil
		case 1:
			b = b.Succs[0]
		default:
			m.ok = false
			b = nil
		}
	}
	return m
}

func (m *symMem) step(ins ssa.Instruction) {
	switch x := ins.(type) {
	case *ssa.UnOp:
		if x.Op == token.MUL {
			a := m.addr(x.X)
			if cur, ok := m.mem[a]; ok {
				m.env[x] = cur
			} else {
				m.env[x] = "old(" + a + ")"
			}
			return
		}
		m.env[x] = x.Op.String() + m.sym(x.X)
	case *ssa.Store:
		m.mem[m.addr(x.Addr)] = m.sym(x.Val)
	case *ssa.Convert:
		m.env[x] = m.sym(x.X)
	case *ssa.ChangeType:
		m.env[x] = m.sym(x.X)
	case *ssa.MakeInterface:
		m.env[x] = m.sym(x.X)
	case *ssa.BinOp:
		m.env[x] = "(" + m.sym(x.X) + " " + x.Op.String() + " " + m.sym(x.Y) + ")"
	case *ssa.Slice:
		lo, hi := "", ""
		if x.Low != nil {
			lo = m.sym(x.Low)
		}
		if x.High != nil {
			hi = m.sym(x.High)
		}
		m.env[x] = m.sym(x.X) + "[" + lo + ":" + hi + "]"
	case *ssa.MakeSlice:
		m.env[x] = "make(" + m.sym(x.Len) + ")"
	case *ssa.Extract:
		m.env[x] = m.sym(x.Tuple) + "#" + fmt.Sprint(x.Index)
	case *ssa.Field:
		if f := fieldOf(x); f != nil {
			m.env[x] = m.sym(x.X) + "." + roleOf(f)
		}
	case *ssa.Call:
		m.calls = append(m.calls, x)
		var as []string
		for _, a := range callArgs(&x.Call) {
			as = append(as, m.sym(a))
		}
		switch {
		case x.Call.IsInvoke():
			m.env[x] = "invoke " + x.Call.Method.Name() + "(" + strings.Join(as, ", ") + ")"
		case x.Call.StaticCallee() != nil:
			m.env[x] = x.Call.StaticCallee().Name() + "(" + strings.Join(as, ", ") + ")"
		default:
			if bi, ok := x.Call.Value.(*ssa.Builtin); ok {
				m.env[x] = bi.Name() + "(" + strings.Join(as, ", ") + ")"
			} else {
				m.env[x] = "dyn[" + m.sym(x.Call.Value) + "]@" + fmt.Sprint(len(m.calls)) + "(" + strings.Join(as, ", ") + ")"
			}
		}
	case *ssa.Phi:
		m.ok = false
	}
}

// lastComp: the last path component of a term like old(recv.OptionalField.Defs) -> Defs.
func lastComp(s string) string {
	s = strings.TrimSuffix(strings.TrimPrefix(s, "old("), ")")
	if i := strings.LastIndex(s, "."); i >= 0 {
		return s[i+1:]
	}
	return s
}
