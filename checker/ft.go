package main

// FT — field templates (C01, C02, C12): the per-column-type methods that the generator instantiates verbatim from its
// templates (Write, Read, Add, Schema of every *Field type). The repository's own suite runs against checked-in generated
// code, so a slip in these templates passes it unnoticed; each rule below is a necessary condition of the property named,
// decided on the instantiated template code of the template-coverage structs (all column types) for all inputs.

import (
	"fmt"
	"go/constant"
	"go/token"
	"go/types"
	"strings"

	"golang.org/x/tools/go/ssa"
)

// recvFieldLoad: v loads field `name` of the method's receiver (through embedded structs); returns the field.
func recvFieldLoad(fn *ssa.Function, v ssa.Value) *types.Var {
	ld, ok := v.(*ssa.UnOp)
	if !ok || ld.Op != token.MUL {
		return nil
	}
	a := ld.X
	f := fieldOf(a)
	if f == nil {
		return nil
	}
	for {
		fa, ok := a.(*ssa.FieldAddr)
		if !ok {
			break
		}
		a = fa.X
	}
	if len(fn.Params) == 0 || a != ssa.Value(fn.Params[0]) {
		return nil
	}
	return f
}

// lenOfRecvField: v is len(recv.F) (through integer conversions); returns F.
func lenOfRecvField(fn *ssa.Function, v ssa.Value) *types.Var {
	v = stripConvert(v)
	call, ok := v.(*ssa.Call)
	if !ok {
		return nil
	}
	if bi, ok := call.Call.Value.(*ssa.Builtin); !ok || bi.Name() != "len" {
		return nil
	}
	return recvFieldLoad(fn, call.Call.Args[0])
}

// embeds: which runtime field kind the generated type embeds ("OptionalField" / "RequiredField").
func (fi *fieldImpl) kind() string {
	st := fi.named.Underlying().(*types.Struct)
	for i := 0; i < st.NumFields(); i++ {
		if st.Field(i).Embedded() {
			if n, ok := st.Field(i).Type().(*types.Named); ok {
				return n.Obj().Name()
			}
		}
	}
	return ""
}

func callsNamed(fn *ssa.Function, name string) []*ssa.Call {
	var out []*ssa.Call
	for _, b := range fn.Blocks {
		for _, ins := range b.Instrs {
			if c, ok := ins.(*ssa.Call); ok {
				if sc := c.Call.StaticCallee(); sc != nil && sc.Name() == name {
					out = append(out, c)
				}
			}
		}
	}
	return out
}

func extractOf(call *ssa.Call, idx int) ssa.Value {
	if call.Referrers() == nil {
		return nil
	}
	for _, ref := range *call.Referrers() {
		if ex, ok := ref.(*ssa.Extract); ok && ex.Index == idx {
			return ex
		}
	}
	return nil
}

// valuesToRead: v is the number of values a column chunk holds as the reader knows it: pg.N for required columns,
// f.Values() (optionally minus the values already held) for optional ones.
func valuesToRead(fn *ssa.Function, v ssa.Value, optional bool) bool {
	v = stripConvert(v)
	// minus the values already held (none: Read runs once per chunk on fresh column objects)
	if bo, ok := v.(*ssa.BinOp); ok && bo.Op == token.SUB {
		if f := lenOfRecvField(fn, bo.Y); f != nil && f.Name() == "vals" {
			v = stripConvert(bo.X)
		}
	}
	if !optional {
		// field N of the Page parameter
		switch x := v.(type) {
		case *ssa.Field:
			_, isParam := x.X.(*ssa.Parameter)
			return isParam && fieldOf(x) != nil && fieldOf(x).Name() == "N"
		case *ssa.UnOp:
			if fa, ok := x.X.(*ssa.FieldAddr); ok && x.Op == token.MUL && fieldOf(fa) != nil && fieldOf(fa).Name() == "N" {
				// a parameter spilled to a cell
				if al, ok := fa.X.(*ssa.Alloc); ok {
					for _, ref := range *al.Referrers() {
						if st, ok := ref.(*ssa.Store); ok && st.Addr == ssa.Value(al) {
							_, isParam := st.Val.(*ssa.Parameter)
							return isParam
						}
					}
				}
			}
		}
		return false
	}
	isValues := func(y ssa.Value) bool {
		call, ok := stripConvert(y).(*ssa.Call)
		if !ok {
			return false
		}
		sc := call.Call.StaticCallee()
		return sc != nil && sc.Name() == "Values" && len(call.Call.Args) == 1
	}
	return isValues(v)
}

func runFT(c *Ctx, rule string, which map[string]bool) {
	r, u := c.R, c.U
	for _, fi := range fieldImpls(c) {
		short := strings.TrimPrefix(fi.pkg, "uni/") + "." + fi.name
		kind := fi.kind()
		optional := kind == "OptionalField"
		if kind != "OptionalField" && kind != "RequiredField" {
			r.undecided(rule, short, "", "the column type embeds neither parquet.RequiredField nor parquet.OptionalField")
			continue
		}
		r.count(rule+"/column-types", 1)
		isBool := false
		if b, ok := fi.elem.Underlying().(*types.Basic); ok && b.Kind() == types.Bool {
			isBool = true
		}
		isString := false
		if b, ok := fi.elem.Underlying().(*types.Basic); ok && b.Kind() == types.String {
			isString = true
		}

		// --- FT-count: the value count handed to DoWrite ---
		if which["count"] && fi.write != nil {
			key := short + ".Write count"
			pos := u.Pos(fi.write.Pos())
			calls := callsNamed(fi.write, "DoWrite")
			if len(calls) == 0 {
				r.undecided(rule, key, pos, "Write does not call DoWrite")
			}
			for _, call := range calls {
				args := callArgs(&call.Call)
				// (recv, w, meta, vals, count, stats)
				if len(args) != 6 {
					r.undecided(rule, key, u.Pos(call.Pos()), "unexpected DoWrite signature")
					continue
				}
				want := "vals"
				if optional {
					want = "Defs"
				}
				f := lenOfRecvField(fi.write, args[4])
				switch {
				case f == nil:
					r.bad(rule, key, u.Pos(call.Pos()), "the page's value count is "+symExpr(args[4], 0)+", want len(f."+want+")")
				case f.Name() != want:
					r.bad(rule, key, u.Pos(call.Pos()), fmt.Sprintf("the page's value count is len(f.%s), want len(f.%s): num_values of a page counts every level entry, nulls included, for a column with levels, and every value for a required column — the reader cuts the decoded levels to it", f.Name(), want))
				default:
					r.ok(rule, key, u.Pos(call.Pos()), "num_values = len(f."+want+")")
				}
				// bool columns: the payload has ceil(len(vals)/8) bytes
				if isBool {
					k2 := short + ".Write bool payload size"
					ms, _ := args[3].(*ssa.MakeSlice)
					switch {
					case ms == nil:
						r.undecided(rule, k2, u.Pos(call.Pos()), "the bool payload is not a freshly made byte slice")
					case !isCeilDiv8(fi.write, ms.Len):
						r.bad(rule, k2, u.Pos(ms.Pos()), "the bool payload has "+symExpr(ms.Len, 0)+" bytes, want ceil(len(f.vals)/8): a page's value section has exactly the length its value count implies (one spare byte shifts every later page of the chunk)")
					default:
						r.ok(rule, k2, u.Pos(ms.Pos()), "ceil(len(f.vals)/8) bytes")
					}
				}
			}
		}

		// --- FT-delta: Add hands the statistics exactly the record's own values / levels and keeps what read returned ---
		if which["delta"] && fi.add != nil && optional {
			key := short + ".Add"
			pos := u.Pos(fi.add.Pos())
			// the shredder call: dynamic call through the `read` field
			var rd *ssa.Call
			for _, b := range fi.add.Blocks {
				for _, ins := range b.Instrs {
					if cl, ok := ins.(*ssa.Call); ok && !cl.Call.IsInvoke() && cl.Call.StaticCallee() == nil {
						if f := recvFieldLoad(fi.add, cl.Call.Value); f != nil && f.Name() == "read" {
							rd = cl
						}
					}
				}
			}
			if rd == nil {
				r.undecided(rule, key, pos, "Add does not call the column's shredder")
			} else {
				var bad []string
				names := []string{"vals", "Defs", "Reps"}
				if len(rd.Call.Args) != 4 {
					bad = append(bad, "unexpected shredder arity")
				} else {
					if _, ok := rd.Call.Args[0].(*ssa.Parameter); !ok {
						bad = append(bad, "the shredder is not given the caller's record")
					}
					for i, n := range names {
						if f := recvFieldLoad(fi.add, rd.Call.Args[i+1]); f == nil || f.Name() != n {
							bad = append(bad, fmt.Sprintf("shredder argument %d is %s, want f.%s", i+2, symExpr(rd.Call.Args[i+1], 0), n))
						}
					}
				}
				// stores back
				stored := map[string]bool{}
				for _, b := range fi.add.Blocks {
					for _, ins := range b.Instrs {
						st, ok := ins.(*ssa.Store)
						if !ok {
							continue
						}
						f := fieldOf(st.Addr)
						if f == nil {
							continue
						}
						for i, n := range names {
							if f.Name() == n {
								if ex, ok := st.Val.(*ssa.Extract); ok && ex.Tuple == ssa.Value(rd) && ex.Index == i {
									stored[n] = true
								} else {
									bad = append(bad, "f."+n+" is set to "+symExpr(st.Val, 0)+", want result "+fmt.Sprint(i)+" of the shredder")
								}
							}
						}
					}
				}
				for _, n := range names {
					if !stored[n] {
						bad = append(bad, "f."+n+" is not updated from the shredder's result")
					}
				}
				// statistics: add(vals'[len(f.vals):], defs'[len(f.Defs):]) with the lengths taken before the update
				adds := 0
				for _, b := range fi.add.Blocks {
					for _, ins := range b.Instrs {
						cl, ok := ins.(*ssa.Call)
						if !ok || cl.Call.StaticCallee() == nil || cl.Call.StaticCallee().Name() != "add" {
							continue
						}
						adds++
						args := callArgs(&cl.Call)
						if len(args) != 3 {
							bad = append(bad, "unexpected stats.add arity")
							continue
						}
						for i, n := range []string{"vals", "Defs"} {
							sl, ok := args[i+1].(*ssa.Slice)
							okArg := false
							if ok && sl.High == nil {
								if ex, ok := sl.X.(*ssa.Extract); ok && ex.Tuple == ssa.Value(rd) && ex.Index == i {
									if f := lenOfRecvField(fi.add, sl.Low); f != nil && f.Name() == n {
										okArg = true
									}
								}
							}
							if !okArg {
								bad = append(bad, fmt.Sprintf("the statistics receive %s, want only this record's part of the shredder's result %d (result[len(f.%s):]): everything else has been counted by earlier Adds", symExpr(args[i+1], 0), i, n))
							}
						}
						// lengths are those before the update: the stats call precedes the stores (same block order)
						for _, b2 := range fi.add.Blocks {
							for _, ins2 := range b2.Instrs {
								if st, ok := ins2.(*ssa.Store); ok {
									if f := fieldOf(st.Addr); f != nil && (f.Name() == "vals" || f.Name() == "Defs") && dominatesInstr(st, cl) {
										bad = append(bad, "f."+f.Name()+" is updated before the statistics take len(f."+f.Name()+") as the start of the record's part")
									}
								}
							}
						}
					}
				}
				if adds != 1 {
					bad = append(bad, fmt.Sprintf("%d calls of stats.add per record, want 1", adds))
				}
				if len(bad) > 0 {
					r.bad(rule, key, pos, strings.Join(bad, "; "))
				} else {
					r.ok(rule, key, pos, "vals, defs, reps := read(r, f.vals, f.Defs, f.Reps); stats.add(vals[len(f.vals):], defs[len(f.Defs):]); f.vals, f.Defs, f.Reps = vals, defs, reps")
				}
			}
		}

		// --- FT-read: how many values Read decodes, and from what ---
		if which["read"] && fi.read != nil {
			key := short + ".Read"
			pos := u.Pos(fi.read.Pos())
			dr := callsNamed(fi.read, "DoRead")
			if len(dr) != 1 {
				r.undecided(rule, key, pos, fmt.Sprintf("%d calls of DoRead", len(dr)))
			} else {
				rr, sizes := extractOf(dr[0], 0), extractOf(dr[0], 1)
				var bad []string
				decided := false
				switch {
				case isBool:
					gb := callsNamed(fi.read, "GetBools")
					if len(gb) == 1 {
						decided = true
						a := gb[0].Call.Args
						if a[0] != rr {
							bad = append(bad, "GetBools does not read the chunk's bytes returned by DoRead")
						}
						if !valuesToRead(fi.read, a[1], optional) {
							bad = append(bad, "GetBools is asked for "+symExpr(a[1], 0)+" values, want the chunk's value count")
						}
						if a[2] != sizes || sizes == nil {
							bad = append(bad, "GetBools is given "+symExpr(a[2], 0)+" as per-page value counts, want exactly the list DoRead returned (each page's bits start on a byte boundary)")
						}
					}
				case isString:
					// a counted loop around one length-prefixed read: it must run once per value of the chunk
					for _, b := range fi.read.Blocks {
						iff, ok := lastInstr(b).(*ssa.If)
						if !ok {
							continue
						}
						n, isLoop, why := tripCount(iff)
						if !isLoop {
							continue
						}
						decided = true
						if n == nil {
							bad = append(bad, "the value loop: "+why)
						} else if !valuesToRead(fi.read, n, optional) {
							bad = append(bad, "the value loop runs "+symExpr(n, 0)+" times, want once per value of the chunk")
						}
					}
				default:
					for _, b := range fi.read.Blocks {
						for _, ins := range b.Instrs {
							ms, ok := ins.(*ssa.MakeSlice)
							if !ok {
								continue
							}
							if sl, ok := ms.Type().Underlying().(*types.Slice); !ok || !types.Identical(sl.Elem(), fi.elem) {
								continue
							}
							decided = true
							if !valuesToRead(fi.read, ms.Len, optional) {
								bad = append(bad, "Read decodes "+symExpr(ms.Len, 0)+" values, want the chunk's value count")
							}
						}
					}
				}
				switch {
				case !decided:
					r.undecided(rule, key, pos, "the decoding step of Read was not recognised")
				case len(bad) > 0:
					r.bad(rule, key, pos, strings.Join(bad, "; "))
				default:
					r.ok(rule, key, pos, "decodes exactly the chunk's value count from the bytes DoRead returned")
				}
			}
		}

		// --- FT-schema: what the column tells the footer about itself ---
		if which["schema"] {
			fn := u.Func(fi.pkg, fi.name+".Schema")
			key := short + ".Schema"
			if fn == nil {
				r.undecided(rule, key, "", "no Schema method")
				continue
			}
			var bad []string
			seen := map[string]bool{}
			for _, b := range fn.Blocks {
				for _, ins := range b.Instrs {
					st, ok := ins.(*ssa.Store)
					if !ok {
						continue
					}
					f := fieldOf(st.Addr)
					if f == nil || f.Pkg() == nil || f.Pkg().Path() != rtPath {
						continue
					}
					seen[f.Name()] = true
					val := st.Val
					if ct, ok := val.(*ssa.ChangeType); ok {
						val = ct.X
					}
					switch f.Name() {
					case "Name", "Path":
						call, ok := val.(*ssa.Call)
						if !ok || call.Call.StaticCallee() == nil || call.Call.StaticCallee().Name() != f.Name() {
							bad = append(bad, f.Name()+" is "+symExpr(val, 0)+", want f."+f.Name()+"()")
						}
					case "RepetitionType":
						if optional {
							if rf := recvFieldLoad(fn, val); rf == nil || rf.Name() != "RepetitionType" {
								bad = append(bad, "RepetitionType is "+symExpr(val, 0)+", want the column's own (f.RepetitionType, chosen from the last element of its repetition types): a repeated leaf would be declared with another repetition")
							}
						} else if g, ok := val.(*ssa.Function); !ok || g.Name() != "RepetitionRequired" {
							bad = append(bad, "RepetitionType of a required column is "+symExpr(val, 0)+", want parquet.RepetitionRequired")
						}
					case "Types":
						if optional {
							if rf := recvFieldLoad(fn, val); rf == nil || rf.Name() != "Types" {
								bad = append(bad, "Types is "+symExpr(val, 0)+", want f.Types")
							}
						} else {
							ms, ok := val.(*ssa.MakeSlice)
							okLen := false
							if ok {
								if call, ok := stripConvert(ms.Len).(*ssa.Call); ok {
									if bi, ok := call.Call.Value.(*ssa.Builtin); ok && bi.Name() == "len" {
										if pc, ok := call.Call.Args[0].(*ssa.Call); ok && pc.Call.StaticCallee() != nil && pc.Call.StaticCallee().Name() == "Path" {
											okLen = true
										}
									}
								}
							}
							if !okLen {
								bad = append(bad, "Types of a required column is "+symExpr(val, 0)+", want one REQUIRED (zero) entry per path element")
							}
						}
					}
				}
			}
			for _, n := range []string{"Name", "Path", "Type", "RepetitionType", "Types"} {
				if !seen[n] {
					bad = append(bad, n+" is not set")
				}
			}
			if len(bad) > 0 {
				r.bad(rule, key, u.Pos(fn.Pos()), strings.Join(bad, "; "))
			} else {
				r.ok(rule, key, u.Pos(fn.Pos()), "Name, Path, RepetitionType and Types are the column's own")
			}
		}
	}
	r.floor(rule+"/column-types", 16, "16 column types in alltypes")
}

// isCeilDiv8: v = ceil(len(f.vals)/8) in one of the usual forms: (n+7)/8, (n+7)>>3, or n/8 (+1 when n%8 != 0).
func isCeilDiv8(fn *ssa.Function, v ssa.Value) bool {
	isN := func(x ssa.Value) bool {
		f := lenOfRecvField(fn, x)
		return f != nil && f.Name() == "vals"
	}
	isDiv8 := func(x ssa.Value, inner func(ssa.Value) bool) bool {
		bo, ok := x.(*ssa.BinOp)
		if !ok {
			return false
		}
		return (bo.Op == token.QUO && constIs(bo.Y, 8) || bo.Op == token.SHR && constIs(bo.Y, 3)) && inner(bo.X)
	}
	nPlus7 := func(x ssa.Value) bool {
		bo, ok := x.(*ssa.BinOp)
		return ok && bo.Op == token.ADD && (isN(bo.X) && constIs(bo.Y, 7) || isN(bo.Y) && constIs(bo.X, 7))
	}
	v = stripConvert(v)
	if isDiv8(v, nPlus7) {
		return true
	}
	// phi[n/8, n/8 + 1] where the +1 edge is taken exactly when n%8 != 0
	phi, ok := v.(*ssa.Phi)
	if !ok || len(phi.Edges) != 2 {
		return false
	}
	var plain, plus ssa.Value
	for _, e := range phi.Edges {
		if isDiv8(e, isN) {
			plain = e
		} else if bo, ok := e.(*ssa.BinOp); ok && bo.Op == token.ADD && constIs(bo.Y, 1) && isDiv8(bo.X, isN) {
			plus = e
		}
	}
	if plain == nil || plus == nil {
		return false
	}
	pb := plus.(*ssa.BinOp).Block()
	return guarded(pb, func(iff *ssa.If, truth bool) bool {
		return nonZeroTest(iff.Cond, truth, func(q ssa.Value) bool {
			bo, ok := q.(*ssa.BinOp)
			return ok && (bo.Op == token.REM && constIs(bo.Y, 8) || bo.Op == token.AND && constIs(bo.Y, 7)) && isN(bo.X)
		})
	}, 0)
}

// tripCount: iff is the test of a counted loop over a phi; returns the value N such that the body runs exactly N times:
// `for j := 0; j < N; j++` (also j != N) or `for k := N; k > 0; k--` (also k != 0, k >= 1). isLoop is false when the If is
// not a loop test over a stepping phi at all.
func tripCount(iff *ssa.If) (n ssa.Value, isLoop bool, why string) {
	bo, ok := iff.Cond.(*ssa.BinOp)
	if !ok {
		return nil, false, ""
	}
	var phi *ssa.Phi
	var other ssa.Value
	phiLeft := true
	if p, ok := bo.X.(*ssa.Phi); ok && p.Block() == iff.Block() {
		phi, other = p, bo.Y
	} else if p, ok := bo.Y.(*ssa.Phi); ok && p.Block() == iff.Block() {
		phi, other, phiLeft = p, bo.X, false
	}
	if phi == nil || len(phi.Edges) != 2 {
		return nil, false, ""
	}
	var first ssa.Value
	step := int64(0)
	for _, e := range phi.Edges {
		if b2, ok := e.(*ssa.BinOp); ok && b2.X == ssa.Value(phi) && (b2.Op == token.ADD || b2.Op == token.SUB) {
			if k, ok := b2.Y.(*ssa.Const); ok && k.Value != nil {
				kv, _ := constant.Int64Val(k.Value)
				if b2.Op == token.SUB {
					kv = -kv
				}
				step = kv
				continue
			}
		}
		first = e
	}
	if step == 0 || first == nil {
		return nil, false, ""
	}
	op := bo.Op
	if !phiLeft {
		// N > j  ==  j < N
		switch op {
		case token.LSS:
			op = token.GTR
		case token.GTR:
			op = token.LSS
		case token.LEQ:
			op = token.GEQ
		case token.GEQ:
			op = token.LEQ
		}
	}
	switch {
	case step == 1 && constIs(first, 0) && (op == token.LSS || op == token.NEQ):
		return other, true, ""
	case step == -1 && (op == token.GTR && constIs(other, 0) || op == token.NEQ && constIs(other, 0) || op == token.GEQ && constIs(other, 1)):
		return first, true, ""
	}
	return nil, true, "it does not run a fixed number of times in one of the recognised forms (j = 0; j < N; j++ / k = N; k > 0; k--)"
}
