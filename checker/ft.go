package main

// FT — field templates (C01, C02, C12): the per-column-type methods that the generator instantiates verbatim from its
// templates (Write, Read, Add, Schema of every *Field type). The repository's own suite runs against checked-in generated
// code, so a slip in these templates passes it unnoticed; each rule below is a necessary condition of the property named,
// decided on the instantiated template code of the template-coverage structs (all column types) for all inputs.

import (
	"fmt"
	"go/constant"
	"go/token"
	"go/types"
	"regexp"
	"strings"

	"golang.org/x/tools/go/ssa"
)

// recvFieldLoad: v loads field `name` of the method's receiver (through embedded structs); returns the field.
func recvFieldLoad(fn *ssa.Function, v ssa.Value) *types.Var {
	ld, ok := v.(*ssa.UnOp)
	if !ok || ld.Op != token.MUL {
		return nil
	}
	a := ld.X
	f := fieldOf(a)
	if f == nil {
		return nil
	}
	for {
		fa, ok := a.(*ssa.FieldAddr)
		if !ok {
			break
		}
		a = fa.X
	}
	if len(fn.Params) == 0 || a != ssa.Value(fn.Params[0]) {
		return nil
	}
	return f
}

// lenOfRecvField: v is len(recv.F) (through integer conversions); returns F.
func lenOfRecvField(fn *ssa.Function, v ssa.Value) *types.Var {
	v = stripConvert(v)
	if call, ok := v.(*ssa.Call); ok && len(call.Call.Args) == 1 {
		if bi, ok := call.Call.Value.(*ssa.Builtin); ok && bi.Name() == "len" {
			// len of a helper's parameter: what the unit's call site passes
			if a := throughParams(call.Call.Args[0]); a != call.Call.Args[0] {
				if f := fieldOfLoad(a); f != nil {
					return f
				}
			}
		}
	}
	call, ok := v.(*ssa.Call)
	if !ok {
		return nil
	}
	if bi, ok := call.Call.Value.(*ssa.Builtin); !ok || bi.Name() != "len" {
		return nil
	}
	return recvFieldLoad(fn, call.Call.Args[0])
}

// embeds: which runtime field kind the generated type embeds ("OptionalField" / "RequiredField").
func (fi *fieldImpl) kind() string {
	st := fi.named.Underlying().(*types.Struct)
	for i := 0; i < st.NumFields(); i++ {
		if st.Field(i).Embedded() {
			if n, ok := st.Field(i).Type().(*types.Named); ok {
				return n.Obj().Name()
			}
		}
	}
	return ""
}

func callsNamed(fn *ssa.Function, name string) []*ssa.Call {
	var out []*ssa.Call
	for _, b := range fn.Blocks {
		for _, ins := range b.Instrs {
			if c, ok := ins.(*ssa.Call); ok {
				if sc := c.Call.StaticCallee(); sc != nil && sc.Name() == name {
					out = append(out, c)
				}
			}
		}
	}
	return out
}

func extractOf(call *ssa.Call, idx int) ssa.Value {
	if call.Referrers() == nil {
		return nil
	}
	for _, ref := range *call.Referrers() {
		if ex, ok := ref.(*ssa.Extract); ok && ex.Index == idx {
			return ex
		}
	}
	return nil
}

// valuesToRead: v is the number of values a column chunk holds as the reader knows it: pg.N for required columns,
// f.Values() (optionally minus the values already held) for optional ones.
func valuesToRead(fn *ssa.Function, v ssa.Value, optional bool) bool {
	v = stripConvert(v)
	// minus the values already held (none: Read runs once per chunk on fresh column objects)
	if bo, ok := v.(*ssa.BinOp); ok && bo.Op == token.SUB {
		if f := lenOfRecvField(fn, bo.Y); f != nil && roleOf(f) == "vals" {
			v = stripConvert(bo.X)
		}
	}
	if !optional {
		// field N of the Page parameter
		switch x := v.(type) {
		case *ssa.Field:
			_, isParam := x.X.(*ssa.Parameter)
			return isParam && fieldOf(x) != nil && fieldOf(x).Name() == "N"
		case *ssa.UnOp:
			if fa, ok := x.X.(*ssa.FieldAddr); ok && x.Op == token.MUL && fieldOf(fa) != nil && fieldOf(fa).Name() == "N" {
				// a parameter spilled to a cell
				if al, ok := fa.X.(*ssa.Alloc); ok {
					for _, ref := range *al.Referrers() {
						if st, ok := ref.(*ssa.Store); ok && st.Addr == ssa.Value(al) {
							_, isParam := st.Val.(*ssa.Parameter)
							return isParam
						}
					}
				}
			}
		}
		return false
	}
	isValues := func(y ssa.Value) bool {
		call, ok := stripConvert(y).(*ssa.Call)
		if !ok {
			return false
		}
		sc := call.Call.StaticCallee()
		return sc != nil && sc.Name() == "Values" && len(call.Call.Args) == 1
	}
	return isValues(v)
}

func runFT(c *Ctx, rule string, which map[string]bool) {
	r, u := c.R, c.U
	defer func(old map[*ssa.Function]bool) { tpCtx = old }(tpCtx)
	for _, fi := range fieldImpls(c) {
		// helpers shared between column types are resolved at their call site in this type's methods
		tpCtx = map[*ssa.Function]bool{}
		for _, m := range []*ssa.Function{fi.write, fi.read} {
			for _, g := range unitFns(u, m) {
				tpCtx[g] = true
			}
		}
		short := strings.TrimPrefix(fi.pkg, "uni/") + "." + fi.name
		kind := fi.kind()
		optional := kind == "OptionalField"
		if kind != "OptionalField" && kind != "RequiredField" {
			r.undecided(rule, short, "", "the column type embeds neither parquet.RequiredField nor parquet.OptionalField")
			continue
		}
		r.count(rule+"/column-types", 1)
		isBool := false
		if b, ok := fi.elem.Underlying().(*types.Basic); ok && b.Kind() == types.Bool {
			isBool = true
		}
		isString := false
		if b, ok := fi.elem.Underlying().(*types.Basic); ok && b.Kind() == types.String {
			isString = true
		}

		// --- FT-count: the value count handed to DoWrite ---
		if which["count"] && fi.write != nil {
			key := short + ".Write count"
			pos := u.Pos(fi.write.Pos())
			calls := callsNamed(fi.write, "DoWrite")
			if len(calls) == 0 {
				r.undecided(rule, key, pos, "Write does not call DoWrite")
			}
			for _, call := range calls {
				args := callArgs(&call.Call)
				// (recv, w, meta, vals, count, stats)
				if len(args) != 6 {
					r.undecided(rule, key, u.Pos(call.Pos()), "unexpected DoWrite signature")
					continue
				}
				want := "vals"
				if optional {
					want = "Defs"
				}
				got := symLenField(args[4])
				switch {
				case got == "":
					r.bad(rule, key, u.Pos(call.Pos()), "the page's value count is "+symExpr(args[4], 0)+", want len(f."+want+")")
				case got != want:
					r.bad(rule, key, u.Pos(call.Pos()), fmt.Sprintf("the page's value count is len(f.%s), want len(f.%s): num_values of a page counts every level entry, nulls included, for a column with levels, and every value for a required column — the reader cuts the decoded levels to it", got, want))
				default:
					r.ok(rule, key, u.Pos(call.Pos()), "num_values = len(f."+want+")")
				}
				// bool columns: the payload has ceil(len(vals)/8) bytes
				if isBool {
					k2 := short + ".Write bool payload size"
					data, dfn := throughHelperResult(u, fi.write, args[3])
					ms, _ := data.(*ssa.MakeSlice)
					switch {
					case ms == nil:
						r.undecided(rule, k2, u.Pos(call.Pos()), "the bool payload is not a freshly made byte slice")
					case !symCeilDiv8(ms.Len) && !isCeilDiv8(dfn, ms.Len):
						r.bad(rule, k2, u.Pos(ms.Pos()), "the bool payload has "+symExpr(ms.Len, 0)+" bytes, want ceil(len(f.vals)/8): a page's value section has exactly the length its value count implies (one spare byte shifts every later page of the chunk)")
					default:
						r.ok(rule, k2, u.Pos(ms.Pos()), "ceil(len(f.vals)/8) bytes")
					}
				}
			}
		}

		// --- FT-delta: Add hands the statistics exactly the record's own values / levels and keeps what read returned ---
		if which["delta"] && fi.add != nil && optional {
			key := short + ".Add"
			pos := u.Pos(fi.add.Pos())
			m := symExec(fi.add)
			if !m.ok {
				r.undecided(rule, key, pos, "Add is not a straight-line method")
			} else {
				var bad []string
				// the shredder call: a dynamic call through the `read` field
				rdSym := ""
				var rdArgs []string
				nAdd := 0
				var addArgs []string
				for _, cl := range m.calls {
					if !cl.Call.IsInvoke() && cl.Call.StaticCallee() == nil {
						if _, isB := cl.Call.Value.(*ssa.Builtin); !isB && lastComp(m.sym(cl.Call.Value)) == "read" && strings.HasPrefix(m.sym(cl.Call.Value), "old(recv.") {
							rdSym = m.sym(cl)
							for _, a := range cl.Call.Args {
								rdArgs = append(rdArgs, m.sym(a))
							}
						}
					}
					if sc := cl.Call.StaticCallee(); sc != nil && sc.Name() == "add" {
						nAdd++
						addArgs = nil
						for _, a := range callArgs(&cl.Call)[1:] {
							addArgs = append(addArgs, m.sym(a))
						}
					}
				}
				names := []string{"vals", "Defs", "Reps"}
				if rdSym == "" {
					bad = append(bad, "Add does not call the column's shredder")
				} else {
					if len(rdArgs) != 4 || !strings.HasPrefix(rdArgs[0], "param:") {
						bad = append(bad, "the shredder is not given the caller's record")
					}
					for i, n := range names {
						if i+1 < len(rdArgs) && !(strings.HasPrefix(rdArgs[i+1], "old(recv.") && lastComp(rdArgs[i+1]) == n) {
							bad = append(bad, fmt.Sprintf("shredder argument %d is %s, want f.%s", i+2, rdArgs[i+1], n))
						}
					}
					// what the column keeps afterwards
					kept := map[string]string{}
					for a, v := range m.mem {
						if strings.HasPrefix(a, "recv.") {
							kept[lastComp(a)] = v
						}
					}
					for i, n := range names {
						want := fmt.Sprintf("%s#%d", rdSym, i)
						switch got, ok := kept[n]; {
						case !ok:
							bad = append(bad, "f."+n+" is not updated from the shredder's result")
						case got != want:
							bad = append(bad, "f."+n+" is set to "+got+", want result "+fmt.Sprint(i)+" of the shredder")
						}
					}
					// statistics
					switch {
					case nAdd != 1:
						bad = append(bad, fmt.Sprintf("%d calls of stats.add per record, want 1", nAdd))
					case len(addArgs) != 2:
						bad = append(bad, "unexpected stats.add arity")
					default:
						for i, n := range []string{"vals", "Defs"} {
							okArg := false
							pre := fmt.Sprintf("%s#%d[len(", rdSym, i)
							if strings.HasPrefix(addArgs[i], pre) && strings.HasSuffix(addArgs[i], "):]") {
								inner := strings.TrimSuffix(strings.TrimPrefix(addArgs[i], pre), "):]")
								if strings.HasPrefix(inner, "old(recv.") && lastComp(inner) == n {
									okArg = true
								}
							}
							if !okArg {
								bad = append(bad, fmt.Sprintf("the statistics receive %s, want only this record's part of the shredder's result %d (result[len(f.%s before the call):]): everything else has been counted by earlier Adds", addArgs[i], i, n))
							}
						}
					}
				}
				if len(bad) > 0 {
					r.bad(rule, key, pos, strings.Join(bad, "; "))
				} else {
					r.ok(rule, key, pos, "vals, defs, reps := read(r, f.vals, f.Defs, f.Reps); stats.add(vals[len(f.vals):], defs[len(f.Defs):]); f.vals, f.Defs, f.Reps = vals, defs, reps")
				}
			}
		}

		// --- FT-read: how many values Read decodes, and from what ---
		if which["read"] && fi.read != nil {
			key := short + ".Read"
			pos := u.Pos(fi.read.Pos())
			dr := callsNamed(fi.read, "DoRead")
			if len(dr) != 1 {
				r.undecided(rule, key, pos, fmt.Sprintf("%d calls of DoRead", len(dr)))
			} else {
				rr, sizes := extractOf(dr[0], 0), extractOf(dr[0], 1)
				var bad []string
				decided := false
				switch {
				case isBool:
					gb := callsNamed(fi.read, "GetBools")
					if len(gb) == 1 {
						decided = true
						a := gb[0].Call.Args
						if a[0] != rr {
							bad = append(bad, "GetBools does not read the chunk's bytes returned by DoRead")
						}
						if !valuesToRead(fi.read, a[1], optional) && !symValuesToRead(a[1], optional) {
							bad = append(bad, "GetBools is asked for "+symExpr(a[1], 0)+" values, want the chunk's value count")
						}
						if a[2] != sizes || sizes == nil {
							bad = append(bad, "GetBools is given "+symExpr(a[2], 0)+" as per-page value counts, want exactly the list DoRead returned (each page's bits start on a byte boundary)")
						}
					}
				case isString:
					// a counted loop around one length-prefixed read: it must run once per value of the chunk
					for _, b := range fi.read.Blocks {
						iff, ok := lastInstr(b).(*ssa.If)
						if !ok {
							continue
						}
						n, isLoop, why := tripCount(iff)
						if !isLoop {
							continue
						}
						decided = true
						if n == nil {
							bad = append(bad, "the value loop: "+why)
						} else if !valuesToRead(fi.read, n, optional) && !symValuesToRead(n, optional) {
							bad = append(bad, "the value loop runs "+symExpr(n, 0)+" times, want once per value of the chunk")
						}
					}
				default:
					for _, b := range fi.read.Blocks {
						for _, ins := range b.Instrs {
							ms, ok := ins.(*ssa.MakeSlice)
							if !ok {
								continue
							}
							if sl, ok := ms.Type().Underlying().(*types.Slice); !ok || !types.Identical(sl.Elem(), fi.elem) {
								continue
							}
							decided = true
							if !valuesToRead(fi.read, ms.Len, optional) && !symValuesToRead(ms.Len, optional) {
								bad = append(bad, "Read decodes "+symExpr(ms.Len, 0)+" values, want the chunk's value count")
							}
						}
					}
				}
				switch {
				case !decided:
					r.undecided(rule, key, pos, "the decoding step of Read was not recognised")
				case len(bad) > 0:
					r.bad(rule, key, pos, strings.Join(bad, "; "))
				default:
					r.ok(rule, key, pos, "decodes exactly the chunk's value count from the bytes DoRead returned")
				}
			}
		}

		// --- FT-schema: what the column tells the footer about itself ---
		if which["schema"] {
			fn := u.Func(fi.pkg, fi.name+".Schema")
			key := short + ".Schema"
			if fn == nil {
				r.undecided(rule, key, "", "no Schema method")
				continue
			}
			m := symExec(fn)
			if !m.ok {
				r.undecided(rule, key, u.Pos(fn.Pos()), "Schema is not a straight-line method")
				continue
			}
			// the fields of the parquet.Field value built (a local cell)
			got := map[string]string{}
			for a, v := range m.mem {
				if strings.HasPrefix(a, "cell:") && strings.Count(a, ".") == 1 {
					got[a[strings.Index(a, ".")+1:]] = v
				}
			}
			var bad []string
			isCall := func(v, name string) bool { return strings.HasPrefix(v, name+"(") }
			for _, n := range []string{"Name", "Path"} {
				if !isCall(got[n], n) {
					bad = append(bad, n+" is "+got[n]+", want f."+n+"()")
				}
			}
			if optional {
				if v := got["RepetitionType"]; !(strings.HasPrefix(v, "old(recv.") && lastComp(v) == "RepetitionType") {
					bad = append(bad, "RepetitionType is "+v+", want the column's own (f.RepetitionType, chosen from the last element of its repetition types): a repeated leaf would be declared with another repetition")
				}
				if v := got["Types"]; !(strings.HasPrefix(v, "old(recv.") && lastComp(v) == "Types") {
					bad = append(bad, "Types is "+v+", want f.Types")
				}
			} else {
				if v := got["RepetitionType"]; !strings.HasSuffix(v, ".RepetitionRequired") {
					bad = append(bad, "RepetitionType of a required column is "+v+", want parquet.RepetitionRequired")
				}
				if v := got["Types"]; !(strings.HasPrefix(v, "make(len(Path(") && strings.HasSuffix(v, ")))")) {
					bad = append(bad, "Types of a required column is "+v+", want one REQUIRED (zero) entry per path element")
				}
			}
			if got["Type"] == "" {
				bad = append(bad, "Type is not set")
			}
			if len(bad) > 0 {
				r.bad(rule, key, u.Pos(fn.Pos()), strings.Join(bad, "; "))
			} else {
				r.ok(rule, key, u.Pos(fn.Pos()), "Name, Path, RepetitionType and Types are the column's own")
			}
		}
	}
	r.floor(rule+"/column-types", 16, "16 column types in alltypes")
}

// isCeilDiv8: v = ceil(len(f.vals)/8) in one of the usual forms: (n+7)/8, (n+7)>>3, or n/8 (+1 when n%8 != 0).
func isCeilDiv8(fn *ssa.Function, v ssa.Value) bool {
	isN := func(x ssa.Value) bool {
		f := lenOfRecvField(fn, x)
		return f != nil && roleOf(f) == "vals"
	}
	isDiv8 := func(x ssa.Value, inner func(ssa.Value) bool) bool {
		bo, ok := x.(*ssa.BinOp)
		if !ok {
			return false
		}
		return (bo.Op == token.QUO && constIs(bo.Y, 8) || bo.Op == token.SHR && constIs(bo.Y, 3)) && inner(bo.X)
	}
	nPlus7 := func(x ssa.Value) bool {
		bo, ok := x.(*ssa.BinOp)
		return ok && bo.Op == token.ADD && (isN(bo.X) && constIs(bo.Y, 7) || isN(bo.Y) && constIs(bo.X, 7))
	}
	v = stripConvert(v)
	if isDiv8(v, nPlus7) {
		return true
	}
	// phi[n/8, n/8 + 1] where the +1 edge is taken exactly when n%8 != 0
	phi, ok := v.(*ssa.Phi)
	if !ok || len(phi.Edges) != 2 {
		return false
	}
	var plain, plus ssa.Value
	for _, e := range phi.Edges {
		if isDiv8(e, isN) {
			plain = e
		} else if bo, ok := e.(*ssa.BinOp); ok && bo.Op == token.ADD && constIs(bo.Y, 1) && isDiv8(bo.X, isN) {
			plus = e
		}
	}
	if plain == nil || plus == nil {
		return false
	}
	pb := plus.(*ssa.BinOp).Block()
	return guarded(pb, func(iff *ssa.If, truth bool) bool {
		return nonZeroTest(iff.Cond, truth, func(q ssa.Value) bool {
			bo, ok := q.(*ssa.BinOp)
			return ok && (bo.Op == token.REM && constIs(bo.Y, 8) || bo.Op == token.AND && constIs(bo.Y, 7)) && isN(bo.X)
		})
	}, 0)
}

// tripCount: iff is the test of a counted loop over a phi; returns the value N such that the body runs exactly N times:
// `for j := 0; j < N; j++` (also j != N) or `for k := N; k > 0; k--` (also k != 0, k >= 1). isLoop is false when the If is
// not a loop test over a stepping phi at all.
func tripCount(iff *ssa.If) (n ssa.Value, isLoop bool, why string) {
	bo, ok := iff.Cond.(*ssa.BinOp)
	if !ok {
		return nil, false, ""
	}
	var phi *ssa.Phi
	var other ssa.Value
	phiLeft := true
	if p, ok := bo.X.(*ssa.Phi); ok && p.Block() == iff.Block() {
		phi, other = p, bo.Y
	} else if p, ok := bo.Y.(*ssa.Phi); ok && p.Block() == iff.Block() {
		phi, other, phiLeft = p, bo.X, false
	}
	if phi == nil || len(phi.Edges) != 2 {
		return nil, false, ""
	}
	var first ssa.Value
	step := int64(0)
	for _, e := range phi.Edges {
		if b2, ok := e.(*ssa.BinOp); ok && b2.X == ssa.Value(phi) && (b2.Op == token.ADD || b2.Op == token.SUB) {
			if k, ok := b2.Y.(*ssa.Const); ok && k.Value != nil {
				kv, _ := constant.Int64Val(k.Value)
				if b2.Op == token.SUB {
					kv = -kv
				}
				step = kv
				continue
			}
		}
		first = e
	}
	if step == 0 || first == nil {
		return nil, false, ""
	}
	op := bo.Op
	if !phiLeft {
		// N > j  ==  j < N
		switch op {
		case token.LSS:
			op = token.GTR
		case token.GTR:
			op = token.LSS
		case token.LEQ:
			op = token.GEQ
		case token.GEQ:
			op = token.LEQ
		}
	}
	switch {
	case step == 1 && constIs(first, 0) && (op == token.LSS || op == token.NEQ):
		return other, true, ""
	case step == -1 && (op == token.GTR && constIs(other, 0) || op == token.NEQ && constIs(other, 0) || op == token.GEQ && constIs(other, 1)):
		return first, true, ""
	}
	return nil, true, "it does not run a fixed number of times in one of the recognised forms (j = 0; j < N; j++ / k = N; k > 0; k--)"
}

var reLenRecvField = regexp.MustCompile(`^builtin len\(load\(recv\.(?:\w+\.)*(\w+)\)\)$`)

// symLenField: v is len(f.<...>.F) — directly, through a local copy, or through a one-expression helper method of the
// column type; returns F.
func symLenField(v ssa.Value) string {
	m := reLenRecvField.FindStringSubmatch(symExpr(stripConvert(v), 0))
	if m == nil {
		return ""
	}
	return m[1]
}

// f.Values(), or what it is made of: the count of the definition levels held that equal the maximum (LA-nonnull
// validates the counting function itself)
var reValuesCall = regexp.MustCompile(`^\(\*github\.com/parsyl/parquet\.OptionalField\)\.(Values\([^()]*\)|\w+\(&?recv\.OptionalField, load\(recv\.OptionalField\.Defs\), (uint8\()?load\(recv\.OptionalField\.MaxLevels\.Def\)\)?\))$`)

// symValuesToRead: the sym form of valuesToRead.
func symValuesToRead(v ssa.Value, optional bool) bool {
	s := symExpr(stripConvert(v), 0)
	const minus = " - builtin len(load(recv.vals)))"
	if strings.HasPrefix(s, "(") && strings.HasSuffix(s, minus) {
		s = strings.TrimSuffix(strings.TrimPrefix(s, "("), minus)
		for strings.HasPrefix(s, "int(") && strings.HasSuffix(s, ")") {
			s = strings.TrimSuffix(strings.TrimPrefix(s, "int("), ")")
		}
	}
	if optional {
		return reValuesCall.MatchString(s)
	}
	return s == "param:pg.N" || regexp.MustCompile(`^param:\w+\.N$`).MatchString(s)
}

// symCeilDiv8: v = ceil(len(f.vals)/8) written as (n+7)/8 or (n+7)>>3 (possibly in a helper method).
func symCeilDiv8(v ssa.Value) bool {
	s := symExpr(stripConvert(v), 0)
	const L = "builtin len(load(recv.vals))"
	for _, f := range []string{"((" + L + " + 7) / 8)", "((7 + " + L + ") / 8)", "((" + L + " + 7) >> 3)", "((7 + " + L + ") >> 3)"} {
		if s == f {
			return true
		}
	}
	return false
}

// throughHelperResult: when v is the result of a helper method called on the same receiver, the value that helper returns
// (single return statement) and the helper; otherwise v itself.
func throughHelperResult(u *Universe, fn *ssa.Function, v ssa.Value) (ssa.Value, *ssa.Function) {
	for i := 0; i < 3; i++ {
		call, ok := v.(*ssa.Call)
		if !ok {
			return v, fn
		}
		sc := call.Call.StaticCallee()
		if sc == nil || !u.InUniverse(sc) || sc.Blocks == nil || u.pkgPathOf(sc) != u.pkgPathOf(fn) {
			return v, fn
		}
		if sc.Signature.Recv() != nil && (len(call.Call.Args) == 0 || len(fn.Params) == 0 || call.Call.Args[0] != ssa.Value(fn.Params[0])) {
			return v, fn
		}
		var rets []*ssa.Return
		for _, b := range sc.Blocks {
			if ret, ok := lastInstr(b).(*ssa.Return); ok {
				rets = append(rets, ret)
			}
		}
		if len(rets) != 1 || len(rets[0].Results) != 1 {
			return v, fn
		}
		v, fn = rets[0].Results[0], sc
	}
	return v, fn
}
