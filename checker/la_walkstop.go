package main

// LA-walk stop (C16): the page walk of one column chunk stops by count. For every class of the requested value count n
// (the classes are cut by the constants n is compared with), no path leads from one header read to the next without
// passing the comparison of the covered count with n — otherwise the walk of such a chunk runs on into the bytes that
// follow it (the next chunk's pages, the footer) and reports surplus headers or a decoding error.
//
// Decided by enumerating the CFG paths of the walk with n fixed to a representative of each class and every value that
// depends only on n and constants (the "at least one page" flag) evaluated concretely; everything read from the file is
// unknown. A path whose direction depends on an unknown condition other than the count test is not judged.

import (
	"fmt"
	"go/constant"
	"go/token"
	"go/types"
	"sort"
	"strings"

	"golang.org/x/tools/go/ssa"
)

type cval struct {
	known bool
	isB   bool
	b     bool
	i     int64
}

func laWalkStop(c *Ctx, rule string, at *ssa.Function, hc *ssa.Call) {
	r, u := c.R, c.U
	key := u.FnName(at) + " stops-by-count"
	pos := u.Pos(at.Pos())
	// n: the integer parameter that does not position the source
	var nP *ssa.Parameter
	for _, p := range at.Params {
		bt, ok := p.Type().Underlying().(*types.Basic)
		if !ok || bt.Info()&types.IsInteger == 0 {
			continue
		}
		seeks := false
		for _, ref := range *p.Referrers() {
			if call, ok := ref.(*ssa.Call); ok && call.Call.IsInvoke() && call.Call.Method.Name() == "Seek" {
				seeks = true
			}
		}
		if !seeks {
			if nP != nil {
				r.undecided(rule, key, pos, "more than one candidate for the value-count parameter")
				return
			}
			nP = p
		}
	}
	if nP == nil {
		r.undecided(rule, key, pos, "no value-count parameter found")
		return
	}
	unconv := func(v ssa.Value) ssa.Value {
		for {
			cv, ok := v.(*ssa.Convert)
			if !ok {
				return v
			}
			v = cv.X
		}
	}
	// classes of n
	ks := map[int64]bool{0: true, 1: true}
	for _, b := range at.Blocks {
		for _, ins := range b.Instrs {
			if bo, ok := ins.(*ssa.BinOp); ok {
				for _, pr := range [][2]ssa.Value{{bo.X, bo.Y}, {bo.Y, bo.X}} {
					if unconv(pr[0]) == ssa.Value(nP) {
						if k, ok := pr[1].(*ssa.Const); ok && k.Value != nil && k.Value.Kind() == constant.Int {
							v, _ := constant.Int64Val(k.Value)
							for _, d := range []int64{-1, 0, 1} {
								if v+d >= 0 {
									ks[v+d] = true
								}
							}
						}
					}
				}
			}
		}
	}
	var reps []int64
	for k := range ks {
		reps = append(reps, k)
	}
	sort.Slice(reps, func(i, j int) bool { return reps[i] < reps[j] })
	isCountTest := func(v ssa.Value) bool {
		bo, ok := v.(*ssa.BinOp)
		if !ok {
			return false
		}
		switch bo.Op {
		case token.LSS, token.LEQ, token.GTR, token.GEQ:
		default:
			return false
		}
		x, y := unconv(bo.X), unconv(bo.Y)
		_, xc := x.(*ssa.Const)
		_, yc := y.(*ssa.Const)
		return (x == ssa.Value(nP) && !yc) || (y == ssa.Value(nP) && !xc)
	}
	var bad []string
	judged := 0
	for _, n := range reps {
		type state struct {
			env     map[ssa.Value]cval
			reads   int
			tested  bool
			blurred bool
		}
		steps := 0
		var run func(b, pred *ssa.BasicBlock, st state)
		eval := func(env map[ssa.Value]cval, v ssa.Value) cval {
			v = unconv(v)
			if v == ssa.Value(nP) {
				return cval{known: true, i: n}
			}
			if k, ok := v.(*ssa.Const); ok && k.Value != nil {
				switch k.Value.Kind() {
				case constant.Bool:
					return cval{known: true, isB: true, b: constant.BoolVal(k.Value)}
				case constant.Int:
					i, _ := constant.Int64Val(k.Value)
					return cval{known: true, i: i}
				}
			}
			return env[v]
		}
		run = func(b, pred *ssa.BasicBlock, st state) {
			steps++
			if steps > 20000 {
				return
			}
			env := map[ssa.Value]cval{}
			for k, v := range st.env {
				env[k] = v
			}
			st.env = env
			// phis first, simultaneously
			pi := -1
			for i, p := range b.Preds {
				if p == pred {
					pi = i
				}
			}
			upd := map[ssa.Value]cval{}
			for _, ins := range b.Instrs {
				phi, ok := ins.(*ssa.Phi)
				if !ok {
					break
				}
				if pi >= 0 {
					upd[phi] = eval(env, phi.Edges[pi])
				} else {
					upd[phi] = cval{}
				}
			}
			for k, v := range upd {
				env[k] = v
			}
			for _, ins := range b.Instrs {
				switch x := ins.(type) {
				case *ssa.Phi:
				case *ssa.UnOp:
					delete(env, x)
					if x.Op == token.NOT {
						if a := eval(env, x.X); a.known && a.isB {
							env[x] = cval{known: true, isB: true, b: !a.b}
						}
					}
				case *ssa.BinOp:
					delete(env, x)
					a, bb := eval(env, x.X), eval(env, x.Y)
					if a.known && bb.known && !a.isB && !bb.isB {
						switch x.Op {
						case token.ADD:
							env[x] = cval{known: true, i: a.i + bb.i}
						case token.SUB:
							env[x] = cval{known: true, i: a.i - bb.i}
						case token.EQL:
							env[x] = cval{known: true, isB: true, b: a.i == bb.i}
						case token.NEQ:
							env[x] = cval{known: true, isB: true, b: a.i != bb.i}
						case token.LSS:
							env[x] = cval{known: true, isB: true, b: a.i < bb.i}
						case token.LEQ:
							env[x] = cval{known: true, isB: true, b: a.i <= bb.i}
						case token.GTR:
							env[x] = cval{known: true, isB: true, b: a.i > bb.i}
						case token.GEQ:
							env[x] = cval{known: true, isB: true, b: a.i >= bb.i}
						}
					} else if a.known && bb.known && a.isB && bb.isB {
						switch x.Op {
						case token.EQL:
							env[x] = cval{known: true, isB: true, b: a.b == bb.b}
						case token.NEQ:
							env[x] = cval{known: true, isB: true, b: a.b != bb.b}
						}
					}
				case *ssa.Call:
					if x == hc {
						st.reads++
						if st.reads >= 2 {
							judged++
							if !st.tested && !st.blurred {
								bad = append(bad, fmt.Sprintf("n = %d", n))
							}
							return
						}
						st.tested = false
						st.blurred = false
					}
				case *ssa.If:
					cv := eval(env, x.Cond)
					if cv.known && cv.isB {
						if cv.b {
							run(b.Succs[0], b, st)
						} else {
							run(b.Succs[1], b, st)
						}
						return
					}
					ns := st
					if isCountTest(x.Cond) {
						ns.tested = true
					} else if st.reads >= 1 && !isErrTest(x.Cond) {
						ns.blurred = true
					}
					run(b.Succs[0], b, ns)
					run(b.Succs[1], b, ns)
					return
				case *ssa.Jump:
					run(b.Succs[0], b, st)
					return
				case *ssa.Return, *ssa.Panic:
					return
				}
			}
		}
		run(at.Blocks[0], nil, state{env: map[ssa.Value]cval{}})
	}
	r.count(rule+"/count-classes", len(reps))
	seen := map[string]bool{}
	var uniq []string
	for _, b := range bad {
		if !seen[b] {
			seen[b] = true
			uniq = append(uniq, b)
		}
	}
	switch {
	case len(uniq) > 0:
		r.bad(rule, key, pos, "for "+strings.Join(uniq, ", ")+" a path leads from one header read to the next without comparing the values covered with the requested count: the walk of such a chunk runs on into the bytes that follow it")
	case judged == 0:
		r.ok(rule, key, pos, "no path reads a second header without an undecided condition in between (not judged)")
	default:
		r.ok(rule, key, pos, fmt.Sprintf("for each class of n (%v) every path from one header read to the next passes the comparison of the covered count with n", reps))
	}
}

// isErrTest: err != nil / err == nil (the failing edge returns; it does not blur the judgement of the walk).
func isErrTest(v ssa.Value) bool {
	bo, ok := v.(*ssa.BinOp)
	if !ok || (bo.Op != token.NEQ && bo.Op != token.EQL) {
		return false
	}
	return (isNilConst(bo.Y) && isErrorType(bo.X.Type())) || (isNilConst(bo.X) && isErrorType(bo.Y.Type()))
}
