package main

// C01 — necessary conditions of the round trip that are static choices shared by
// writer and reader: LA-plain (PLAIN value layout per element type), LA-alias
// (no retained caller memory, no handed-out internal buffers), LA-codec, LA-order.
// C15 — LA-types.

import (
	"fmt"
	"go/ast"
	"go/constant"
	"go/token"
	"go/types"
	"sort"
	"strings"

	"golang.org/x/tools/go/ssa"
)

func init() {
	register("C01", "other", LoadOpts{TC: true, SSA: true, Controls: []string{"overlap"}}, checkC01)
	register("C15", "other", LoadOpts{TC: true, SSA: true, Gen: true, Controls: []string{"cells", "cells2"}}, checkC15)
}

type fieldImpl struct {
	pkg   string
	name  string
	named *types.Named
	elem  types.Type
	vals  *types.Var
	write *ssa.Function
	read  *ssa.Function
	add   *ssa.Function
	scan  *ssa.Function
}

func fieldImpls(c *Ctx) []*fieldImpl {
	u := c.U
	var out []*fieldImpl
	for _, path := range u.TC {
		sp := u.SSAPkgs[path]
		fi := sp.Pkg.Scope().Lookup("Field")
		if fi == nil {
			c.R.failf("Field interface missing in %s", path)
			continue
		}
		it := fi.Type().Underlying().(*types.Interface)
		var names []string
		for n := range sp.Members {
			names = append(names, n)
		}
		sort.Strings(names)
		for _, n := range names {
			tm, ok := sp.Members[n].(*ssa.Type)
			if !ok {
				continue
			}
			named, ok := tm.Type().(*types.Named)
			if !ok {
				continue
			}
			st, ok := named.Underlying().(*types.Struct)
			if !ok || !types.Implements(types.NewPointer(named), it) {
				continue
			}
			f := &fieldImpl{pkg: path, name: n, named: named}
			for i := 0; i < st.NumFields(); i++ {
				if roleOf(st.Field(i)) == "vals" {
					if sl, ok := st.Field(i).Type().Underlying().(*types.Slice); ok {
						f.elem = sl.Elem()
						f.vals = st.Field(i)
					}
				}
			}
			f.write, f.read = u.Func(path, n+".Write"), u.Func(path, n+".Read")
			f.add, f.scan = u.Func(path, n+".Add"), u.Func(path, n+".Scan")
			out = append(out, f)
		}
	}
	return out
}

// unitFns: fn together with the helper functions of its own package it (transitively) calls — a method split into
// helpers is still one unit of template code.
func unitFns(u *Universe, fn *ssa.Function) []*ssa.Function {
	if fn == nil {
		return nil
	}
	out := []*ssa.Function{fn}
	seen := map[*ssa.Function]bool{fn: true}
	for i := 0; i < len(out) && i < 12; i++ {
		for _, b := range out[i].Blocks {
			for _, ins := range b.Instrs {
				if call, ok := ins.(ssa.CallInstruction); ok {
					if sc := call.Common().StaticCallee(); sc != nil && !seen[sc] && sc.Blocks != nil && sc.Synthetic == "" && u.pkgPathOf(sc) == u.pkgPathOf(fn) {
						seen[sc] = true
						out = append(out, sc)
					}
				}
			}
		}
	}
	return out
}

func putCallsU(u *Universe, fn *ssa.Function) []*ssa.Call {
	var out []*ssa.Call
	for _, f := range unitFns(u, fn) {
		out = append(out, putCalls(f)...)
	}
	return out
}

func callsToU(u *Universe, fn *ssa.Function, full string) []*ssa.Call {
	var out []*ssa.Call
	for _, f := range unitFns(u, fn) {
		out = append(out, callsTo(f, full)...)
	}
	return out
}

func isLE(v ssa.Value) bool { return strings.Contains(symExpr(v, 0), "binary.LittleEndian") }

// isValsElem: v is an element of the receiver's vals slice (load of &vals[i]).
func (f *fieldImpl) isValsElem(v ssa.Value) bool {
	v = throughParams(v)
	ld, ok := v.(*ssa.UnOp)
	if !ok || ld.Op != token.MUL {
		return false
	}
	ia, ok := ld.X.(*ssa.IndexAddr)
	if !ok {
		return false
	}
	return fieldOfLoad(throughParams(ia.X)) == f.vals
}

func laPlain(c *Ctx, rule string) {
	r, u := c.R, c.U
	for _, f := range fieldImpls(c) {
		key := strings.TrimPrefix(f.pkg, "uni/") + "." + f.name
		if f.elem == nil || f.write == nil || f.read == nil {
			r.undecided(rule, key, "", "field type without vals slice / Write / Read")
			continue
		}
		r.count(rule+"/field-types", 1)
		b, _ := f.elem.Underlying().(*types.Basic)
		switch {
		case b == nil:
			r.bad(rule, key, u.Pos(f.write.Pos()), "column values are not of a primitive type: "+f.elem.String())
		case b.Kind() == types.Bool:
			withUnitCtx(u, []*ssa.Function{f.write, f.read}, func() { plainBool(c, rule, key, f) })
		case b.Info()&types.IsString != 0:
			withUnitCtx(u, []*ssa.Function{f.write, f.read}, func() { plainString(c, rule, key, f) })
		default:
			withUnitCtx(u, []*ssa.Function{f.write, f.read}, func() { plainNumeric(c, rule, key, f) })
		}
	}
	r.floor(rule+"/field-types", 16, "all 16 field templates in alltypes")
}

func putCalls(fn *ssa.Function) []*ssa.Call {
	var out []*ssa.Call
	for _, b := range fn.Blocks {
		for _, ins := range b.Instrs {
			if call, ok := ins.(*ssa.Call); ok {
				if sc := call.Call.StaticCallee(); sc != nil && strings.HasPrefix(sc.Name(), "PutUint") && strings.Contains(sc.String(), "encoding/binary") {
					out = append(out, call)
				}
			}
		}
	}
	return out
}

func fixedBufLen(v ssa.Value) int {
	switch x := v.(type) {
	case *ssa.Slice:
		if al, ok := x.X.(*ssa.Alloc); ok {
			if arr, ok := al.Type().(*types.Pointer).Elem().Underlying().(*types.Array); ok {
				return int(arr.Len())
			}
		}
	case *ssa.MakeSlice:
		if k, ok := x.Len.(*ssa.Const); ok && k.Value != nil {
			n, _ := constant.Int64Val(k.Value)
			return int(n)
		}
	}
	return -1
}

func plainNumeric(c *Ctx, rule, key string, f *fieldImpl) {
	r, u := c.R, c.U
	size := sizeofBasic(f.elem)
	// writer
	var bad []string
	puts := putCallsU(u, f.write)
	wpos := u.Pos(f.write.Pos())
	if len(puts) != 1 {
		bad = append(bad, fmt.Sprintf("%d PutUintNN calls in Write, want 1 per value", len(puts)))
	} else {
		p := puts[0]
		wpos = u.Pos(p.Pos())
		var bits int
		fmt.Sscanf(p.Call.StaticCallee().Name(), "PutUint%d", &bits)
		args := p.Call.Args
		bs, x := args[len(args)-2], args[len(args)-1]
		if !strings.Contains(p.Call.StaticCallee().String(), "littleEndian") {
			bad = append(bad, "values are not written little-endian")
		}
		if n := fixedBufLen(throughParams(bs)); n != size || bits != 8*size {
			bad = append(bad, fmt.Sprintf("a %s value (%d bytes) is written with %s into a %d-byte buffer", f.elem, size, p.Call.StaticCallee().Name(), n))
		}
		conv := "identity"
		v := x
		for i := 0; i < 4; i++ {
			switch y := v.(type) {
			case *ssa.Convert:
				if isFloat(y.X.Type()) || isFloat(y.Type()) {
					bad = append(bad, "a numeric float<->integer conversion changes the bit pattern (NaN payloads, -0 are lost)")
				} else if sizeofBasic(y.X.Type()) != sizeofBasic(y.Type()) {
					bad = append(bad, fmt.Sprintf("conversion %s -> %s changes the width", y.X.Type(), y.Type()))
				}
				conv = "same-width integer conversion"
				v = y.X
				continue
			case *ssa.Call:
				if sc := y.Call.StaticCallee(); sc != nil && sc.Pkg != nil && sc.Pkg.Pkg.Path() == "math" && (sc.Name() == "Float32bits" || sc.Name() == "Float64bits") {
					conv = "math." + sc.Name()
					v = y.Call.Args[0]
					continue
				}
			}
			break
		}
		if !f.isValsElem(v) {
			bad = append(bad, "the encoded value is not an element of the column's value slice: "+symExpr(v, 0))
		}
		// the buffer must then be appended to the page buffer
		written := false
		for _, b := range p.Parent().Blocks {
			for _, ins := range b.Instrs {
				if call, ok := ins.(*ssa.Call); ok && strings.HasSuffix(fullCalleeName(&call.Call), "ByteBuffer).Write") && len(call.Call.Args) == 2 {
					if (call.Call.Args[1] == bs || symExpr(call.Call.Args[1], 0) == symExpr(bs, 0)) && dominatesInstr(p, call) {
						written = true
					}
				}
			}
		}
		if !written {
			bad = append(bad, "the encoded bytes are not appended to the page buffer after encoding")
		}
		if len(bad) == 0 {
			r.ok(rule, key+" write", wpos, fmt.Sprintf("%d-byte little-endian, %s of each element of vals", size, conv))
		}
	}
	if len(bad) > 0 {
		r.bad(rule, key+" write", wpos, strings.Join(bad, "; "))
	}
	// reader
	bad = nil
	rpos := u.Pos(f.read.Pos())
	rds := callsToU(u, f.read, "encoding/binary.Read")
	if len(rds) != 1 {
		bad = append(bad, fmt.Sprintf("%d binary.Read calls in Read, want 1", len(rds)))
	} else {
		rd := rds[0]
		rpos = u.Pos(rd.Pos())
		if !isLE(rd.Call.Args[1]) {
			bad = append(bad, "values are not read little-endian")
		}
		dst := rd.Call.Args[2]
		if mi, ok := dst.(*ssa.MakeInterface); ok {
			dst = mi.X
		}
		var et types.Type
		if p, ok := dst.Type().Underlying().(*types.Pointer); ok {
			if sl, ok := p.Elem().Underlying().(*types.Slice); ok {
				et = sl.Elem()
			}
		}
		if et == nil || !types.Identical(et, f.elem) {
			bad = append(bad, fmt.Sprintf("values are decoded into %s, the column holds %s", dst.Type(), f.elem))
		}
		// appended to vals
		stored := false
		for _, b := range rd.Parent().Blocks {
			for _, ins := range b.Instrs {
				if st, ok := ins.(*ssa.Store); ok && fieldOf(st.Addr) == f.vals {
					if call, ok := st.Val.(*ssa.Call); ok {
						if bi, ok := call.Call.Value.(*ssa.Builtin); ok && bi.Name() == "append" && fieldOfLoad(call.Call.Args[0]) == f.vals {
							if ld, ok := call.Call.Args[1].(*ssa.UnOp); ok && ld.X == dst {
								stored = true
							}
						}
					}
				}
			}
		}
		if !stored {
			bad = append(bad, "the decoded slice is not appended to the column's values")
		}
	}
	if len(bad) > 0 {
		r.bad(rule, key+" read", rpos, strings.Join(bad, "; "))
	} else {
		r.ok(rule, key+" read", rpos, "binary.Read little-endian into []"+f.elem.String()+", appended to vals")
	}
}

func plainString(c *Ctx, rule, key string, f *fieldImpl) {
	r, u := c.R, c.U
	var bad []string
	wpos := u.Pos(f.write.Pos())
	puts := putCallsU(u, f.write)
	prefix := 0
	if len(puts) != 1 {
		bad = append(bad, fmt.Sprintf("%d PutUintNN calls in Write, want 1 (the length prefix)", len(puts)))
	} else {
		p := puts[0]
		wpos = u.Pos(p.Pos())
		var bits int
		fmt.Sscanf(p.Call.StaticCallee().Name(), "PutUint%d", &bits)
		prefix = bits / 8
		args := p.Call.Args
		bs, x := args[len(args)-2], args[len(args)-1]
		if !strings.Contains(p.Call.StaticCallee().String(), "littleEndian") {
			bad = append(bad, "length prefix is not written little-endian")
		}
		if fixedBufLen(throughParams(bs)) != prefix {
			bad = append(bad, fmt.Sprintf("length prefix buffer has %d bytes, %s writes %d", fixedBufLen(throughParams(bs)), p.Call.StaticCallee().Name(), prefix))
		}
		// x = uintNN(len(s)) where s is an element of vals
		v := x
		if cv, ok := v.(*ssa.Convert); ok {
			v = cv.X
		}
		var s ssa.Value
		if call, ok := v.(*ssa.Call); ok {
			if bi, ok := call.Call.Value.(*ssa.Builtin); ok && bi.Name() == "len" {
				s = call.Call.Args[0]
			}
		}
		if s == nil || !f.isValsElem(s) {
			bad = append(bad, "length prefix is not the length of the string being written")
		}
		// order: prefix bytes, then the string's bytes
		var wPrefix, wBody ssa.Instruction
		for _, b := range p.Parent().Blocks {
			for _, ins := range b.Instrs {
				call, ok := ins.(*ssa.Call)
				if !ok {
					continue
				}
				n := fullCalleeName(&call.Call)
				if strings.HasSuffix(n, "ByteBuffer).Write") && len(call.Call.Args) == 2 && (call.Call.Args[1] == bs || symExpr(call.Call.Args[1], 0) == symExpr(bs, 0)) {
					wPrefix = call
				}
				if strings.HasSuffix(n, "ByteBuffer).WriteString") && len(call.Call.Args) == 2 && s != nil && (call.Call.Args[1] == s || symExpr(call.Call.Args[1], 0) == symExpr(s, 0)) {
					wBody = call
				}
			}
		}
		if wPrefix == nil || wBody == nil || !dominatesInstr(p, wPrefix) || !dominatesInstr(wPrefix, wBody) {
			bad = append(bad, "the page buffer does not receive the length prefix followed by the bytes of the same string")
		}
	}
	if len(bad) > 0 {
		r.bad(rule, key+" write", wpos, strings.Join(bad, "; "))
	} else {
		r.ok(rule, key+" write", wpos, fmt.Sprintf("%d-byte little-endian length, then the string's bytes", prefix))
	}
	// reader
	bad = nil
	rpos := u.Pos(f.read.Pos())
	rds := callsToU(u, f.read, "encoding/binary.Read")
	if len(rds) != 1 {
		bad = append(bad, fmt.Sprintf("%d binary.Read calls in Read, want 1 (the length prefix)", len(rds)))
	} else {
		rd := rds[0]
		rpos = u.Pos(rd.Pos())
		if !isLE(rd.Call.Args[1]) {
			bad = append(bad, "length prefix is not read little-endian")
		}
		dst := rd.Call.Args[2]
		if mi, ok := dst.(*ssa.MakeInterface); ok {
			dst = mi.X
		}
		cell, _ := dst.(*ssa.Alloc)
		if cell == nil {
			bad = append(bad, "length prefix is not read into a local variable")
		} else {
			lt := cell.Type().(*types.Pointer).Elem()
			if prefix != 0 && sizeofBasic(lt) != prefix {
				bad = append(bad, fmt.Sprintf("length prefix is written with %d bytes and read as %s", prefix, lt))
			}
			// make([]byte, x); Read into it; string(bytes) appended to vals
			okBuf, okRead, okApp := false, false, false
			for _, b := range rd.Parent().Blocks {
				for _, ins := range b.Instrs {
					ms, ok := ins.(*ssa.MakeSlice)
					if !ok {
						continue
					}
					l := ms.Len
					if cv, ok := l.(*ssa.Convert); ok {
						l = cv.X
					}
					if ld, ok := l.(*ssa.UnOp); !ok || ld.X != ssa.Value(cell) {
						continue
					}
					okBuf = true
					for _, ref := range *ms.Referrers() {
						switch y := ref.(type) {
						case *ssa.Call:
							if (y.Call.IsInvoke() && y.Call.Method.Name() == "Read") || fullCalleeName(&y.Call) == "io.ReadFull" {
								okRead = true
							}
						case *ssa.Convert:
							if flowsToField(y, f.vals.Name(), 0) || storedIntoVarargsThenField(y, f.vals) {
								okApp = true
							}
							// returned by a helper: what the call sites do with the result
							for _, r2 := range *y.Referrers() {
								ret, isRet := r2.(*ssa.Return)
								if !isRet {
									continue
								}
								for ri, rv := range ret.Results {
									if rv != ssa.Value(y) {
										continue
									}
									for _, cs := range callersOf(rd.Parent()) {
										cv, isVal := cs.(*ssa.Call)
										if !isVal {
											continue
										}
										var res ssa.Value = cv
										if len(ret.Results) > 1 {
											res = extractOf(cv, ri)
										}
										if res != nil && (flowsToField(res, f.vals.Name(), 0) || storedIntoVarargsThenField(res, f.vals)) {
											okApp = true
										}
									}
								}
							}
						}
					}
				}
			}
			if !okBuf || !okRead || !okApp {
				bad = append(bad, "the reader does not read exactly `length` bytes and append them as a string to the column's values")
			}
		}
	}
	if len(bad) > 0 {
		r.bad(rule, key+" read", rpos, strings.Join(bad, "; "))
	} else {
		r.ok(rule, key+" read", rpos, "little-endian length of the same width, that many bytes, appended as a string")
	}
}

func storedIntoVarargsThenField(v ssa.Value, fld *types.Var) bool {
	for _, ref := range *v.Referrers() {
		if st, ok := ref.(*ssa.Store); ok {
			if ia, ok := st.Addr.(*ssa.IndexAddr); ok {
				if al, ok := ia.X.(*ssa.Alloc); ok {
					for _, r2 := range *al.Referrers() {
						if sl, ok := r2.(*ssa.Slice); ok && flowsToField(sl, fld.Name(), 0) {
							return true
						}
					}
				}
			}
		}
	}
	return false
}

func plainBool(c *Ctx, rule, key string, f *fieldImpl) {
	r, u := c.R, c.U
	// writer: buf[i/8] |= 1 << (i%8), guarded by vals[i]
	var bad []string
	wpos := u.Pos(f.write.Pos())
	found := false
	var wblocks []*ssa.BasicBlock
	for _, g := range unitFns(u, f.write) {
		wblocks = append(wblocks, g.Blocks...)
	}
	for _, b := range wblocks {
		for _, ins := range b.Instrs {
			st, ok := ins.(*ssa.Store)
			if !ok {
				continue
			}
			ia, ok := st.Addr.(*ssa.IndexAddr)
			if !ok {
				continue
			}
			if w, _ := intWidth(st.Val.Type()); w != 8 {
				continue
			}
			or, ok := st.Val.(*ssa.BinOp)
			if !ok || or.Op != token.OR {
				continue
			}
			found = true
			wpos = u.Pos(st.Pos())
			q, ok := ia.Index.(*ssa.BinOp)
			if !ok || !((q.Op == token.QUO && constIs(q.Y, 8)) || (q.Op == token.SHR && constIs(q.Y, 3))) {
				bad = append(bad, "bit for value i is not stored in byte i/8")
				continue
			}
			i := q.X
			var sh *ssa.BinOp
			for _, o := range []ssa.Value{or.X, or.Y} {
				v := o
				if cv, ok := v.(*ssa.Convert); ok {
					v = cv.X
				}
				if s2, ok := v.(*ssa.BinOp); ok && s2.Op == token.SHL {
					sh = s2
				}
			}
			if sh == nil || !constIs(sh.X, 1) {
				bad = append(bad, "the stored bit is not 1 << k")
				continue
			}
			k := sh.Y
			if cv, ok := k.(*ssa.Convert); ok {
				k = cv.X
			}
			rem, ok := k.(*ssa.BinOp)
			if !ok || !((rem.Op == token.REM && constIs(rem.Y, 8)) || (rem.Op == token.AND && constIs(rem.Y, 7))) || rem.X != i {
				bad = append(bad, "bit for value i is not bit i%8 (LSB first)")
			}
			// guarded by vals[i]
			okG := guarded(st.Block(), func(iff *ssa.If, truth bool) bool {
				cond := iff.Cond
				// `if !vals[i] { continue }`
				if not, ok := cond.(*ssa.UnOp); ok && not.Op == token.NOT {
					cond, truth = not.X, !truth
				}
				ld, ok := cond.(*ssa.UnOp)
				if !ok || !truth || ld.Op != token.MUL {
					return false
				}
				ia2, ok := ld.X.(*ssa.IndexAddr)
				return ok && ia2.Index == i && fieldOfLoad(throughParams(ia2.X)) == f.vals
			}, 0)
			if !okG {
				bad = append(bad, "the bit is not set exactly when vals[i] is true")
			}
		}
	}
	if !found {
		bad = append(bad, "no bit-packing store found in Write")
	}
	if len(bad) > 0 {
		r.bad(rule, key+" write", wpos, strings.Join(bad, "; "))
	} else {
		r.ok(rule, key+" write", wpos, "value i -> bit i%8 of byte i/8, LSB first")
	}
	// reader: goes through parquet.GetBools, whose unpacker yields bit k of the byte as element k
	rpos := u.Pos(f.read.Pos())
	if len(callsToU(u, f.read, rtPath+".GetBools")) != 1 {
		r.bad(rule, key+" read", rpos, "bool columns are not decoded through parquet.GetBools")
		return
	}
	if why := unpackBoolsOrder(u); why != "" {
		r.bad(rule, key+" read", rpos, why)
	} else {
		r.ok(rule, key+" read", rpos, "GetBools/unpackBools: element k of each byte is bit k (LSB first)")
	}
	if why := boolPadding(u); why != "" {
		r.bad(rule, key+" read padding", rpos, why)
	} else {
		r.ok(rule, key+" read padding", rpos, "the number of values taken from a byte is bounded by what is left of the page's count")
	}
}

// boolPadding: in GetBools the number of elements taken from one unpacked byte is bounded by the page's REMAINING value
// count. The defect this decides: the bound is min(X, 8) (or X itself) with X not changing from byte to byte of a page —
// then every byte of a page of more than 8 values yields the same number of values and the padding bits of its last
// byte are decoded as values. Other forms of the bound are not judged.
func boolPadding(u *Universe) string {
	gb := u.Func(rtPath, "GetBools")
	if gb == nil {
		return "parquet.GetBools not found"
	}
	ucall := boolUnpackCall(u, gb)
	if ucall == nil {
		return ""
	}
	// the byte loop: blocks on a cycle through the unpack call
	inLoop := map[*ssa.BasicBlock]bool{}
	for _, x := range reachableBlocks(ucall.Block()) {
		for _, y := range reachableBlocks(x) {
			if y == ucall.Block() {
				inLoop[x] = true
			}
		}
	}
	// ... restricted to the innermost one: blocks dominated by the loop header that also reach the call without leaving
	varying := func(x ssa.Value) bool {
		phi, ok := x.(*ssa.Phi)
		if !ok || !inLoop[phi.Block()] {
			return false
		}
		for _, e := range phi.Edges {
			if bo, ok := e.(*ssa.BinOp); ok && bo.Op == token.SUB && bo.X == ssa.Value(phi) && inLoop[bo.Block()] {
				return true
			}
		}
		return false
	}
	for b := range inLoop {
		iff, ok := lastInstr(b).(*ssa.If)
		if !ok {
			continue
		}
		bo, ok := iff.Cond.(*ssa.BinOp)
		if !ok || bo.Op != token.LSS {
			continue
		}
		if _, isPhi := bo.X.(*ssa.Phi); !isPhi {
			continue
		}
		bound := bo.Y
		var x ssa.Value
		if call, ok := bound.(*ssa.Call); ok && len(call.Call.Args) == 2 {
			// min(X, 8) / min(8, X)
			a0, a1 := call.Call.Args[0], call.Call.Args[1]
			switch {
			case constIs(a1, 8):
				x = a0
			case constIs(a0, 8):
				x = a1
			}
		}
		if x == nil {
			continue
		}
		if _, isC := x.(*ssa.Const); isC {
			continue
		}
		// x must be the remaining count: a quantity decreased inside the byte loop
		// (the page loop around it is also a cycle through the call; a phi of the page loop alone is decreased nowhere)
		if !varying(x) {
			return fmt.Sprintf("each byte of a page yields min(%s, 8) values and %s does not decrease from byte to byte: for a page of more than 8 values whose count is not a multiple of 8 the padding bits of its last byte are decoded as values (and every later value of the chunk shifts)", symExpr(x, 0), symExpr(x, 0))
		}
	}
	return ""
}

// unpackBoolsOrder interprets the runtime's byte unpacker (the func(byte) [8]bool that GetBools calls) abstractly on a
// symbolic byte: element k of the result must be exactly bit k of the byte.
func unpackBoolsOrder(u *Universe) string {
	gb := u.Func(rtPath, "GetBools")
	if gb == nil {
		return "parquet.GetBools not found"
	}
	var unpack *ssa.Function
	if uc := boolUnpackCall(u, gb); uc != nil {
		unpack = uc.Call.StaticCallee()
	}
	if unpack == nil {
		return "GetBools does not unpack bytes through a func(byte) [8]bool"
	}
	res, err := bpRun(u, unpack, []aval{symInput(0, 8)})
	if err != "" {
		return "abstract interpretation of " + unpack.Name() + " is undecided: " + err
	}
	arr, ok := res[0].(aArr)
	if !ok || len(arr.cells) != 8 {
		return "the byte unpacker does not return 8 booleans"
	}
	for k, c := range arr.cells {
		bv, ok := c.v.(aBool)
		if !ok || bv.b != (bit{k: 2, i: 0, b: k}) {
			got := "?"
			if ok {
				got = bv.b.String()
			}
			return fmt.Sprintf("element %d of the unpacker is %s, want exactly bit %d of the byte (LSB first)", k, got, k)
		}
	}
	return ""
}

// --- LA-alias ---

func laAlias(c *Ctx, rule string) {
	r, u := c.R, c.U
	for _, p := range u.TC {
		short := strings.TrimPrefix(p, "uni/")
		// Add takes the record by value
		add := u.Func(p, "ParquetWriter.Add")
		if add == nil || len(add.Params) != 2 {
			r.failf("%s: ParquetWriter.Add missing in %s", rule, p)
			continue
		}
		if _, isPtr := add.Params[1].Type().Underlying().(*types.Pointer); isPtr {
			r.bad(rule, short+" Add by value", u.Pos(add.Pos()), "Add takes a pointer to the caller's record")
		} else {
			r.ok(rule, short+" Add by value", u.Pos(add.Pos()), "Add receives a copy of the record; shredders keep only primitive values (typed []T with T primitive)")
		}
		// shredders and assemblers named by Fields()
		fields := u.Func(p, "Fields")
		if fields == nil {
			r.failf("%s: Fields missing in %s", rule, p)
			continue
		}
		var shred, asm []*ssa.Function
		for _, b := range fields.Blocks {
			for _, ins := range b.Instrs {
				call, ok := ins.(*ssa.Call)
				if !ok || call.Call.StaticCallee() == nil || !strings.HasPrefix(call.Call.StaticCallee().Name(), "New") {
					continue
				}
				for i, a := range call.Call.Args {
					if fn, ok := a.(*ssa.Function); ok {
						if i == 0 {
							shred = append(shred, fn)
						} else if i == 1 {
							asm = append(asm, fn)
						}
					}
				}
			}
		}
		r.count(rule+"/assemblers", len(asm))
		r.count(rule+"/shredders", len(shred))
		for _, fn := range shred {
			// results are slices of primitives; every append onto vals takes a primitive
			k := short + "." + fn.Name()
			res := fn.Signature.Results()
			okT := true
			for i := 0; i < res.Len(); i++ {
				t := res.At(i).Type()
				if sl, ok := t.Underlying().(*types.Slice); ok {
					t = sl.Elem()
				}
				if _, ok := t.Underlying().(*types.Basic); !ok {
					okT = false
				}
			}
			if okT {
				r.ok(rule, k, u.Pos(fn.Pos()), "shredder returns only primitive values / slices of primitives: no caller memory is retained")
			} else {
				r.bad(rule, k, u.Pos(fn.Pos()), "shredder can return a non-primitive value taken from the caller's record")
			}
		}
		for _, fn := range asm {
			k := short + "." + fn.Name()
			why := ""
			al := map[ssa.Value]bool{}
			for i, prm := range fn.Params {
				if i == 0 {
					continue
				}
				if _, ok := prm.Type().Underlying().(*types.Slice); ok {
					al[prm] = true
				}
			}
			for changed := true; changed; {
				changed = false
				for _, b := range fn.Blocks {
					for _, ins := range b.Instrs {
						switch x := ins.(type) {
						case *ssa.Slice:
							if al[x.X] && !al[x] {
								al[x] = true
								changed = true
							}
						case *ssa.Phi:
							for _, e := range x.Edges {
								if al[e] && !al[x] {
									al[x] = true
									changed = true
								}
							}
						case *ssa.Store:
							if al[x.Val] {
								why = "a slice of the reader's internal value/level buffer is stored into the record at " + u.Pos(x.Pos())
							}
						case *ssa.Call:
							if bi, ok := x.Call.Value.(*ssa.Builtin); ok && bi.Name() == "append" && len(x.Call.Args) > 0 && al[x.Call.Args[0]] && !al[x] {
								al[x] = true
								changed = true
							}
						}
					}
				}
			}
			if why != "" {
				r.bad(rule, k, u.Pos(fn.Pos()), why+": records already scanned would change under later reads")
			} else {
				r.ok(rule, k, u.Pos(fn.Pos()), "assembler copies elements out of vals; never stores a slice of its buffers into the record")
			}
		}
	}
	r.floor(rule+"/assemblers", 70, "72 columns in alltypes")
}

func checkC01(c *Ctx) {
	r := c.R
	r.Explanation = "Necessary conditions of the round trip that are static choices shared by writer and reader, decided for all values: codec pairing and provenance (LA-codec); PLAIN layout per element type — width, little-endian, bit-preserving conversions (same-width integer conversion or math.FloatNNbits), which is what makes NaN payloads, +-0, extreme integers survive; string length prefix width and order; bool bit order on both sides (LA-plain); presence, order and widths of the level streams of a page (LA-order); Add copies the record and shredders keep only primitive values; assemblers never store a slice of the reader's buffers into a record (LA-alias) — this decides the two 'unaffected by mutation' sentences outright; (WH-reset, WH-child) for 'any split into batches, any page size': Write re-initialises every writer field Add advances, and the writer created for the next page inherits sink, page size, codec and metadata; (TD) the generated drivers — Write emits per column the parent's page then the child chain's pages, Add counts / hands out / advances once per stored record and keeps a page at max records, Next is true exactly Rows() times and loads a row group exactly when the current one is used up (path enumeration with helper methods inlined, difference bounds on position − limit), the constructor takes Rows() from the footer and seeks behind the magic, readRowGroup consumes exactly one row group and one chunk descriptor per column; (FT) per column type: value count handed to the page writer, bool payload size, values decoded per chunk, Add keeps what the shredder returned; (LA-maxlevels, LA-trim, LA-nonnull, LA-sizes, LA-pages, LA-footer) level bookkeeping and chunk descriptors. Per struct shape, 'assembly inverts shredding' is decided under C05/C03 (translation validation). NOT decided: page-chain / row-group / cursor arithmetic, loop termination by counts, multi-page bool unpacking, thrift, snappy/gzip internals, Rows()/Next() counts."
	laCodec(c, "LA-codec")
	laPlain(c, "LA-plain")
	laOrder(c, "LA-order")
	laAlias(c, "LA-alias")
	laMemRead(c, "LA-memread")
	laOverlap(c, "LA-overlap")
	laRunKind(c)
	laLEB(c)
	checkTypeFuncs(c)
	// "split in any way into Write batches, with any page size": the two history conditions that are visible in code shape
	runWHReset(c, "WH-reset")
	runWHChild(c, "WH-child")
	// level bookkeeping of optional columns: maxima, trimming of padded level streams, chunk descriptors
	// the instantiated column templates: value counts handed to the page writer, values decoded per chunk
	runFT(c, "FT", map[string]bool{"count": true, "read": true, "delta": true})
	runTD(c, "TD", map[string]bool{"write": true, "add": true, "reader": true})
	// record-at-a-time consumption of values and levels in Scan, index bookkeeping of repeated groups
	runTVDriver(c, "TV-driver")
	laMaxLevels(c, "LA-maxlevels")
	laTrim(c, "LA-trim")
	laPages(c, "LA-pages")
	laNonNull(c, "LA-nonnull")
	laSizes(c, "LA-sizes")
	laFooterMeta(c, "LA-footer", map[string]bool{"rows": true, "seek": true})
	r.assume("per-shape inversion of shredding by assembly is claimed under C05 (TV-asm/TV-shred), not here")
}

// --- C15 ---

func checkC15(c *Ctx) {
	r, u := c.R, c.U
	r.Explanation = "Necessary condition of C15 only (thin claim): the two type tables agree — the physical-type table structs.parquetTypes (physical type -> Go type) used to regenerate a struct from a footer is the inverse of the schema type functions the generated writer uses (Go type -> physical type, no converted type) on every type C15 covers (bool, int32, int64, float32, float64, string), and optional <-> pointer on both sides. The tree reconstruction from num_children (index arithmetic in getStruct) and the footer it is fed are value-level and NOT decided."
	sp := u.Pkgs[genBase+"structs"]
	if sp == nil {
		r.failf("generator package structs not loaded")
		return
	}
	table := map[string]string{}
	var pos token.Pos
	for _, f := range sp.Syntax {
		for _, d := range f.Decls {
			gd, ok := d.(*ast.GenDecl)
			if !ok {
				continue
			}
			for _, s := range gd.Specs {
				vs, ok := s.(*ast.ValueSpec)
				if !ok || len(vs.Names) != 1 || vs.Names[0].Name != "parquetTypes" || len(vs.Values) != 1 {
					continue
				}
				lit, ok := vs.Values[0].(*ast.CompositeLit)
				if !ok {
					continue
				}
				pos = lit.Pos()
				for _, el := range lit.Elts {
					kv := el.(*ast.KeyValueExpr)
					k, v := sp.TypesInfo.Types[kv.Key].Value, sp.TypesInfo.Types[kv.Value].Value
					if k != nil && v != nil {
						table[constant.StringVal(k)] = constant.StringVal(v)
					}
				}
			}
		}
	}
	if len(table) == 0 {
		r.failf("structs.parquetTypes table not found")
		return
	}
	r.count("LA-types/table-entries", len(table))
	// writer side: Go type -> physical (from the generated Type functions of alltypes)
	goToPhys := map[string][2]string{}
	for _, f := range fieldImpls(c) {
		if f.elem == nil {
			continue
		}
		sch := u.Func(f.pkg, f.name+".Schema")
		if sch == nil {
			continue
		}
		for _, b := range sch.Blocks {
			for _, ins := range b.Instrs {
				if st, ok := ins.(*ssa.Store); ok {
					if fl := fieldOf(st.Addr); fl != nil && fl.Name() == "Type" {
						v := st.Val
						if ct, ok := v.(*ssa.ChangeType); ok {
							v = ct.X
						}
						if tf, ok := v.(*ssa.Function); ok {
							if phys, conv, ok := typeFuncInfo(tf); ok {
								goToPhys[f.elem.String()] = [2]string{phys, conv}
							}
						}
					}
				}
			}
		}
	}
	for _, t := range []string{"bool", "int32", "int64", "float32", "float64", "string"} {
		key := "Go " + t
		pc, ok := goToPhys[t]
		switch {
		case !ok:
			r.undecided("LA-types", key, u.Pos(pos), "no generated field type with this element type in the template-coverage corpus")
		case pc[1] != "":
			r.bad("LA-types", key, u.Pos(pos), fmt.Sprintf("the writer declares %s with converted type %s; a regenerated struct would not know", t, pc[1]))
		case table[pc[0]] != t:
			r.bad("LA-types", key, u.Pos(pos), fmt.Sprintf("the writer stores Go %s as %s, but parquetgen -parquet maps %s back to %q", t, pc[0], pc[0], table[pc[0]]))
		default:
			r.ok("LA-types", key, u.Pos(pos), fmt.Sprintf("%s -> %s -> %s", t, pc[0], table[pc[0]]))
		}
	}
	for phys, gt := range table {
		if pc, ok := goToPhys[gt]; ok && pc[0] != phys {
			r.bad("LA-types", "physical "+phys, u.Pos(pos), fmt.Sprintf("%s regenerates as Go %s, which the writer stores as %s", phys, gt, pc[0]))
		}
	}
	// optional <-> pointer: structs.field emits "*" exactly under RepetitionType == OPTIONAL
	fld := roleFunc(u, genBase+"structs", "structField")
	if fld == nil {
		r.failf("structs.field not found")
		return
	}
	okOpt := false
	// isOptionalTest: v is true exactly when the element's repetition type is OPTIONAL (= 1) — the comparison itself,
	// a short-circuit `rt != nil && *rt == OPTIONAL`, or a helper function returning that
	var isOptionalTest func(v ssa.Value, depth int) bool
	isOptionalTest = func(v ssa.Value, depth int) bool {
		if depth > 4 {
			return false
		}
		switch x := v.(type) {
		case *ssa.BinOp:
			if x.Op == token.EQL && constIs(x.Y, 1) {
				if named, ok := x.X.Type().(*types.Named); ok && named.Obj().Name() == "FieldRepetitionType" {
					return true
				}
			}
		case *ssa.Phi:
			some := false
			for _, e := range x.Edges {
				if constBool(e, false) {
					continue
				}
				if !isOptionalTest(e, depth+1) {
					return false
				}
				some = true
			}
			return some
		case *ssa.Call:
			sc := x.Call.StaticCallee()
			if sc == nil || sc.Blocks == nil || !u.InUniverse(sc) && u.pkgPathOf(sc) != genBase+"structs" {
				return false
			}
			some := false
			for _, b := range sc.Blocks {
				if ret, ok := lastInstr(b).(*ssa.Return); ok && len(ret.Results) == 1 {
					if constBool(ret.Results[0], false) {
						continue
					}
					if !isOptionalTest(ret.Results[0], depth+1) {
						return false
					}
					some = true
				}
			}
			return some
		}
		return false
	}
	isStar := func(v ssa.Value) bool {
		k, ok := v.(*ssa.Const)
		return ok && k.Value != nil && k.Value.Kind() == constant.String && constant.StringVal(k.Value) == "*"
	}
	// (in structs.field itself or in a helper of the package it calls for the prefix)
	unit := []*ssa.Function{fld}
	for _, b := range fld.Blocks {
		for _, ins := range b.Instrs {
			if call, ok := ins.(*ssa.Call); ok {
				if sc := call.Call.StaticCallee(); sc != nil && sc.Blocks != nil && u.pkgPathOf(sc) == genBase+"structs" && sc != fld {
					unit = append(unit, sc)
				}
			}
		}
	}
	for _, g := range unit {
		for _, b := range g.Blocks {
			iff, ok := lastInstr(b).(*ssa.If)
			if !ok || !isOptionalTest(iff.Cond, 0) {
				continue
			}
			// the "*" is introduced on the true side only: as a phi edge or as a string concatenation there
			for _, blk := range g.Blocks {
				for _, ins := range blk.Instrs {
					switch y := ins.(type) {
					case *ssa.Phi:
						for i, e := range y.Edges {
							if isStar(e) {
								pred := blk.Preds[i]
								if pred == b.Succs[0] || b.Succs[0].Dominates(pred) {
									okOpt = true
								}
							}
						}
					case *ssa.BinOp:
						if y.Op == token.ADD && (isStar(y.X) || isStar(y.Y)) && (blk == b.Succs[0] || b.Succs[0].Dominates(blk)) && len(b.Succs[0].Preds) == 1 {
							okOpt = true
						}
					case *ssa.Return:
						// a helper returning the prefix: "*" on the true side only
						if len(y.Results) == 1 && isStar(y.Results[0]) && (blk == b.Succs[0] || b.Succs[0].Dominates(blk)) && len(b.Succs[0].Preds) == 1 {
							okOpt = true
						}
					}
				}
			}
		}
		// and nowhere else
		for _, blk := range g.Blocks {
			for _, ins := range blk.Instrs {
				star := false
				if y, ok := ins.(*ssa.BinOp); ok && y.Op == token.ADD && (isStar(y.X) || isStar(y.Y)) {
					star = true
				}
				if y, ok := ins.(*ssa.Return); ok && len(y.Results) == 1 && isStar(y.Results[0]) {
					star = true
				}
				if star {
					guardedOpt := false
					for _, b := range g.Blocks {
						if iff, ok := lastInstr(b).(*ssa.If); ok && isOptionalTest(iff.Cond, 0) && len(b.Succs[0].Preds) == 1 && (blk == b.Succs[0] || b.Succs[0].Dominates(blk)) {
							guardedOpt = true
						}
					}
					if !guardedOpt {
						okOpt = false
					}
				}
			}
		}
	}
	if okOpt {
		r.ok("LA-types", "optional <-> pointer", u.Pos(fld.Pos()), "structs.field emits a pointer type exactly when the schema element is OPTIONAL (=1); the generator maps pointers to OPTIONAL")
	} else {
		r.bad("LA-types", "optional <-> pointer", u.Pos(fld.Pos()), "structs.field does not emit a pointer exactly for OPTIONAL schema elements")
	}
	// the footer schema parquetgen -parquet reads: group child counts are per group
	laFooterMeta(c, "LA-footer", map[string]bool{"totals": true})
	laStructs(c, "LA-structs")
	laLeafKind(c, "LA-leafkind")
	laCells(c, "LA-cells")
	laCLI(c, "LA-cli")
	r.floor("LA-types/table-entries", 6, "BOOLEAN, INT32, INT64, FLOAT, DOUBLE, BYTE_ARRAY")
	r.assume("tree reconstruction from num_children (structs.getStruct) is NOT decided")
}

// laMemRead: the column readers consume the in-memory reader handed back by DoRead either through fill-or-fail calls,
// or — where they call Read directly and ignore the count (the string value bytes, whose length can be zero) — only
// on a reader whose concrete type is *bytes.Buffer, which fills the buffer or fails and returns (0, nil) for an empty
// read even at the end (bytes.Reader and most other readers report io.EOF there: an empty string at the end of a
// chunk would become an error).
func laMemRead(c *Ctx, rule string) {
	r, u := c.R, c.U
	// concrete types of the reader returned by each DoRead
	retTypes := map[*ssa.Function][]string{}
	var concrete func(v ssa.Value, depth int, into map[string]bool)
	concrete = func(v ssa.Value, depth int, into map[string]bool) {
		if depth > 6 {
			into["?"] = true
			return
		}
		switch x := v.(type) {
		case *ssa.MakeInterface:
			into[types.TypeString(x.X.Type(), nil)] = true
		case *ssa.Phi:
			for _, e := range x.Edges {
				concrete(e, depth+1, into)
			}
		case *ssa.Const:
			if !x.IsNil() {
				into["?"] = true
			}
		case *ssa.ChangeInterface:
			concrete(x.X, depth+1, into)
		case *ssa.Extract:
			// a result of a helper of the runtime (`return chunk.result()`)
			if call, ok := x.Tuple.(*ssa.Call); ok {
				if sc := call.Call.StaticCallee(); sc != nil && sc.Blocks != nil && u.pkgPathOf(sc) == rtPath {
					for _, b := range sc.Blocks {
						if ret, ok := lastInstr(b).(*ssa.Return); ok && x.Index < len(ret.Results) {
							concrete(ret.Results[x.Index], depth+1, into)
						}
					}
					return
				}
			}
			into["? ("+symExpr(v, 0)+")"] = true
		case *ssa.Call:
			if sc := x.Call.StaticCallee(); sc != nil && sc.Blocks != nil && u.pkgPathOf(sc) == rtPath && sc.Signature.Results().Len() == 1 {
				for _, b := range sc.Blocks {
					if ret, ok := lastInstr(b).(*ssa.Return); ok {
						concrete(ret.Results[0], depth+1, into)
					}
				}
				return
			}
			into["? ("+symExpr(v, 0)+")"] = true
		default:
			into["? ("+symExpr(v, 0)+")"] = true
		}
	}
	for _, f := range u.Funcs {
		if u.pkgPathOf(f) != rtPath || f.Name() != "DoRead" || f.Synthetic != "" {
			continue
		}
		set := map[string]bool{}
		for _, b := range f.Blocks {
			if ret, ok := lastInstr(b).(*ssa.Return); ok && len(ret.Results) >= 1 {
				concrete(ret.Results[0], 0, set)
			}
		}
		var ts []string
		for t := range set {
			ts = append(ts, t)
		}
		sort.Strings(ts)
		retTypes[f] = ts
	}
	n := 0
	for _, fi := range fieldImpls(c) {
		if fi.read == nil {
			continue
		}
		for _, b := range fi.read.Blocks {
			for _, ins := range b.Instrs {
				call, ok := ins.(*ssa.Call)
				if !ok {
					continue
				}
				sc := call.Call.StaticCallee()
				if sc == nil || retTypes[sc] == nil {
					continue
				}
				var rr ssa.Value
				for _, ref := range *call.Referrers() {
					if ex, ok := ref.(*ssa.Extract); ok && ex.Index == 0 {
						rr = ex
					}
				}
				if rr == nil {
					continue
				}
				n++
				key := strings.TrimPrefix(fi.pkg, "uni/") + "." + fi.name + ".Read"
				pos := u.Pos(call.Pos())
				var bad, und []string
				raw := 0
				// uses of the reader, following it into helper functions of the generated package it is handed to
				var uses []ssa.Instruction
				seenV := map[ssa.Value]bool{}
				var collect func(v ssa.Value, depth int)
				collect = func(v ssa.Value, depth int) {
					if seenV[v] || depth > 3 || v.Referrers() == nil {
						return
					}
					seenV[v] = true
					for _, ref := range *v.Referrers() {
						if c3, ok := ref.(*ssa.Call); ok {
							if g := c3.Call.StaticCallee(); g != nil && g.Blocks != nil && u.pkgPathOf(g) == fi.pkg {
								for i, a := range callArgs(&c3.Call) {
									if a == v && i < len(g.Params) {
										collect(g.Params[i], depth+1)
									}
								}
								continue
							}
						}
						uses = append(uses, ref)
					}
				}
				collect(rr, 0)
				for _, ref := range uses {
					c2, ok := ref.(*ssa.Call)
					if !ok {
						continue
					}
					name := fullCalleeName(&c2.Call)
					switch {
					case c2.Call.IsInvoke() && c2.Call.Method.Name() == "Read":
						raw++
						ts := retTypes[sc]
						if len(ts) != 1 || ts[0] != "*bytes.Buffer" {
							bad = append(bad, fmt.Sprintf("value bytes are read with a bare Read (count ignored) at %s from a reader that can be %v: only *bytes.Buffer fills the buffer or fails and tolerates an empty read at the end", u.Pos(c2.Pos()), ts))
						}
					case name == "encoding/binary.Read" || name == "io.ReadFull" || name == "io/ioutil.ReadAll" || name == "io.ReadAll":
					case name == rtPath+".GetBools":
					default:
						if _, isDbg := ref.(*ssa.DebugRef); !isDbg {
							und = append(und, "the column reader is handed to "+name)
						}
					}
				}
				switch {
				case len(bad) > 0:
					r.bad(rule, key, pos, strings.Join(bad, "; "))
				case len(und) > 0:
					r.undecided(rule, key, pos, strings.Join(und, "; "))
				default:
					r.ok(rule, key, pos, fmt.Sprintf("consumed by fill-or-fail calls; %d bare Read(s) on a %v", raw, retTypes[sc]))
				}
			}
		}
	}
	r.count(rule+"/column-readers", n)
	r.floor(rule+"/column-readers", 16, "16 column types in alltypes")
}

// boolUnpackCall: the call of the byte unpacker (a func(byte) [8]bool of the universe) in GetBools or in a helper of the
// runtime it delegates a page to.
func boolUnpackCall(u *Universe, gb *ssa.Function) *ssa.Call {
	var found *ssa.Call
	var visit func(f *ssa.Function, depth int)
	seen := map[*ssa.Function]bool{}
	visit = func(f *ssa.Function, depth int) {
		if seen[f] || depth > 2 {
			return
		}
		seen[f] = true
		for _, b := range f.Blocks {
			for _, ins := range b.Instrs {
				call, ok := ins.(*ssa.Call)
				if !ok {
					continue
				}
				sc := call.Call.StaticCallee()
				if sc == nil || !u.InUniverse(sc) {
					continue
				}
				if sc.Signature.Results().Len() == 1 && len(sc.Params) == 1 {
					if at, ok := sc.Signature.Results().At(0).Type().Underlying().(*types.Array); ok && at.Len() == 8 {
						found = call
						continue
					}
				}
				if u.pkgPathOf(sc) == rtPath && sc.Blocks != nil {
					visit(sc, depth+1)
				}
			}
		}
	}
	visit(gb, 0)
	return found
}
