package main

// Field roles: the rules talk about the fields of the generated types by what they ARE (the writer's column list, its
// link to the next page's writer, a column's value slice, …), not by how the template happens to spell them. roleOf maps
// a field of ParquetWriter / ParquetReader / a generated column type to a canonical role name, decided from its type
// (and, for the two int fields of the writer, from which one the page-size option sets). Fields without a role keep
// their own name. The canonical printer (symExpr) prints role names, so renaming a field changes nothing.

import (
	"fmt"
	"go/types"
	"strings"

	"golang.org/x/tools/go/ssa"
)

var fieldRoles map[*types.Var]string

func roleOf(f *types.Var) string {
	if f == nil {
		return ""
	}
	if r, ok := fieldRoles[f]; ok {
		return r
	}
	return f.Name()
}

func buildFieldRoles(u *Universe) {
	fieldRoles = map[*types.Var]string{}
	for _, path := range u.TC {
		p := u.Pkgs[path]
		if p == nil {
			continue
		}
		scope := p.Types.Scope()
		named := func(n string) (*types.Named, *types.Struct) {
			o := scope.Lookup(n)
			if o == nil {
				return nil, nil
			}
			nm, _ := o.Type().(*types.Named)
			if nm == nil {
				return nil, nil
			}
			st, _ := nm.Underlying().(*types.Struct)
			return nm, st
		}
		typeStr := func(t types.Type) string { return types.TypeString(t, func(*types.Package) string { return "" }) }
		unique := func(st *types.Struct, pred func(*types.Var) bool) *types.Var {
			var out *types.Var
			n := 0
			for i := 0; i < st.NumFields(); i++ {
				if pred(st.Field(i)) {
					out = st.Field(i)
					n++
				}
			}
			if n == 1 {
				return out
			}
			return nil
		}
		set := func(f *types.Var, role string) {
			if f != nil {
				fieldRoles[f] = role
			}
		}
		// --- ParquetWriter ---
		if wn, ws := named("ParquetWriter"); ws != nil {
			set(unique(ws, func(f *types.Var) bool { return typeStr(f.Type()) == "[]Field" }), "fields")
			set(unique(ws, func(f *types.Var) bool {
				pt, ok := f.Type().(*types.Pointer)
				return ok && types.Identical(pt.Elem(), wn)
			}), "child")
			set(unique(ws, func(f *types.Var) bool { return typeStr(f.Type()) == "io.Writer" }), "w")
			set(unique(ws, func(f *types.Var) bool {
				return strings.HasSuffix(typeStr(f.Type()), "*parquet.Metadata") || strings.HasSuffix(typeStr(f.Type()), "*Metadata")
			}), "meta")
			// the two int fields: the one the page-size option sets is `max`, the other `len`
			var ints []*types.Var
			for i := 0; i < ws.NumFields(); i++ {
				if types.Identical(ws.Field(i).Type(), types.Typ[types.Int]) {
					ints = append(ints, ws.Field(i))
				}
			}
			if len(ints) == 2 && u.Prog != nil {
				if mps := u.Func(path, "MaxPageSize"); mps != nil {
					var setBy *types.Var
					for _, an := range mps.AnonFuncs {
						for _, b := range an.Blocks {
							for _, ins := range b.Instrs {
								if st, ok := ins.(*ssa.Store); ok {
									if f := fieldOf(st.Addr); f == ints[0] || f == ints[1] {
										setBy = f
									}
								}
							}
						}
					}
					if setBy != nil {
						set(setBy, "max")
						if setBy == ints[0] {
							set(ints[1], "len")
						} else {
							set(ints[0], "len")
						}
					}
				}
			}
		}
		// --- ParquetReader ---
		if _, rs := named("ParquetReader"); rs != nil {
			set(unique(rs, func(f *types.Var) bool { return typeStr(f.Type()) == "map[string]Field" }), "fields")
			set(unique(rs, func(f *types.Var) bool { return typeStr(f.Type()) == "[]string" }), "fieldNames")
			set(unique(rs, func(f *types.Var) bool {
				return strings.HasPrefix(typeStr(f.Type()), "map[string][]") && strings.HasSuffix(typeStr(f.Type()), "Page")
			}), "pages")
			set(unique(rs, func(f *types.Var) bool {
				return strings.HasPrefix(typeStr(f.Type()), "[]") && strings.HasSuffix(typeStr(f.Type()), "RowGroup")
			}), "rowGroups")
		}
		// --- column types: structs embedding parquet.RequiredField / OptionalField ---
		for _, n := range scope.Names() {
			_, st := named(n)
			if st == nil {
				continue
			}
			embeds := false
			for i := 0; i < st.NumFields(); i++ {
				if st.Field(i).Embedded() && (strings.HasSuffix(typeStr(st.Field(i).Type()), "RequiredField") || strings.HasSuffix(typeStr(st.Field(i).Type()), "OptionalField")) {
					embeds = true
				}
			}
			if !embeds {
				continue
			}
			set(unique(st, func(f *types.Var) bool {
				sl, ok := f.Type().Underlying().(*types.Slice)
				if !ok {
					return false
				}
				_, basic := sl.Elem().Underlying().(*types.Basic)
				return basic
			}), "vals")
			for i := 0; i < st.NumFields(); i++ {
				f := st.Field(i)
				sig, ok := f.Type().Underlying().(*types.Signature)
				if !ok || sig.Params().Len() == 0 {
					continue
				}
				if _, ptr := sig.Params().At(0).Type().(*types.Pointer); ptr {
					set(f, "write")
				} else {
					set(f, "read")
				}
			}
			set(unique(st, func(f *types.Var) bool {
				pt, ok := f.Type().(*types.Pointer)
				if !ok {
					return false
				}
				nm, ok := pt.Elem().(*types.Named)
				return ok && strings.HasSuffix(strings.ToLower(nm.Obj().Name()), "stats")
			}), "stats")
		}
	}
}

// roleField: the field of a generated struct type that plays the given role.
func roleField(u *Universe, path, typ, role string) *types.Var {
	p := u.Pkgs[path]
	if p == nil {
		return nil
	}
	o := p.Types.Scope().Lookup(typ)
	if o == nil {
		return nil
	}
	st, ok := o.Type().Underlying().(*types.Struct)
	if !ok {
		return nil
	}
	for i := 0; i < st.NumFields(); i++ {
		if roleOf(st.Field(i)) == role {
			return st.Field(i)
		}
	}
	return nil
}

// --- function roles: unexported helpers are found by what they do, not by how they are called ---

var funcRoleMemo = map[string]*ssa.Function{}

// roleFunc: the function of package path that plays the given role.
//
//	writerInner  — the constructor NewParquetWriter delegates to (takes the sink and the option list)
//	readRowGroup — the method of ParquetReader that NewParquetReader calls last and that invokes Field.Read
//	getFields    — the function whose result the reader keeps as its column map
//	metaSize     — (runtime) the function ReadMetaData calls that seeks relative to the end of the source
//	structField  — (generator, package structs) the function that renders one schema element as a Go field
func roleFunc(u *Universe, path, role string) *ssa.Function {
	key := fmt.Sprintf("%p|%s|%s", u, path, role)
	if f, ok := funcRoleMemo[key]; ok {
		return f
	}
	var out *ssa.Function
	invokes := func(f *ssa.Function, method string) bool {
		for _, g := range unitFns(u, f) {
			for _, b := range g.Blocks {
				for _, ins := range b.Instrs {
					if c, ok := ins.(*ssa.Call); ok && c.Call.IsInvoke() && c.Call.Method.Name() == method {
						return true
					}
				}
			}
		}
		return false
	}
	switch role {
	case "writerInner":
		if ctor := u.Func(path, "NewParquetWriter"); ctor != nil {
			for _, b := range ctor.Blocks {
				for _, ins := range b.Instrs {
					if c, ok := ins.(*ssa.Call); ok {
						if sc := c.Call.StaticCallee(); sc != nil && u.pkgPathOf(sc) == path && sc.Signature.Variadic() && sc.Signature.Results().Len() == 2 {
							out = sc
						}
					}
				}
			}
		}
	case "readRowGroup":
		if ctor := u.Func(path, "NewParquetReader"); ctor != nil {
			for _, g := range unitFns(u, ctor) {
				if g != ctor && g.Signature.Recv() != nil && g.Signature.Params().Len() == 0 && g.Signature.Results().Len() == 1 && invokes(g, "Read") {
					// the outermost such method: not called by another candidate
					if out == nil || len(callsTo(g, out.String())) > 0 {
						out = g
					}
				}
			}
		}
	case "getFields":
		rrg := roleFunc(u, path, "readRowGroup")
		if rrg != nil {
			for _, b := range rrg.Blocks {
				for _, ins := range b.Instrs {
					if st, ok := ins.(*ssa.Store); ok && roleOf(fieldOf(st.Addr)) == "fields" {
						if c, ok := st.Val.(*ssa.Call); ok && c.Call.StaticCallee() != nil {
							out = c.Call.StaticCallee()
						}
					}
				}
			}
		}
	case "metaSize":
		if rm := u.Func(path, "ReadMetaData"); rm != nil {
			for _, b := range rm.Blocks {
				for _, ins := range b.Instrs {
					c, ok := ins.(*ssa.Call)
					if !ok || c.Call.StaticCallee() == nil || u.pkgPathOf(c.Call.StaticCallee()) != path {
						continue
					}
					sc := c.Call.StaticCallee()
					for _, g := range unitFns(u, sc) {
						for _, b2 := range g.Blocks {
							for _, i2 := range b2.Instrs {
								if c2, ok := i2.(*ssa.Call); ok && c2.Call.IsInvoke() && c2.Call.Method.Name() == "Seek" && len(c2.Call.Args) == 2 && constIs(c2.Call.Args[1], 2) {
									if _, isK := c2.Call.Args[0].(*ssa.Const); isK {
										out = g // the function that itself seeks to the tail
									}
								}
							}
						}
					}
				}
			}
		}
	case "structField":
		// called from the reconstruction with one schema element, returns a string
		if sp := u.SSAPkgs[path]; sp != nil {
			for _, m := range sp.Members {
				f, ok := m.(*ssa.Function)
				if !ok || f.Blocks == nil || f.Signature.Params().Len() != 1 || f.Signature.Results().Len() != 1 {
					continue
				}
				if !strings.HasSuffix(f.Signature.Params().At(0).Type().String(), "schema.SchemaElement") || f.Signature.Results().At(0).Type().String() != "string" {
					continue
				}
				// the one that builds a tagged field: its text mentions `parquet:`
				for _, b := range f.Blocks {
					for _, ins := range b.Instrs {
						if c, ok := ins.(*ssa.Call); ok {
							for _, a := range c.Call.Args {
								if k, ok := a.(*ssa.Const); ok && k.Value != nil && strings.Contains(k.Value.ExactString(), "parquet:") {
									out = f
								}
							}
						}
						if bo, ok := ins.(*ssa.BinOp); ok {
							for _, a := range []ssa.Value{bo.X, bo.Y} {
								if k, ok := a.(*ssa.Const); ok && k.Value != nil && strings.Contains(k.Value.ExactString(), "parquet:") {
									out = f
								}
							}
						}
					}
				}
			}
		}
	}
	funcRoleMemo[key] = out
	return out
}
