package main

// The analysed universe (DESIGN.md §2): runtime packages of /repo's working
// tree, the generator packages, and template code instantiated by running the
// repository's own build-time generator (parquetgen, rebuilt from the working
// tree on every run) on struct definitions owned by /verif.

import (
	"bytes"
	"fmt"
	"go/token"
	"go/types"
	"os"
	"os/exec"
	"path/filepath"
	"sort"
	"strings"
	"time"

	"golang.org/x/tools/go/callgraph"
	"golang.org/x/tools/go/callgraph/cha"
	"golang.org/x/tools/go/callgraph/vta"
	"golang.org/x/tools/go/packages"
	"golang.org/x/tools/go/ssa"
	"golang.org/x/tools/go/ssa/ssautil"
)

const (
	rtPath      = "github.com/parsyl/parquet"
	rlePath     = "github.com/parsyl/parquet/internal/rle"
	bitpackPath = "github.com/parsyl/parquet/internal/bitpack"
	schPath     = "github.com/parsyl/parquet/schema"
	genBase     = "github.com/parsyl/parquet/cmd/parquetgen/"
)

var rtPkgs = []string{rtPath, rlePath, bitpackPath}
var genPkgs = []string{genBase + "parse", genBase + "fields", genBase + "dremel", genBase + "gen", genBase + "structs"}

// tcStructs: G_tc, package name -> root struct type.
var tcStructs = [][2]string{{"alltypes", "Rec"}, {"doc", "Document"}, {"person", "Person"}, {"excluded", "Rec"}, {"rfirst", "Rec"}}

type Universe struct {
	Repo, Verif, Tmp, ModDir string
	Gen                      string // path of the freshly built parquetgen
	Fset                     *token.FileSet
	Pkgs                     map[string]*packages.Package
	Prog                     *ssa.Program
	SSAPkgs                  map[string]*ssa.Package
	cg                       *callgraph.Graph
	Funcs                    []*ssa.Function // universe functions with bodies, sorted by name
	uni                      map[string]bool // package paths whose bodies are analysed
	TC                       []string        // import paths of G_tc packages
	Ctl                      []string        // import paths of control packages
	LoadSecs                 float64
}

type LoadOpts struct {
	TC       bool // instantiate and load G_tc
	Gen      bool // load generator packages
	Controls []string
	SSA      bool
	NeedGen  bool // build parquetgen even without G_tc (corpus checks)
}

func repoDir() string {
	if d := os.Getenv("VERIF_REPO"); d != "" {
		return d
	}
	return "/repo"
}

func verifDir() string {
	if d := os.Getenv("VERIF_DIR"); d != "" {
		return d
	}
	if exe, err := os.Executable(); err == nil {
		d := filepath.Dir(filepath.Dir(exe))
		if _, err := os.Stat(filepath.Join(d, "properties.jsonl")); err == nil {
			return d
		}
	}
	return "/verif"
}

func goEnv() []string {
	var env []string
	for _, e := range os.Environ() {
		if strings.HasPrefix(e, "GOWORK=") || strings.HasPrefix(e, "GOFLAGS=") || strings.HasPrefix(e, "GOPROXY=") ||
			strings.HasPrefix(e, "GOSUMDB=") || strings.HasPrefix(e, "GOTOOLCHAIN=") {
			continue
		}
		env = append(env, e)
	}
	return append(env, "GOFLAGS=-mod=mod", "GOPROXY=off", "GOSUMDB=off", "GOTOOLCHAIN=local", "GOWORK=off")
}

func run(dir string, name string, args ...string) (string, error) {
	cmd := exec.Command(name, args...)
	cmd.Dir = dir
	cmd.Env = goEnv()
	var out bytes.Buffer
	cmd.Stdout = &out
	cmd.Stderr = &out
	err := cmd.Run()
	return out.String(), err
}

// newScratch creates the temp module and builds parquetgen from the working tree.
func newScratch(buildGen bool) (*Universe, error) {
	u := &Universe{Repo: repoDir(), Verif: verifDir()}
	if _, err := os.Stat(filepath.Join(u.Repo, "go.mod")); err != nil {
		return nil, fmt.Errorf("repository not found at %s: %v", u.Repo, err)
	}
	tmp, err := os.MkdirTemp("", "verif-")
	if err != nil {
		return nil, err
	}
	u.Tmp = tmp
	u.ModDir = filepath.Join(tmp, "mod")
	if err := os.MkdirAll(u.ModDir, 0o755); err != nil {
		return nil, err
	}
	gomod := "module uni\n\ngo 1.20\n\nrequire github.com/parsyl/parquet v0.0.0\n\nreplace github.com/parsyl/parquet => " + u.Repo + "\n"
	if err := os.WriteFile(filepath.Join(u.ModDir, "go.mod"), []byte(gomod), 0o644); err != nil {
		return nil, err
	}
	sum, err := os.ReadFile(filepath.Join(u.Repo, "go.sum"))
	if err != nil {
		return nil, err
	}
	if err := os.WriteFile(filepath.Join(u.ModDir, "go.sum"), sum, 0o644); err != nil {
		return nil, err
	}
	if !buildGen {
		return u, nil
	}
	u.Gen = filepath.Join(tmp, "parquetgen")
	if out, err := run(u.Repo, "go", "build", "-o", u.Gen, "./cmd/parquetgen"); err != nil {
		return nil, fmt.Errorf("parquetgen does not build from %s: %v\n%s", u.Repo, err, out)
	}
	return u, nil
}

func (u *Universe) Close() {
	if u != nil && u.Tmp != "" {
		os.RemoveAll(u.Tmp)
	}
}

// generate runs the freshly built parquetgen on src (a Go file defining typ)
// inside ModDir/<rel>; returns generator output and error.
func (u *Universe) generate(rel, pkg, typ string, src []byte) (string, error) {
	dir := filepath.Join(u.ModDir, rel)
	if err := os.MkdirAll(dir, 0o755); err != nil {
		return "", err
	}
	in := filepath.Join(dir, "s.go")
	if err := os.WriteFile(in, src, 0o644); err != nil {
		return "", err
	}
	return run(dir, u.Gen, "-input", in, "-type", typ, "-package", pkg, "-output", filepath.Join(dir, "parquet.go"))
}

func copyDir(src, dst string) error {
	ents, err := os.ReadDir(src)
	if err != nil {
		return err
	}
	if err := os.MkdirAll(dst, 0o755); err != nil {
		return err
	}
	for _, e := range ents {
		if e.IsDir() || !strings.HasSuffix(e.Name(), ".go") {
			continue
		}
		b, err := os.ReadFile(filepath.Join(src, e.Name()))
		if err != nil {
			return err
		}
		if err := os.WriteFile(filepath.Join(dst, e.Name()), b, 0o644); err != nil {
			return err
		}
	}
	return nil
}

func loadUniverse(o LoadOpts) (*Universe, error) {
	t0 := time.Now()
	u, err := newScratch(o.TC || o.NeedGen)
	if err != nil {
		return nil, err
	}
	patterns := append([]string{}, rtPkgs...)
	u.uni = map[string]bool{}
	for _, p := range rtPkgs {
		u.uni[p] = true
	}
	if o.Gen {
		patterns = append(patterns, genPkgs...)
		for _, p := range genPkgs {
			u.uni[p] = true
		}
	}
	if o.TC {
		for _, s := range tcStructs {
			src, err := os.ReadFile(filepath.Join(u.Verif, "corpus", "tc", s[0], s[0]+".go"))
			if err != nil {
				u.Close()
				return nil, err
			}
			if out, err := u.generate("tc/"+s[0], s[0], s[1], src); err != nil {
				u.Close()
				return nil, fmt.Errorf("parquetgen failed on template-coverage struct %s: %v\n%s", s[0], err, out)
			}
			p := "uni/tc/" + s[0]
			patterns = append(patterns, p)
			u.uni[p] = true
			u.TC = append(u.TC, p)
		}
	}
	for _, c := range o.Controls {
		if err := copyDir(filepath.Join(u.Verif, "checker", "controls", c), filepath.Join(u.ModDir, "ctl", c)); err != nil {
			u.Close()
			return nil, err
		}
		p := "uni/ctl/" + c
		patterns = append(patterns, p)
		u.uni[p] = true
		u.Ctl = append(u.Ctl, p)
	}
	u.Fset = token.NewFileSet()
	cfg := &packages.Config{Mode: packages.LoadAllSyntax, Dir: u.ModDir, Env: goEnv(), Fset: u.Fset}
	pkgs, err := packages.Load(cfg, patterns...)
	if err != nil {
		u.Close()
		return nil, err
	}
	if len(pkgs) == 0 {
		u.Close()
		return nil, fmt.Errorf("no packages loaded")
	}
	u.Pkgs = map[string]*packages.Package{}
	var errs []string
	packages.Visit(pkgs, nil, func(p *packages.Package) {
		for _, e := range p.Errors {
			errs = append(errs, e.Error())
		}
	})
	for _, p := range pkgs {
		u.Pkgs[p.PkgPath] = p
	}
	if len(errs) > 0 {
		u.Close()
		return nil, fmt.Errorf("universe does not type-check:\n%s", strings.Join(errs, "\n"))
	}
	for _, p := range patterns {
		if u.Pkgs[p] == nil {
			u.Close()
			return nil, fmt.Errorf("package %s was not loaded", p)
		}
	}
	if o.SSA {
		prog, spkgs := ssautil.AllPackages(pkgs, 0)
		prog.Build()
		u.Prog = prog
		u.SSAPkgs = map[string]*ssa.Package{}
		for i, sp := range spkgs {
			if sp != nil {
				u.SSAPkgs[pkgs[i].PkgPath] = sp
			}
		}
		for f := range ssautil.AllFunctions(prog) {
			if f.Blocks != nil && u.InUniverse(f) {
				u.Funcs = append(u.Funcs, f)
			}
		}
		sort.Slice(u.Funcs, func(i, j int) bool {
			a, b := u.Funcs[i], u.Funcs[j]
			if a.String() != b.String() {
				return a.String() < b.String()
			}
			return a.Pos() < b.Pos()
		})
	}
	u.LoadSecs = time.Since(t0).Seconds()
	symU, symCallers = u, nil
	buildFieldRoles(u)
	return u, nil
}

// CG builds the VTA call graph lazily.
func (u *Universe) CG() *callgraph.Graph {
	if u.cg == nil {
		u.cg = vta.CallGraph(ssautil.AllFunctions(u.Prog), cha.CallGraph(u.Prog))
	}
	return u.cg
}

func (u *Universe) pkgPathOf(f *ssa.Function) string {
	for f != nil {
		if f.Pkg != nil {
			return f.Pkg.Pkg.Path()
		}
		if f.Parent() != nil {
			f = f.Parent()
			continue
		}
		if o := f.Object(); o != nil && o.Pkg() != nil {
			return o.Pkg().Path()
		}
		if f.Origin() != nil && f.Origin() != f {
			f = f.Origin()
			continue
		}
		return ""
	}
	return ""
}

func (u *Universe) InUniverse(f *ssa.Function) bool {
	return f != nil && u.uni[u.pkgPathOf(f)]
}

// Callees of a call site: static callee if any, else VTA edges.
func (u *Universe) Callees(site ssa.CallInstruction) []*ssa.Function {
	if sc := site.Common().StaticCallee(); sc != nil {
		return []*ssa.Function{sc}
	}
	var out []*ssa.Function
	if n := u.CG().Nodes[site.Parent()]; n != nil {
		for _, e := range n.Out {
			if e.Site == site {
				out = append(out, e.Callee.Func)
			}
		}
	}
	sort.Slice(out, func(i, j int) bool { return out[i].String() < out[j].String() })
	return out
}

// Pos renders a position relative to the repository / scratch module.
func (u *Universe) Pos(p token.Pos) string {
	if !p.IsValid() {
		return "-"
	}
	pp := u.Fset.Position(p)
	f := pp.Filename
	switch {
	case strings.HasPrefix(f, u.Repo+"/"):
		f = strings.TrimPrefix(f, u.Repo+"/")
	case strings.HasPrefix(f, u.ModDir+"/"):
		f = "<generated>/" + strings.TrimPrefix(f, u.ModDir+"/")
	}
	return fmt.Sprintf("%s:%d", f, pp.Line)
}

// Func finds a package-level function or method "T.m" / "(*T).m" by name.
func (u *Universe) Func(pkg, name string) *ssa.Function {
	sp := u.SSAPkgs[pkg]
	if sp == nil {
		return nil
	}
	if i := strings.Index(name, "."); i >= 0 {
		tn, mn := name[:i], name[i+1:]
		tn = strings.TrimPrefix(tn, "*")
		obj := sp.Pkg.Scope().Lookup(tn)
		if obj == nil {
			return nil
		}
		named, ok := obj.Type().(*types.Named)
		if !ok {
			return nil
		}
		for _, t := range []types.Type{types.NewPointer(named), named} {
			ms := u.Prog.MethodSets.MethodSet(t)
			for i := 0; i < ms.Len(); i++ {
				if ms.At(i).Obj().Name() == mn {
					// only methods declared on the named type itself (not promoted)
					if fn, ok := ms.At(i).Obj().(*types.Func); ok {
						if f := u.Prog.FuncValue(fn); f != nil {
							return f
						}
					}
				}
			}
		}
		return nil
	}
	return sp.Func(name)
}

// shortFn names a function stably: "pkg.(*T).m" with the scratch prefix removed.
func (u *Universe) FnName(f *ssa.Function) string {
	s := f.String()
	s = strings.ReplaceAll(s, "github.com/parsyl/parquet/cmd/parquetgen/", "parquetgen/")
	s = strings.ReplaceAll(s, "github.com/parsyl/parquet/internal/", "")
	s = strings.ReplaceAll(s, "github.com/parsyl/parquet/schema", "sch")
	s = strings.ReplaceAll(s, "github.com/parsyl/parquet", "parquet")
	s = strings.ReplaceAll(s, "uni/tc/", "tc/")
	s = strings.ReplaceAll(s, "uni/ctl/", "ctl/")
	return s
}

// loadGenSyntax loads the generator packages (syntax + types) from the working tree.
func loadGenSyntax(u *Universe) ([]*packages.Package, error) {
	cfg := &packages.Config{Mode: packages.LoadSyntax, Dir: u.ModDir, Env: goEnv(), Fset: u.fsetOrNew()}
	pkgs, err := packages.Load(cfg, genPkgs...)
	if err != nil {
		return nil, err
	}
	if len(pkgs) != len(genPkgs) {
		return nil, fmt.Errorf("expected %d generator packages, loaded %d", len(genPkgs), len(pkgs))
	}
	for _, p := range pkgs {
		if len(p.Errors) > 0 {
			return nil, fmt.Errorf("%s: %v", p.PkgPath, p.Errors[0])
		}
	}
	return pkgs, nil
}

func (u *Universe) fsetOrNew() *token.FileSet {
	if u.Fset == nil {
		u.Fset = token.NewFileSet()
	}
	return u.Fset
}
