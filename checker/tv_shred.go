package main

import (
	"fmt"
	"go/ast"
	"go/token"
	"go/types"
	"sort"
	"strings"
)

type sv struct {
	pos  int
	form string // struct, ptr, slice, val, bad
	why  string
}

type emission struct {
	def, rep               int
	hasDef, hasRep, hasVal bool
	valOK                  bool
}

type shState struct {
	present map[int]int
	lastRep int
	modes   []bool
	loopPos []int
	bind    map[types.Object]sv
	idx     map[types.Object]int
	pend    *emission
}

func (s *shState) clone() *shState {
	n := &shState{present: map[int]int{}, lastRep: s.lastRep, bind: map[types.Object]sv{}, idx: map[types.Object]int{}}
	for k, v := range s.present {
		n.present[k] = v
	}
	n.modes = append([]bool{}, s.modes...)
	n.loopPos = append([]int{}, s.loopPos...)
	for k, v := range s.bind {
		n.bind[k] = v
	}
	for k, v := range s.idx {
		n.idx[k] = v
	}
	if s.pend != nil {
		e := *s.pend
		n.pend = &e
	}
	return n
}

type shredInterp struct {
	tv      *tvChecker
	c       *column
	viol    []string
	seen    map[string]bool
	lastRep types.Object
	params  map[string]types.Object
	fd      *ast.FuncDecl
}

func (in *shredInterp) bad(format string, a ...interface{}) {
	in.viol = append(in.viol, fmt.Sprintf(format, a...))
}

func (in *shredInterp) obj(id *ast.Ident) types.Object {
	if o := in.tv.info.Uses[id]; o != nil {
		return o
	}
	return in.tv.info.Defs[id]
}

func (in *shredInterp) eval(e ast.Expr, st *shState) sv {
	switch x := e.(type) {
	case *ast.ParenExpr:
		return in.eval(x.X, st)
	case *ast.Ident:
		if v, ok := st.bind[in.obj(x)]; ok {
			return v
		}
		return sv{form: "bad", why: "unbound " + x.Name}
	case *ast.StarExpr:
		b := in.eval(x.X, st)
		if b.form == "ptr" && in.c.steps[b.pos-1].leaf {
			if st.present[b.pos] != 1 {
				return sv{form: "bad", why: fmt.Sprintf("deref of possibly-nil node %d", b.pos)}
			}
			return sv{pos: b.pos, form: "val"}
		}
		return sv{form: "bad", why: "star of " + b.form}
	case *ast.SelectorExpr:
		b := in.eval(x.X, st)
		if b.form == "ptr" && !in.c.steps[b.pos-1].leaf {
			if st.present[b.pos] != 1 {
				return sv{form: "bad", why: fmt.Sprintf("select through possibly-nil node %d", b.pos)}
			}
			b.form = "struct"
		}
		if b.form != "struct" {
			return sv{form: "bad", why: "select on " + b.form + " " + b.why}
		}
		sel := in.tv.info.Selections[x]
		if sel == nil {
			return sv{form: "bad", why: "no selection"}
		}
		if b.pos >= len(in.c.steps) || sel.Obj() != in.c.steps[b.pos].field {
			return sv{form: "bad", why: fmt.Sprintf("selects %s, off the column path at depth %d", x.Sel.Name, b.pos)}
		}
		stp := in.c.steps[b.pos]
		switch {
		case stp.kind == Opt:
			return sv{pos: b.pos + 1, form: "ptr"}
		case stp.kind == Rep:
			return sv{pos: b.pos + 1, form: "slice"}
		case stp.leaf:
			return sv{pos: b.pos + 1, form: "val"}
		default:
			return sv{pos: b.pos + 1, form: "struct"}
		}
	case *ast.CallExpr:
		// len(slice node): the element count of a repeated node
		if id, ok := x.Fun.(*ast.Ident); ok && id.Name == "len" && len(x.Args) == 1 && in.obj(id) == types.Universe.Lookup("len") {
			v := in.eval(x.Args[0], st)
			if v.form == "slice" {
				return sv{pos: v.pos, form: "len"}
			}
			return sv{form: "bad", why: "len of " + v.form + " " + v.why}
		}
	case *ast.IndexExpr:
		// S[i] where i is the index variable of the loop over S itself
		v := in.eval(x.X, st)
		if id, ok := x.Index.(*ast.Ident); ok && v.form == "slice" {
			if lvl, ok := st.idx[in.obj(id)]; ok && lvl-1 < len(st.loopPos) && st.loopPos[lvl-1] == v.pos {
				form := "struct"
				if in.c.steps[v.pos-1].leaf {
					form = "val"
				}
				return sv{pos: v.pos, form: form}
			}
		}
		return sv{form: "bad", why: "index expression that is not the current element of the enclosing loop"}
	}
	return sv{form: "bad", why: fmt.Sprintf("expr %T", e)}
}

// cond kinds: "absent" (pos), "idx" (level, threshold)
type cond struct {
	kind string
	pos  int
	lvl  int
	why  string
}

func (in *shredInterp) cond(e ast.Expr, st *shState) cond {
	if p, ok := e.(*ast.ParenExpr); ok {
		return in.cond(p.X, st)
	}
	b, ok := e.(*ast.BinaryExpr)
	if !ok {
		return cond{kind: "bad", why: "cond form"}
	}
	// nil tests of optional nodes
	if b.Op == token.EQL || b.Op == token.NEQ {
		if id, ok := b.Y.(*ast.Ident); ok && id.Name == "nil" {
			v := in.eval(b.X, st)
			if v.form == "ptr" {
				if b.Op == token.EQL {
					return cond{kind: "absent", pos: v.pos}
				}
				return cond{kind: "present", pos: v.pos}
			}
			return cond{kind: "bad", why: "nil test of " + v.form + " " + v.why}
		}
	}
	// index tests: i >= 1, i > 0 (i the index variable of an enclosing loop)
	if b.Op == token.GEQ || b.Op == token.GTR {
		if id, ok := b.X.(*ast.Ident); ok {
			if lvl, ok := st.idx[in.obj(id)]; ok {
				n, ok := in.tv.constInt(b.Y)
				if ok && ((b.Op == token.GEQ && n == 1) || (b.Op == token.GTR && n == 0)) {
					return cond{kind: "idx", lvl: lvl}
				}
			}
		}
	}
	// emptiness tests of repeated nodes: len(s) == 0 | != 0 | > 0 | >= 1, len(s) written out or held in a local
	if v := in.eval(b.X, st); v.form == "len" {
		if n, ok := in.tv.constInt(b.Y); ok {
			switch {
			case b.Op == token.EQL && n == 0, b.Op == token.LSS && n == 1, b.Op == token.LEQ && n == 0:
				return cond{kind: "absent", pos: v.pos}
			case b.Op == token.NEQ && n == 0, b.Op == token.GTR && n == 0, b.Op == token.GEQ && n == 1:
				return cond{kind: "present", pos: v.pos}
			}
		}
		return cond{kind: "bad", why: "unrecognised length test"}
	}
	return cond{kind: "bad", why: "unrecognised condition"}
}

func (in *shredInterp) flush(st *shState) {
	e := st.pend
	st.pend = nil
	if e == nil {
		return
	}
	c := in.c
	// determine context
	absentAt := 0
	nd := 0
	var key []string
	for i, s := range c.steps {
		if s.kind == Req {
			continue
		}
		p := st.present[i+1]
		if p == -1 {
			absentAt = i + 1
			break
		}
		if p != 1 {
			in.bad("emission without testing node %d", i+1)
			return
		}
		nd++
	}
	limit := len(c.steps)
	if absentAt > 0 {
		limit = absentAt - 1
		key = append(key, fmt.Sprintf("absent@%d", absentAt))
	} else {
		key = append(key, "full")
	}
	// loops must be exactly the rep nodes within limit
	var wantLoops []int
	for i := 0; i < limit; i++ {
		if c.steps[i].kind == Rep {
			wantLoops = append(wantLoops, i+1)
		}
	}
	if fmt.Sprint(wantLoops) != fmt.Sprint(st.loopPos) {
		in.bad("emission %v under loops %v, want %v", key, st.loopPos, wantLoops)
		return
	}
	wantRep := 0
	for j, first := range st.modes {
		if !first {
			wantRep = j + 1
		}
		key = append(key, map[bool]string{true: "F", false: "L"}[first])
	}
	k := strings.Join(key, ",")
	if in.seen[k] {
		in.bad("duplicate emission for %s", k)
	}
	in.seen[k] = true
	wantDef := nd
	if !e.hasDef || e.def != wantDef {
		in.bad("%s: def got %d want %d", k, e.def, wantDef)
	}
	if c.maxRep() > 0 {
		if !e.hasRep {
			in.bad("%s: no rep appended", k)
		} else if e.rep != wantRep {
			in.bad("%s: rep got %d want %d", k, e.rep, wantRep)
		}
	} else if e.hasRep {
		in.bad("%s: rep appended for non-repeated column", k)
	}
	if (absentAt == 0) != e.hasVal {
		in.bad("%s: value presence wrong", k)
	}
	if e.hasVal && !e.valOK {
		in.bad("%s: wrong value", k)
	}
}

func (in *shredInterp) exec(list []ast.Stmt, st *shState, k func(*shState)) {
	if len(list) == 0 {
		k(st)
		return
	}
	s, rest := list[0], list[1:]
	next := func(s2 *shState) { in.exec(rest, s2, k) }
	switch x := s.(type) {
	case *ast.DeclStmt:
		gd := x.Decl.(*ast.GenDecl)
		for _, sp := range gd.Specs {
			vs := sp.(*ast.ValueSpec)
			if len(vs.Names) == 1 && len(vs.Values) == 0 {
				in.lastRep = in.tv.info.Defs[vs.Names[0]]
				st.lastRep = 0
			} else {
				in.bad("unexpected decl")
			}
		}
		next(st)
	case *ast.AssignStmt:
		in.assign(x, st)
		next(st)
	case *ast.BlockStmt:
		in.exec(x.List, st, next)
	case *ast.IfStmt:
		if x.Init != nil {
			// `if n := len(s); n > 0`: a single-assignment local (scoped to the if) holding a length or an access path
			as, ok := x.Init.(*ast.AssignStmt)
			if !ok || as.Tok != token.DEFINE || !in.bindLocal(as, st) {
				in.bad("undecided: if with init")
				return
			}
		}
		c := in.cond(x.Cond, st)
		var elseList []ast.Stmt
		if x.Else != nil {
			elseList = []ast.Stmt{x.Else}
		}
		switch c.kind {
		case "present":
			a := st.clone()
			a.present[c.pos] = 1
			in.exec(x.Body.List, a, next)
			b := st.clone()
			b.present[c.pos] = -1
			in.exec(elseList, b, next)
		case "absent":
			a := st.clone()
			a.present[c.pos] = -1
			in.exec(x.Body.List, a, next)
			b := st.clone()
			b.present[c.pos] = 1
			in.exec(elseList, b, next)
		case "idx":
			if c.lvl-1 < len(st.modes) && !st.modes[c.lvl-1] {
				in.exec(x.Body.List, st, next)
			} else {
				in.exec(elseList, st, next)
			}
		default:
			in.bad("undecided: %s", c.why)
		}
	case *ast.SwitchStmt:
		if x.Tag != nil || x.Init != nil {
			in.bad("undecided: tagged switch")
			return
		}
		cur := st
		for _, cc := range x.Body.List {
			cl := cc.(*ast.CaseClause)
			if cl.List == nil {
				in.exec(cl.Body, cur, next)
				cur = nil
				break
			}
			if len(cl.List) != 1 {
				in.bad("undecided: multi-expr case")
				return
			}
			c := in.cond(cl.List[0], cur)
			if c.kind != "absent" && c.kind != "present" {
				in.bad("undecided: %s", c.why)
				return
			}
			in1, out1 := -1, 1
			if c.kind == "present" {
				in1, out1 = 1, -1
			}
			a := cur.clone()
			a.present[c.pos] = in1
			in.exec(cl.Body, a, next)
			cur = cur.clone()
			cur.present[c.pos] = out1
		}
		if cur != nil {
			next(cur)
		}
	case *ast.RangeStmt:
		v := in.eval(x.X, st)
		if v.form != "slice" {
			in.bad("range over %s %s", v.form, v.why)
			return
		}
		for _, first := range []bool{true, false} {
			b := st.clone()
			b.present[v.pos] = 1
			b.modes = append(b.modes, first)
			b.loopPos = append(b.loopPos, v.pos)
			if !first {
				b.lastRep = -1
			}
			if id, ok := x.Key.(*ast.Ident); ok && id.Name != "_" {
				b.idx[in.tv.info.Defs[id]] = len(b.modes)
			}
			if id, ok := x.Value.(*ast.Ident); ok && id.Name != "_" {
				form := "struct"
				if in.c.steps[v.pos-1].leaf {
					form = "val"
				}
				b.bind[in.tv.info.Defs[id]] = sv{pos: v.pos, form: form}
			}
			in.exec(x.Body.List, b, func(s2 *shState) { in.flush(s2) })
		}
		after := st.clone()
		after.lastRep = -1
		next(after)
	case *ast.ForStmt:
		// for i := 0; i < len(s) (or a local holding it); i++ { … s[i] … }: the index form of ranging over s
		pos, idx := in.indexLoop(x, st)
		if pos == 0 {
			in.bad("undecided: for statement that is not an index loop over a repeated node")
			return
		}
		for _, first := range []bool{true, false} {
			b := st.clone()
			b.present[pos] = 1
			b.modes = append(b.modes, first)
			b.loopPos = append(b.loopPos, pos)
			if !first {
				b.lastRep = -1
			}
			b.idx[idx] = len(b.modes)
			in.exec(x.Body.List, b, func(s2 *shState) { in.flush(s2) })
		}
		after := st.clone()
		after.lastRep = -1
		next(after)
	case *ast.ReturnStmt:
		in.flush(st)
	default:
		in.bad("undecided: stmt %T", s)
	}
}

func (in *shredInterp) assign(x *ast.AssignStmt, st *shState) {
	if len(x.Lhs) != 1 || len(x.Rhs) != 1 {
		in.bad("undecided: assign arity")
		return
	}
	lhs, ok := x.Lhs[0].(*ast.Ident)
	if !ok {
		in.bad("undecided: assign lhs")
		return
	}
	if x.Tok == token.DEFINE && in.tv.info.Defs[lhs] != nil {
		if !in.bindLocal(x, st) {
			in.bad("undecided: local %s is not an access path or a length", lhs.Name)
		}
		return
	}
	lo := in.obj(lhs)
	if lo == in.lastRep && lo != nil {
		if n, ok := in.tv.constInt(x.Rhs[0]); ok {
			st.lastRep = n
		} else {
			in.bad("undecided: lastRep rhs")
		}
		return
	}
	call, ok := x.Rhs[0].(*ast.CallExpr)
	if !ok || len(call.Args) != 2 {
		in.bad("undecided: assign rhs")
		return
	}
	if id, ok := call.Fun.(*ast.Ident); !ok || id.Name != "append" {
		in.bad("undecided: call")
		return
	}
	if a0, ok := call.Args[0].(*ast.Ident); !ok || in.obj(a0) != lo {
		in.bad("append to different slice")
		return
	}
	switch lo {
	case in.params["defs"]:
		n, ok := in.tv.constInt(call.Args[1])
		if !ok {
			in.bad("def not constant")
		}
		if st.pend != nil && !st.pend.hasDef {
			st.pend.def, st.pend.hasDef = n, true
		} else {
			in.flush(st)
			st.pend = &emission{def: n, hasDef: true}
		}
	case in.params["reps"]:
		if st.pend == nil {
			in.bad("rep before def")
			return
		}
		st.pend.hasRep = true
		if id, ok := call.Args[1].(*ast.Ident); ok && in.obj(id) == in.lastRep {
			st.pend.rep = st.lastRep
			if st.lastRep < 0 {
				in.bad("rep value unknown (stale lastRep)")
			}
		} else if n, ok := in.tv.constInt(call.Args[1]); ok {
			st.pend.rep = n
		} else {
			in.bad("undecided: rep expr")
		}
	case in.params["vals"]:
		// value may come before def (readOptional form): attach to pending or create
		v := in.eval(call.Args[1], st)
		okv := v.form == "val" && v.pos == len(in.c.steps)
		if !okv {
			in.bad("value expr: %s %s pos %d", v.form, v.why, v.pos)
		}
		if st.pend == nil {
			st.pend = &emission{}
		}
		st.pend.hasVal = true
		st.pend.valOK = okv
	default:
		in.bad("undecided: assign to %s", lhs.Name)
	}
}

func (tv *tvChecker) checkShred(c *column, fd *ast.FuncDecl) ([]string, int) {
	in := &shredInterp{tv: tv, c: c, seen: map[string]bool{}, params: map[string]types.Object{}, fd: fd}
	st := &shState{present: map[int]int{}, lastRep: -1, bind: map[types.Object]sv{}, idx: map[types.Object]int{}}
	// parameters by position: the record, then (for columns with levels) values, definition levels, repetition levels
	var plist []types.Object
	for _, f := range fd.Type.Params.List {
		for _, n := range f.Names {
			plist = append(plist, tv.info.Defs[n])
		}
	}
	for i, role := range []string{"x", "vals", "defs", "reps"} {
		if i < len(plist) {
			in.params[role] = plist[i]
		}
	}
	xo := in.params["x"]
	st.bind[xo] = sv{pos: 0, form: "struct"}
	if c.maxDef() == 0 {
		// required: (optional single-assignment locals, then) a return of the leaf's access path
		body := fd.Body.List
		for len(body) > 1 {
			as, ok := body[0].(*ast.AssignStmt)
			if !ok || as.Tok != token.DEFINE || len(as.Lhs) != 1 || len(as.Rhs) != 1 {
				break
			}
			id, ok := as.Lhs[0].(*ast.Ident)
			if !ok {
				break
			}
			st.bind[tv.info.Defs[id]] = in.eval(as.Rhs[0], st)
			body = body[1:]
		}
		if len(body) == 1 {
			if r, ok := body[0].(*ast.ReturnStmt); ok && len(r.Results) == 1 {
				v := in.eval(r.Results[0], st)
				if v.form == "val" && v.pos == len(c.steps) {
					return nil, 1
				}
				return []string{"required read returns " + v.form + " " + v.why}, 1
			}
		}
		return []string{"undecided: required read form"}, 1
	}
	// vals-before-def ordering in readOptional: handle by letting vals create pending, defs merges
	in.execTop(fd.Body.List, st)
	// expected keys
	var want []string
	var gen func(limit int, label string)
	gen = func(limit int, label string) {
		nl := 0
		for i := 0; i < limit; i++ {
			if c.steps[i].kind == Rep {
				nl++
			}
		}
		for m := 0; m < 1<<nl; m++ {
			k := []string{label}
			for j := 0; j < nl; j++ {
				if m&(1<<j) == 0 {
					k = append(k, "F")
				} else {
					k = append(k, "L")
				}
			}
			want = append(want, strings.Join(k, ","))
		}
	}
	for i, s := range c.steps {
		if s.kind != Req {
			gen(i, fmt.Sprintf("absent@%d", i+1))
		}
	}
	gen(len(c.steps), "full")
	sort.Strings(want)
	for _, k := range want {
		if !in.seen[k] {
			in.bad("missing emission for %s", k)
		}
	}
	return in.viol, len(want)
}

func (in *shredInterp) execTop(list []ast.Stmt, st *shState) {
	in.exec(list, st, func(s *shState) { in.flush(s) })
}

// bindLocal: `v := <access path | len(path) | path[i]>` introduces a read-only name for that value.
func (in *shredInterp) bindLocal(as *ast.AssignStmt, st *shState) bool {
	if len(as.Lhs) != 1 || len(as.Rhs) != 1 {
		return false
	}
	id, ok := as.Lhs[0].(*ast.Ident)
	if !ok || in.tv.info.Defs[id] == nil {
		return false
	}
	v := in.eval(as.Rhs[0], st)
	if v.form == "bad" {
		return false
	}
	if !in.singleAssignment(in.tv.info.Defs[id]) {
		return false
	}
	st.bind[in.tv.info.Defs[id]] = v
	return true
}

// singleAssignment: the object is never assigned again (no `=`/op-assign/inc-dec with it on the left, no address taken).
func (in *shredInterp) singleAssignment(o types.Object) bool {
	ok := true
	ast.Inspect(in.fd, func(n ast.Node) bool {
		switch x := n.(type) {
		case *ast.AssignStmt:
			if x.Tok != token.DEFINE {
				for _, l := range x.Lhs {
					if id, isId := l.(*ast.Ident); isId && in.obj(id) == o {
						ok = false
					}
				}
			}
		case *ast.IncDecStmt:
			if id, isId := x.X.(*ast.Ident); isId && in.obj(id) == o {
				ok = false
			}
		case *ast.UnaryExpr:
			if id, isId := x.X.(*ast.Ident); isId && x.Op == token.AND && in.obj(id) == o {
				ok = false
			}
		}
		return true
	})
	return ok
}

// indexLoop recognises `for i := 0; i < N; i++` with N = len(s) or a local bound to it, i modified only by the post
// statement; returns the position of s and the index variable.
func (in *shredInterp) indexLoop(x *ast.ForStmt, st *shState) (int, types.Object) {
	init, ok := x.Init.(*ast.AssignStmt)
	if !ok || init.Tok != token.DEFINE || len(init.Lhs) != 1 || len(init.Rhs) != 1 {
		return 0, nil
	}
	id, ok := init.Lhs[0].(*ast.Ident)
	if !ok {
		return 0, nil
	}
	iv := in.tv.info.Defs[id]
	if n, ok := in.tv.constInt(init.Rhs[0]); !ok || n != 0 || iv == nil {
		return 0, nil
	}
	post, ok := x.Post.(*ast.IncDecStmt)
	if !ok || post.Tok != token.INC {
		return 0, nil
	}
	if pid, ok := post.X.(*ast.Ident); !ok || in.obj(pid) != iv {
		return 0, nil
	}
	cnd, ok := x.Cond.(*ast.BinaryExpr)
	if !ok || cnd.Op != token.LSS {
		return 0, nil
	}
	if cid, ok := cnd.X.(*ast.Ident); !ok || in.obj(cid) != iv {
		return 0, nil
	}
	bound := in.eval(cnd.Y, st)
	if bound.form != "len" {
		return 0, nil
	}
	// the index variable is not written in the body
	clean := true
	ast.Inspect(x.Body, func(n ast.Node) bool {
		switch y := n.(type) {
		case *ast.AssignStmt:
			for _, l := range y.Lhs {
				if lid, isId := l.(*ast.Ident); isId && in.obj(lid) == iv {
					clean = false
				}
			}
		case *ast.IncDecStmt:
			if lid, isId := y.X.(*ast.Ident); isId && in.obj(lid) == iv {
				clean = false
			}
		case *ast.UnaryExpr:
			if lid, isId := y.X.(*ast.Ident); isId && y.Op == token.AND && in.obj(lid) == iv {
				clean = false
			}
		}
		return true
	})
	if !clean {
		return 0, nil
	}
	return bound.pos, iv
}
