package main

// C13 — instance isolation (DESIGN.md §4 PO, GL, ND): pooled-buffer ownership,
// package-level state, sources of nondeterminism.

import (
	"fmt"
	"go/constant"
	"go/token"
	"go/types"
	"sort"
	"strings"

	"golang.org/x/tools/go/ssa"
)

func init() {
	register("C13", "other", LoadOpts{TC: true, SSA: true, Controls: []string{"nd", "gl", "po"}}, checkC13)
}

const poolGet = "(*github.com/valyala/bytebufferpool.Pool).Get"
const poolPut = "(*github.com/valyala/bytebufferpool.Pool).Put"

// any object pool: what Get hands out may be handed to another instance as soon as it has been Put back
func isPoolGet(name string) bool { return name == poolGet || name == "(*sync.Pool).Get" }
func isPoolPut(name string) bool { return name == poolPut || name == "(*sync.Pool).Put" }

func fullCalleeName(c *ssa.CallCommon) string {
	if c.IsInvoke() {
		return "invoke " + c.Method.FullName()
	}
	if sc := c.StaticCallee(); sc != nil {
		return sc.String()
	}
	if b, ok := c.Value.(*ssa.Builtin); ok {
		return "builtin " + b.Name()
	}
	return "dynamic"
}

// Opaque callees that neither retain nor mutate a byte slice / buffer handed to them (DESIGN.md §3.4).
var nonRetaining = map[string]string{
	"invoke (io.Writer).Write":                                    "io.Writer contract: must not retain or modify p",
	"github.com/golang/snappy.Encode":                             "dst is overwritten before it is read; src is only read",
	"github.com/golang/snappy.MaxEncodedLen":                      "",
	"(*compress/gzip.Writer).Write":                               "compresses into the underlying writer, does not retain p",
	"(*compress/gzip.Writer).Close":                               "",
	"compress/gzip.NewWriterLevel":                                "returned writer wraps the buffer (alias)",
	"(*github.com/valyala/bytebufferpool.ByteBuffer).Write":       "",
	"(*github.com/valyala/bytebufferpool.ByteBuffer).WriteString": "",
	"(*github.com/valyala/bytebufferpool.ByteBuffer).WriteByte":   "",
	"(*github.com/valyala/bytebufferpool.ByteBuffer).Bytes":       "returns the buffer's bytes (alias)",
	"(*github.com/valyala/bytebufferpool.ByteBuffer).Len":         "",
	"(*github.com/valyala/bytebufferpool.ByteBuffer).Reset":       "",
	"encoding/binary.Write":                                       "",
	"(*bytes.Buffer).Bytes":                                       "returns the buffer's bytes (alias)",
	"(*bytes.Buffer).Reset":                                       "",
	"(*bytes.Buffer).Len":                                         "",
	"(*bytes.Buffer).Write":                                       "",
	"(*bytes.Buffer).String":                                      "copies",
	"(encoding/binary.littleEndian).PutUint32":                    "",
	"(encoding/binary.littleEndian).PutUint64":                    "",
	"(encoding/binary.littleEndian).PutUint16":                    "",
}

var returnsAliasOpaque = map[string]bool{
	"github.com/golang/snappy.Encode":                       true,
	"(*github.com/valyala/bytebufferpool.ByteBuffer).Bytes": true,
	"compress/gzip.NewWriterLevel":                          true,
	"(*bytes.Buffer).Bytes":                                 true,
}

type poSummary struct {
	al       map[ssa.Value]bool
	retAlias map[int]bool
	escapes  []string // violations
	undec    []string
	dirty    bool     // the buffer's bytes are resliced upward (stale contents exposed) inside
	stale    []string // PO3 violations
	reslices int
}

type poAn struct {
	u    *Universe
	memo map[string]*poSummary
}

func (p *poAn) param(f *ssa.Function, i int) *poSummary {
	key := fmt.Sprintf("%s#%d", f.String(), i)
	if s, ok := p.memo[key]; ok {
		return s
	}
	p.memo[key] = &poSummary{retAlias: map[int]bool{}} // recursion guard
	s := p.analyse(f, []ssa.Value{f.Params[i]}, false)
	p.memo[key] = s
	return s
}

// reachableAfter: instructions reachable in the CFG strictly after ins.
func reachableAfter(ins ssa.Instruction) map[ssa.Instruction]bool {
	out := map[ssa.Instruction]bool{}
	b := ins.Block()
	seen := map[*ssa.BasicBlock]bool{}
	var visit func(bb *ssa.BasicBlock)
	visit = func(bb *ssa.BasicBlock) {
		if seen[bb] {
			return
		}
		seen[bb] = true
		for _, i := range bb.Instrs {
			out[i] = true
		}
		for _, s := range bb.Succs {
			visit(s)
		}
	}
	after := false
	for _, i := range b.Instrs {
		if after {
			out[i] = true
		}
		if i == ins {
			after = true
		}
	}
	for _, s := range b.Succs {
		visit(s)
	}
	return out
}

func (p *poAn) analyse(f *ssa.Function, seeds []ssa.Value, owner bool) *poSummary {
	u := p.u
	sum := &poSummary{retAlias: map[int]bool{}}
	al := map[ssa.Value]bool{}
	clean := map[ssa.Value]bool{} // results of a call that overwrote the (dirtied) buffer: fully written bytes
	for _, s := range seeds {
		al[s] = true
	}
	seenMsg := map[string]bool{}
	esc := func(format string, x ...interface{}) {
		m := u.FnName(f) + ": " + fmt.Sprintf(format, x...)
		if !seenMsg[m] {
			seenMsg[m] = true
			sum.escapes = append(sum.escapes, m)
		}
	}
	und := func(format string, x ...interface{}) {
		m := u.FnName(f) + ": " + fmt.Sprintf(format, x...)
		if !seenMsg[m] {
			seenMsg[m] = true
			sum.undec = append(sum.undec, m)
		}
	}
	type dirtying struct {
		ins ssa.Instruction
		why string
	}
	var dirties []dirtying
	for changed := true; changed; {
		changed = false
		add := func(v ssa.Value) {
			if v != nil && !al[v] {
				al[v] = true
				changed = true
			}
		}
		for _, b := range f.Blocks {
			for _, ins := range b.Instrs {
				switch x := ins.(type) {
				case *ssa.Phi:
					for _, e := range x.Edges {
						if al[e] {
							add(x)
						}
					}
				case *ssa.FieldAddr:
					if al[x.X] {
						add(x)
					}
				case *ssa.IndexAddr:
					if al[x.X] {
						add(x)
					}
				case *ssa.UnOp:
					if x.Op == token.MUL && al[x.X] {
						switch x.Type().Underlying().(type) {
						case *types.Slice, *types.Pointer, *types.Interface, *types.Struct:
							add(x)
						}
					}
				case *ssa.Slice:
					if al[x.X] {
						add(x)
					}
				case *ssa.MakeInterface:
					if al[x.X] {
						add(x)
					}
				case *ssa.ChangeInterface:
					if al[x.X] {
						add(x)
					}
				case *ssa.ChangeType:
					if al[x.X] {
						add(x)
					}
				case *ssa.Convert:
					// string(b) copies; []byte(s) copies: no alias
				case *ssa.TypeAssert:
					if al[x.X] {
						add(x)
					}
				case *ssa.Store:
					if al[x.Val] {
						if al[x.Addr] {
							break // into the buffer's own memory (buf.B = …) or a wrapper already tracked
						}
						if a0, ok := x.Addr.(*ssa.Alloc); ok {
							add(a0) // local cell (incl. defer spill) — tracked; escaping the cell is caught when the cell itself flows
							break
						}
						if fa, ok := x.Addr.(*ssa.FieldAddr); ok {
							if a0, ok := fa.X.(*ssa.Alloc); ok {
								add(a0) // local struct wrapper, e.g. &writeCounter{w: buf}
								add(fa)
								break
							}
						}
						if ia, ok := x.Addr.(*ssa.IndexAddr); ok {
							if a0, ok := ia.X.(*ssa.Alloc); ok {
								add(a0) // variadic argument array
								add(ia)
								break
							}
						}
						esc("a pooled buffer (or a slice of its bytes) is stored into memory that outlives the Get…Put window at %s", u.Pos(x.Pos()))
					}
				case *ssa.MapUpdate:
					if al[x.Value] || al[x.Key] {
						esc("a pooled buffer is stored into a map at %s", u.Pos(x.Pos()))
					}
				case *ssa.Return:
					for i, r := range x.Results {
						if al[r] && !clean[r] || al[r] && clean[r] {
							if owner {
								esc("bytes of a pooled buffer are returned by the function that Puts it back at %s", u.Pos(x.Pos()))
							} else {
								if !sum.retAlias[i] {
									sum.retAlias[i] = true
									changed = true
								}
							}
						}
					}
				case *ssa.MakeClosure:
					for _, bnd := range x.Bindings {
						if al[bnd] {
							esc("a pooled buffer is captured by a closure at %s", u.Pos(x.Pos()))
						}
					}
				case *ssa.Send:
					if al[x.X] {
						esc("a pooled buffer is sent on a channel at %s", u.Pos(x.Pos()))
					}
				case *ssa.Go:
					for _, a := range callArgs(x.Common()) {
						if al[a] {
							esc("a pooled buffer is handed to a new goroutine at %s", u.Pos(x.Pos()))
						}
					}
				case ssa.CallInstruction:
					c := x.Common()
					args := callArgs(c)
					var idxs []int
					for i, v := range args {
						if al[v] {
							idxs = append(idxs, i)
						}
					}
					if len(idxs) == 0 {
						break
					}
					name := fullCalleeName(c)
					val, _ := x.(ssa.Value)
					addResult := func(ri int, all bool) {
						if val == nil {
							return
						}
						if _, isT := val.Type().(*types.Tuple); isT {
							for _, ref := range *val.Referrers() {
								if ex, ok := ref.(*ssa.Extract); ok && (all && !isErr(ex.Type()) || ex.Index == ri) {
									add(ex)
								}
							}
						} else {
							add(val)
						}
					}
					if bi, ok := c.Value.(*ssa.Builtin); ok {
						switch bi.Name() {
						case "len", "cap", "copy", "print", "println":
						case "append":
							// append(alias, …) may return the alias; append(x, alias...) copies bytes out
							if len(c.Args) > 0 && al[c.Args[0]] {
								add(val)
							}
						default:
							und("builtin %s applied to a pooled buffer at %s", bi.Name(), u.Pos(x.Pos()))
						}
						break
					}
					var uniCallees []*ssa.Function
					for _, cal := range u.Callees(x) {
						if u.InUniverse(cal) && cal.Blocks != nil {
							uniCallees = append(uniCallees, cal)
						}
					}
					if len(uniCallees) > 0 {
						for _, cal := range uniCallees {
							for _, i := range idxs {
								if i >= len(cal.Params) {
									continue
								}
								s2 := p.param(cal, i)
								for _, e := range s2.escapes {
									if !seenMsg[e] {
										seenMsg[e] = true
										sum.escapes = append(sum.escapes, e)
									}
								}
								for _, e := range s2.undec {
									if !seenMsg[e] {
										seenMsg[e] = true
										sum.undec = append(sum.undec, e)
									}
								}
								for _, e := range s2.stale {
									if !seenMsg[e] {
										seenMsg[e] = true
										sum.stale = append(sum.stale, e)
									}
								}
								sum.reslices += 0
								for ri := range s2.retAlias {
									addResult(ri, false)
								}
								if s2.dirty {
									found := false
									for _, d := range dirties {
										if d.ins == ins {
											found = true
										}
									}
									if !found {
										dirties = append(dirties, dirtying{ins, "call to " + u.FnName(cal) + " reslices the buffer upward"})
										sum.dirty = true
										changed = true
									}
									// its results are freshly written bytes
									if val != nil {
										if _, isT := val.Type().(*types.Tuple); isT {
											for _, ref := range *val.Referrers() {
												if ex, ok := ref.(*ssa.Extract); ok {
													clean[ex] = true
												}
											}
										} else {
											clean[val] = true
										}
									}
								}
							}
						}
						break
					}
					if isPoolPut(name) {
						break
					}
					why, ok := nonRetaining[name]
					_ = why
					if !ok {
						und("opaque callee %s receives a pooled buffer at %s and is in no non-retaining contract table", name, u.Pos(x.Pos()))
						break
					}
					if returnsAliasOpaque[name] {
						addResult(-1, true)
						if name == "github.com/golang/snappy.Encode" && val != nil {
							clean[val] = true
						}
					}
				}
			}
		}
	}
	// PO3: upward reslices of the buffer's bytes and what may observe them afterwards
	for _, b := range f.Blocks {
		for _, ins := range b.Instrs {
			sl, ok := ins.(*ssa.Slice)
			if !ok || !al[sl.X] || sl.High == nil {
				continue
			}
			if _, isSlice := sl.X.Type().Underlying().(*types.Slice); !isSlice {
				continue
			}
			if clean[sl.X] {
				continue
			}
			// x[:len(x)] or a constant-0 high cannot expose anything
			if c, ok := sl.High.(*ssa.Const); ok && c.Value != nil && c.Value.Kind() == constant.Int {
				if v, _ := constant.Int64Val(c.Value); v == 0 {
					continue
				}
			}
			sum.reslices++
			sum.dirty = true
			dirties = append(dirties, dirtying{ins, "reslice with an explicit upper bound at " + u.Pos(sl.Pos())})
		}
	}
	for _, d := range dirties {
		after := reachableAfter(d.ins)
		// a phi is clean after d when every edge that can be taken after d carries a clean (fully rewritten) or non-alias value
		afterBlk := map[*ssa.BasicBlock]bool{}
		for ins := range after {
			afterBlk[ins.Block()] = true
		}
		clean := func() map[ssa.Value]bool {
			m := map[ssa.Value]bool{}
			for k, v := range clean {
				m[k] = v
			}
			for changed := true; changed; {
				changed = false
				for _, b := range f.Blocks {
					for _, ins := range b.Instrs {
						phi, ok := ins.(*ssa.Phi)
						if !ok {
							break
						}
						if m[phi] {
							continue
						}
						ok = true
						for i, e := range phi.Edges {
							if afterBlk[b.Preds[i]] && al[e] && !m[e] {
								ok = false
							}
						}
						if ok {
							m[phi] = true
							changed = true
						}
					}
				}
			}
			return m
		}()
		for ins := range after {
			// which alias values does ins read?
			var reads []ssa.Value
			for _, op := range ins.Operands(nil) {
				if *op != nil && al[*op] && !clean[*op] {
					reads = append(reads, *op)
				}
			}
			if len(reads) == 0 {
				continue
			}
			switch x := ins.(type) {
			case *ssa.Store:
				if al[x.Addr] {
					continue // bookkeeping inside the buffer / wrapper
				}
				if _, ok := x.Addr.(*ssa.Alloc); ok {
					continue
				}
			case *ssa.FieldAddr, *ssa.IndexAddr, *ssa.UnOp, *ssa.Phi, *ssa.Slice, *ssa.MakeInterface, *ssa.ChangeInterface, *ssa.Extract, *ssa.DebugRef:
				continue // address/alias computation; the consumer is what matters
			case ssa.CallInstruction:
				c := x.Common()
				name := fullCalleeName(c)
				if isPoolPut(name) || name == "builtin len" || name == "builtin cap" {
					continue
				}
				if name == "github.com/golang/snappy.Encode" && len(c.Args) == 2 && al[c.Args[0]] && !(al[c.Args[1]] && !clean[c.Args[1]]) {
					continue // dst of Encode: overwritten before it is read
				}
				if name == "github.com/golang/snappy.MaxEncodedLen" {
					continue
				}
				if _, isDefer := ins.(*ssa.Defer); isDefer {
					continue
				}
				if _, isRun := ins.(*ssa.RunDefers); isRun {
					continue
				}
				m := fmt.Sprintf("%s: stale bytes of a pooled buffer may be observed: after %s, %s reads the buffer at %s", u.FnName(f), d.why, name, u.Pos(ins.Pos()))
				if !seenMsg[m] {
					seenMsg[m] = true
					sum.stale = append(sum.stale, m)
				}
				continue
			case *ssa.Return:
				m := fmt.Sprintf("%s: stale bytes of a pooled buffer may be observed: after %s the buffer's bytes are returned at %s", u.FnName(f), d.why, u.Pos(ins.Pos()))
				if !seenMsg[m] {
					seenMsg[m] = true
					sum.stale = append(sum.stale, m)
				}
				continue
			}
		}
	}
	sort.Strings(sum.escapes)
	sort.Strings(sum.undec)
	sort.Strings(sum.stale)
	sum.al = al
	return sum
}

func checkC13(c *Ctx) {
	r, u := c.R, c.U
	r.Explanation = "Decides C13 through a sufficient structural condition over the runtime and freshly instantiated template code: (PO) every bytebufferpool Get is paired with a Put that runs only after the last use (deferred), no alias of a pooled buffer is returned, stored, captured or passed to a callee that retains it, and bytes left by a previous user can only be observed by reslicing upward, which happens once and only as snappy's overwritten dst; (GL) every package-level variable is a concurrency-safe pool or frozen after init; (ND) the code reachable from the API has no goroutines, channels, select, map iteration, clock, randomness, environment, unsafe or %p. A sequential program over instance-owned memory with no shared mutable state computes a function of its own call history and cannot race with another instance."
	p := &poAn{u: u, memo: map[string]*poSummary{}}
	// PO
	reslices := 0
	for _, f := range u.Funcs {
		if u.isCtl(f) {
			continue
		}
		poFunction(u, p, r, f)
	}
	c.controlsPO()
	for _, s := range p.memo {
		reslices += s.reslices
	}
	r.count("PO/upward-reslices", reslices)
	n := len(u.TC)
	r.floor("PO/get-sites", 1+n, "RequiredField.DoWrite 1, OptionalField.DoWrite 2, and ≥3 generated Write methods per package")
	r.floor("PO/upward-reslices", 1, "compress, snappy branch")
	checkGL(c)
	checkND(c)
	checkCallerSlices(c)
	r.assume("bytebufferpool.Pool is concurrency-safe (sync.Pool + atomics); Put resets the length to 0 so stale bytes are only reachable by reslicing upward")
	r.assume("thrift serialisation, snappy and gzip (zero Header) are deterministic and keep no cross-instance state")
	r.assume("io.Writer contract: Write neither retains nor modifies p")
}

// --- GL ---

var concurrencySafeTypes = map[string]bool{
	"github.com/valyala/bytebufferpool.Pool": true,
	"sync.Pool":                              true,
	"sync.Mutex":                             true,
	"sync.Once":                              true,
}

func checkGL(c *Ctx) {
	r, u := c.R, c.U
	var paths []string
	for p := range u.uni {
		paths = append(paths, p)
	}
	sort.Strings(paths)
	for _, path := range paths {
		sp := u.SSAPkgs[path]
		if sp == nil || strings.HasPrefix(path, "uni/ctl/") {
			continue
		}
		var names []string
		for n, m := range sp.Members {
			if _, ok := m.(*ssa.Global); ok {
				names = append(names, n)
			}
		}
		sort.Strings(names)
		for _, n := range names {
			g := sp.Members[n].(*ssa.Global)
			if strings.HasPrefix(n, "init$") {
				continue
			}
			r.count("GL/globals", 1)
			key := strings.ReplaceAll(path, "uni/tc/", "tc/") + "." + n
			key = strings.ReplaceAll(key, "github.com/parsyl/parquet", "parquet")
			pos := u.Pos(g.Pos())
			elem := g.Type().(*types.Pointer).Elem()
			if concurrencySafeTypes[elem.String()] {
				r.ok("GL", key, pos, "concurrency-safe type "+elem.String())
				continue
			}
			bad, und := globalMutations(u, g)
			if len(bad) > 0 {
				r.bad("GL", key, pos, "shared mutable state: "+strings.Join(bad, "; "))
			} else if len(und) > 0 {
				r.undecided("GL", key, pos, strings.Join(und, "; "))
			} else {
				r.ok("GL", key, pos, "frozen: never stored to outside init, never handed to a mutating callee")
			}
		}
	}
	c.controlsGL()
	r.floor("GL/globals", 1+len(u.TC), "parquet.buffpool, parquet.fieldFuncs; buffpool and par1 per generated package")
}

var nonMutating = map[string]bool{
	"invoke (io.Writer).Write": true,
	"builtin len":              true,
	"builtin cap":              true,
}

// globalMutations walks everything derived from the global's address.
func globalMutations(u *Universe, g *ssa.Global) (bad, und []string) {
	seen := map[ssa.Value]bool{}
	var walk func(v ssa.Value, isAddr bool)
	walk = func(v ssa.Value, isAddr bool) {
		if seen[v] {
			return
		}
		seen[v] = true
		refs := v.Referrers()
		if refs == nil {
			// globals have no referrer lists: scan the universe
			for _, f := range u.Funcs {
				for _, b := range f.Blocks {
					for _, ins := range b.Instrs {
						for _, op := range ins.Operands(nil) {
							if *op == v {
								useOfGlobal(u, v, ins, f, &bad, &und, walk)
							}
						}
					}
				}
			}
			return
		}
		for _, ins := range *refs {
			useOfGlobal(u, v, ins, ins.Parent(), &bad, &und, walk)
		}
	}
	walk(g, true)
	sort.Strings(bad)
	sort.Strings(und)
	return
}

func useOfGlobal(u *Universe, v ssa.Value, ins ssa.Instruction, f *ssa.Function, bad, und *[]string, walk func(ssa.Value, bool)) {
	inInit := f != nil && (f.Name() == "init" || strings.HasPrefix(f.Name(), "init#")) && f.Parent() == nil
	pos := u.Pos(ins.Pos())
	if !ins.Pos().IsValid() && f != nil {
		pos = u.FnName(f)
	}
	switch x := ins.(type) {
	case *ssa.Store:
		if x.Addr == v && glCopyAddr[v] {
			// a store into the copy's own cells does not touch the variable
		} else if x.Addr == v && !inInit {
			*bad = append(*bad, "written at "+pos)
		} else if x.Val == v && !inInit && glCopy[v] {
			// a struct copied out of the variable keeps pointing at the variable's slices / maps: follow the copy
			if al, ok := x.Addr.(*ssa.Alloc); ok {
				glCopy[al] = true
				glCopyAddr[al] = true
				walk(al, true)
			} else {
				*und = append(*und, "a copy of it (sharing its reference-typed fields) is stored at "+pos)
			}
		} else if x.Val == v && !inInit {
			// a reference to shared memory is stored somewhere: follow the address
			*und = append(*und, "a reference to it is stored at "+pos)
		}
	case *ssa.UnOp:
		if x.Op == token.MUL {
			switch x.Type().Underlying().(type) {
			case *types.Slice, *types.Map, *types.Pointer, *types.Interface, *types.Chan:
				walk(x, false)
			case *types.Struct, *types.Array:
				if len(refFields(x.Type())) > 0 && !inInit {
					glCopy[x] = true
					walk(x, false)
				}
			}
		}
	case *ssa.FieldAddr, *ssa.IndexAddr:
		if glCopyAddr[v] {
			// a cell of the copy itself (not storage the variable refers to)
			if fa, ok := x.(*ssa.FieldAddr); ok && fa.X == v {
				glCopyAddr[fa] = true
			}
			if ia, ok := x.(*ssa.IndexAddr); ok && ia.X == v {
				if _, isArr := v.Type().Underlying().(*types.Pointer).Elem().Underlying().(*types.Array); isArr {
					glCopyAddr[ia] = true
				}
			}
		}
		walk(x.(ssa.Value), true)
	case *ssa.Slice:
		walk(x, false)
	case *ssa.Index, *ssa.Lookup, *ssa.Field, *ssa.Extract, *ssa.DebugRef, *ssa.Range, *ssa.Next, *ssa.BinOp:
		if val, ok := ins.(ssa.Value); ok {
			switch val.Type().Underlying().(type) {
			case *types.Slice, *types.Map, *types.Pointer:
				walk(val, false)
			}
		}
	case *ssa.Phi:
		walk(x, false)
	case *ssa.MapUpdate:
		if x.Map == v && !inInit {
			*bad = append(*bad, "map updated at "+pos)
		}
	case *ssa.MakeInterface, *ssa.ChangeInterface, *ssa.ChangeType:
		walk(x.(ssa.Value), false)
	case *ssa.Return:
		if glCopy[v] {
			// an object initialised by copying the variable is handed out: harmless only if nothing is ever written
			// through the reference-typed fields it shares with the variable (and with every other such object)
			var t types.Type = v.Type()
			if pt, ok := t.Underlying().(*types.Pointer); ok {
				t = pt.Elem()
			}
			// fields the function replaces in the copy before handing it out are the object's own
			replaced := map[*types.Var]bool{}
			if v.Referrers() != nil {
				for _, ref := range *v.Referrers() {
					if fa, ok := ref.(*ssa.FieldAddr); ok {
						for _, r2 := range *fa.Referrers() {
							if st, ok := r2.(*ssa.Store); ok && st.Addr == ssa.Value(fa) {
								replaced[fieldOf(fa)] = true
							}
						}
					}
				}
			}
			var shared []string
			for _, fl := range refFields(t) {
				if replaced[fl] {
					continue
				}
				if w := fieldWrittenThrough(u, fl); w != "" {
					shared = append(shared, fl.Name()+" ("+w+")")
				}
			}
			if len(shared) > 0 {
				*bad = append(*bad, "objects returned at "+pos+" are shallow copies of it and share the storage of "+strings.Join(shared, ", ")+" with it and with each other")
			}
			return
		}
		*und = append(*und, "a reference to it is returned at "+pos)
	case *ssa.MakeClosure:
		*und = append(*und, "captured by a closure at "+pos)
	case ssa.CallInstruction:
		c := x.Common()
		name := fullCalleeName(c)
		if nonMutating[name] {
			return
		}
		if bi, ok := c.Value.(*ssa.Builtin); ok {
			if inInit {
				return // filled during package initialisation, before any instance exists
			}
			if bi.Name() == "append" && len(c.Args) > 0 && c.Args[0] == v {
				*bad = append(*bad, "append onto it at "+pos+" may write into its backing array")
			} else if bi.Name() == "copy" && len(c.Args) > 0 && c.Args[0] == v {
				*bad = append(*bad, "copy into it at "+pos)
			}
			return
		}
		uni := false
		for _, cal := range u.Callees(x) {
			if u.InUniverse(cal) && cal.Blocks != nil {
				uni = true
				for i, a := range callArgs(c) {
					if a == v && i < len(cal.Params) {
						walk(cal.Params[i], false)
					}
				}
			}
		}
		if !uni {
			*und = append(*und, "handed to opaque callee "+name+" at "+pos+" (not in the non-mutating table)")
		}
	}
}

// --- ND ---

var ndPkgs = map[string]string{
	"time":        "clock",
	"math/rand":   "randomness",
	"crypto/rand": "randomness",
	"os":          "environment / process state",
	"runtime":     "scheduler / runtime state",
	"unsafe":      "unsafe",
	"reflect":     "reflection (can reach unexported shared state)",
	"sync/atomic": "shared-memory primitive",
}

func apiRoots(c *Ctx) []*ssa.Function {
	u := c.U
	var roots []*ssa.Function
	add := func(pkg, name string) {
		if f := u.Func(pkg, name); f != nil {
			roots = append(roots, f)
		} else {
			c.R.failf("API root %s missing in %s", name, pkg)
		}
	}
	for _, p := range u.TC {
		for _, n := range []string{"NewParquetWriter", "ParquetWriter.Add", "ParquetWriter.Write", "ParquetWriter.Close",
			"NewParquetReader", "ParquetReader.Next", "ParquetReader.Scan", "ParquetReader.Error", "ParquetReader.Rows",
			"MaxPageSize", "Uncompressed", "Snappy", "Gzip", "Fields"} {
			add(p, n)
		}
	}
	for _, n := range []string{"ReadMetaData", "PageHeaders", "PageHeadersAtOffset", "Metadata.ReadFooter"} {
		add(rtPath, n)
	}
	return roots
}

func checkND(c *Ctx) {
	r, u := c.R, c.U
	reach := u.reach(apiRoots(c))
	r.Analysed["functions_reachable_from_api_roots"] = len(reach)
	var fns []*ssa.Function
	for f := range reach {
		fns = append(fns, f)
	}
	sort.Slice(fns, func(i, j int) bool { return fns[i].String() < fns[j].String() })
	n := 0
	for _, f := range fns {
		found := ndScanFn(u, f)
		n++
		if len(found) > 0 {
			r.bad("ND", u.FnName(f), u.Pos(f.Pos()), strings.Join(found, "; "))
		}
	}
	c.controlsND()
	r.count("ND/functions", n)
	r.ok("ND", "reachable functions scanned", "", fmt.Sprintf("%d functions reachable from the API roots contain no goroutine, channel, select, map iteration, clock, randomness, environment, runtime, unsafe, reflect, recover or %%p", n))
	r.floor("ND/functions", 40, "API roots plus runtime helpers")
}

// poFunction emits the PO obligations for every pool Get in f.
func poFunction(u *Universe, p *poAn, r *Report, f *ssa.Function) {
	ord := 0
	for _, b := range f.Blocks {
		for _, ins := range b.Instrs {
			call, ok := ins.(*ssa.Call)
			if !ok || !isPoolGet(fullCalleeName(call.Common())) {
				continue
			}
			ord++
			r.count("PO/get-sites", 1)
			key := fmt.Sprintf("%s Get #%d", u.FnName(f), ord)
			pos := u.Pos(call.Pos())
			// PO1: Put discipline
			var puts []ssa.Instruction
			deferred := 0
			for _, b2 := range f.Blocks {
				for _, i2 := range b2.Instrs {
					ci, ok := i2.(ssa.CallInstruction)
					if !ok || !isPoolPut(fullCalleeName(ci.Common())) || len(ci.Common().Args) != 2 {
						continue
					}
					if ci.Common().Args[1] != ssa.Value(call) {
						continue
					}
					puts = append(puts, i2)
					if _, ok := i2.(*ssa.Defer); ok {
						deferred++
						if ci.Common().Args[0] != call.Common().Args[0] {
							r.bad("PO1", key+" pool", pos, "buffer is Put into a different pool than it was taken from")
						}
					}
				}
			}
			s := p.analyse(f, []ssa.Value{call}, true)
			switch {
			case len(puts) == 0:
				r.ok("PO1", key, pos, "never Put back (harmless for isolation: the buffer is simply dropped)")
			case len(puts) == 1 && deferred == 1:
				r.ok("PO1", key, pos, "single deferred Put on the same pool: runs after the last use in this function")
			case len(puts) == 1:
				// explicit Put: nothing may use the buffer afterwards
				after := reachableAfter(puts[0])
				var bad []string
				for ins := range after {
					if _, ok := ins.(*ssa.DebugRef); ok {
						continue
					}
					for _, op := range ins.Operands(nil) {
						if *op != nil && s.al[*op] {
							bad = append(bad, u.Pos(ins.Pos()))
						}
					}
				}
				sort.Strings(bad)
				if len(bad) > 0 {
					r.bad("PO1", key, pos, "the buffer (or a slice of its bytes) is still used at "+bad[0]+" after it has been Put back at "+u.Pos(puts[0].Pos())+" — another instance may already own it")
				} else {
					r.ok("PO1", key, pos, "explicit Put at "+u.Pos(puts[0].Pos())+"; no alias of the buffer is used on any path after it")
				}
			default:
				r.bad("PO1", key, pos, fmt.Sprintf("%d Put sites for one Get: the same buffer can enter the pool twice and be handed to two instances", len(puts)))
			}
			// PO2
			if len(s.escapes) > 0 {
				r.bad("PO2", key, pos, strings.Join(s.escapes, " | "))
			} else if len(s.undec) > 0 {
				r.undecided("PO2", key, pos, strings.Join(s.undec, " | "))
			} else {
				r.ok("PO2", key, pos, "no alias of the buffer outlives the Get…Put window (not returned, stored, captured, sent; callees non-retaining)")
			}
			// PO3
			if len(s.stale) > 0 {
				r.bad("PO3", key, pos, strings.Join(s.stale, " | "))
			} else {
				r.ok("PO3", key, pos, "bytes left by a previous user are never observable (upward reslice only as snappy.Encode dst)")
			}
		}
	}
}

// ndScanFn lists the sources of nondeterminism / concurrency found in one function.
func ndScanFn(u *Universe, f *ssa.Function) []string {
	var found []string
	for _, b := range f.Blocks {
		for _, ins := range b.Instrs {
			pos := u.Pos(ins.Pos())
			switch x := ins.(type) {
			case *ssa.Go:
				found = append(found, "go statement at "+pos)
			case *ssa.Select:
				found = append(found, "select at "+pos)
			case *ssa.Send:
				found = append(found, "channel send at "+pos)
			case *ssa.MakeChan:
				found = append(found, "channel creation at "+pos)
			case *ssa.UnOp:
				if x.Op == token.ARROW {
					found = append(found, "channel receive at "+pos)
				}
			case *ssa.Range:
				if _, ok := x.X.Type().Underlying().(*types.Map); ok {
					found = append(found, "iteration over a map at "+pos+" (order differs from run to run)")
				}
			case *ssa.Convert:
				if b, ok := x.X.Type().Underlying().(*types.Basic); ok && b.Kind() == types.UnsafePointer {
					found = append(found, "unsafe pointer conversion at "+pos)
				}
			case ssa.CallInstruction:
				cc := x.Common()
				if sc := cc.StaticCallee(); sc != nil && sc.Pkg != nil {
					if why, ok := ndPkgs[sc.Pkg.Pkg.Path()]; ok {
						found = append(found, fmt.Sprintf("call of %s.%s (%s) at %s", sc.Pkg.Pkg.Path(), sc.Name(), why, pos))
					}
				}
				if bi, ok := cc.Value.(*ssa.Builtin); ok && bi.Name() == "recover" {
					found = append(found, "recover() at "+pos)
				}
				for _, a := range cc.Args {
					if k, ok := a.(*ssa.Const); ok && k.Value != nil && k.Value.Kind() == constant.String && strings.Contains(constant.StringVal(k.Value), "%p") {
						found = append(found, "%p formatting at "+pos)
					}
				}
			}
		}
	}
	return found
}

// --- CS: caller-owned slices ---

// checkCallerSlices: a slice handed in through the API (an option list, …) still belongs to the caller, who may hand the
// same slice — with spare capacity — to another instance. Appending to it writes into that shared backing array.
// Appending a value that is the same for every instance (a named function, a constant) is harmless; appending a value
// computed from this instance's state lets the next instance built from the same slice overwrite it (and vice versa).
func checkCallerSlices(c *Ctx) {
	r, u := c.R, c.U
	owned := map[*ssa.Parameter]bool{}
	var work []*ssa.Parameter
	for _, f := range apiRoots(c) {
		for _, p := range f.Params {
			if _, ok := p.Type().Underlying().(*types.Slice); ok {
				owned[p] = true
				work = append(work, p)
			}
		}
	}
	// the caller's slice handed on unchanged to a callee is still the caller's
	for len(work) > 0 {
		p := work[0]
		work = work[1:]
		if p.Referrers() == nil {
			continue
		}
		for _, ref := range *p.Referrers() {
			call, ok := ref.(ssa.CallInstruction)
			if !ok {
				continue
			}
			for _, cal := range u.Callees(call) {
				if !u.InUniverse(cal) || cal.Blocks == nil {
					continue
				}
				for i, a := range callArgs(call.Common()) {
					if a == ssa.Value(p) && i < len(cal.Params) && !owned[cal.Params[i]] {
						owned[cal.Params[i]] = true
						work = append(work, cal.Params[i])
					}
				}
			}
		}
	}
	r.count("CS/caller-slices", len(owned))
	n := 0
	for p := range owned {
		if p.Referrers() == nil {
			continue
		}
		for _, ref := range *p.Referrers() {
			call, ok := ref.(*ssa.Call)
			if !ok {
				continue
			}
			bi, ok := call.Call.Value.(*ssa.Builtin)
			if !ok || bi.Name() != "append" || call.Call.Args[0] != ssa.Value(p) {
				continue
			}
			n++
			key := fmt.Sprintf("%s append to %s", u.FnName(p.Parent()), p.Name())
			var dep []string
			for _, v := range appendedValues(call) {
				x := v
				for {
					if mi, ok := x.(*ssa.MakeInterface); ok {
						x = mi.X
					} else if ct, ok := x.(*ssa.ChangeType); ok {
						x = ct.X
					} else {
						break
					}
				}
				switch x.(type) {
				case *ssa.Const, *ssa.Function, *ssa.Global:
				default:
					dep = append(dep, symExpr(x, 0))
				}
			}
			if len(dep) > 0 {
				r.bad("CS", key, u.Pos(call.Pos()), "a value computed for this instance ("+strings.Join(dep, ", ")+") is appended to the caller's slice "+p.Name()+": when that slice has spare capacity the value lands in the caller's backing array, where another instance built from the same slice overwrites it — the two instances then share state")
			} else {
				r.ok("CS", key, u.Pos(call.Pos()), "only instance-independent values (named functions, constants) are appended to the caller's slice")
			}
		}
	}
	r.count("CS/appends", n)
	r.floor("CS/caller-slices", len(u.TC), "the option lists of NewParquetWriter / NewParquetReader")
}

// glCopy: values that are (or hold) a struct copied out of a package-level variable, reference-typed fields included.
var glCopy = map[ssa.Value]bool{}

// glCopyAddr: addresses of the copy's own cells (the local it lives in and its fields): writing them is not a write to
// the variable; loading a slice / map / pointer from them is an alias of the variable's storage.
var glCopyAddr = map[ssa.Value]bool{}

// refFields: the slice-, map- and pointer-typed fields of a struct type (one level; arrays of structs are looked into).
func refFields(t types.Type) []*types.Var {
	switch x := t.Underlying().(type) {
	case *types.Array:
		return refFields(x.Elem())
	case *types.Struct:
		var out []*types.Var
		for i := 0; i < x.NumFields(); i++ {
			switch x.Field(i).Type().Underlying().(type) {
			case *types.Slice, *types.Map, *types.Pointer:
				out = append(out, x.Field(i))
			}
		}
		return out
	}
	return nil
}

var fieldWrittenMemo = map[*types.Var]string{}

// fieldWrittenThrough: some instruction of the universe writes into the storage a slice/map/pointer field refers to
// (element store, map update, append/copy onto it, or handing it to a callee other than len/cap) — "" if none.
func fieldWrittenThrough(u *Universe, fl *types.Var) string {
	if w, ok := fieldWrittenMemo[fl]; ok {
		return w
	}
	res := ""
	var follow func(v ssa.Value, depth int)
	follow = func(v ssa.Value, depth int) {
		if res != "" || depth > 4 || v.Referrers() == nil {
			return
		}
		for _, ref := range *v.Referrers() {
			switch x := ref.(type) {
			case *ssa.IndexAddr:
				for _, r2 := range *x.Referrers() {
					if st, ok := r2.(*ssa.Store); ok && st.Addr == ssa.Value(x) {
						res = "element written at " + u.Pos(st.Pos())
					}
				}
			case *ssa.FieldAddr:
				for _, r2 := range *x.Referrers() {
					if st, ok := r2.(*ssa.Store); ok && st.Addr == ssa.Value(x) {
						res = "written through at " + u.Pos(st.Pos())
					}
				}
			case *ssa.MapUpdate:
				if x.Map == v {
					res = "map updated at " + u.Pos(x.Pos())
				}
			case *ssa.Slice:
				follow(x, depth+1)
			case *ssa.Phi:
				follow(x, depth+1)
			case ssa.CallInstruction:
				c := x.Common()
				if bi, ok := c.Value.(*ssa.Builtin); ok && (bi.Name() == "len" || bi.Name() == "cap") {
					continue
				}
				if nonMutating[fullCalleeName(c)] {
					continue
				}
				res = "handed to " + fullCalleeName(c) + " at " + u.Pos(x.Pos())
			}
		}
	}
	for _, f := range u.Funcs {
		for _, b := range f.Blocks {
			for _, ins := range b.Instrs {
				if ld, ok := ins.(*ssa.UnOp); ok && ld.Op == token.MUL && fieldOf(ld.X) == fl {
					follow(ld, 0)
				}
			}
		}
	}
	fieldWrittenMemo[fl] = res
	return res
}
