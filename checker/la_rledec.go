package main

// Two acceptance rules for the level decoder (internal/rle, everything reachable from (*RLE).Read), both stated on a
// taint analysis of "stream content": the bytes the decoder has read and every value computed from them (run headers,
// run lengths, group bytes). Configuration (the bit width) and the byte COUNTS reads return are not stream content.
//
//   LA-runkind accepts (C07, C04): the decoder fabricates an error (fmt.Errorf / errors.New / a sentinel such as io.EOF,
//   as opposed to passing on the error of a failed read) only under conditions that do not depend on stream content —
//   otherwise some well-formed stream (a run longer than the writer would produce, a particular value) is refused.
//   Conditions that can never hold (an unsigned value < 0) are ignored.
//
//   LA-runkind unpack-all (C17, C07): in the loop that hands the groups of a bit-packed run to bitpack.Unpack, no test on
//   stream content lets an iteration bypass the Unpack call (a "fast path" for particular byte patterns decides the
//   group's values by other means than the unpacker whose inverse property C17 establishes).

import (
	"fmt"
	"go/token"
	"go/types"
	"sort"
	"strings"

	"golang.org/x/tools/go/ssa"
)

type decTaint struct {
	fns     map[*ssa.Function]bool
	tainted map[ssa.Value]bool
	buffer  map[ssa.Value]bool
}

func isByteSliceOrPtr(t types.Type) bool {
	switch x := t.Underlying().(type) {
	case *types.Slice:
		return true
	case *types.Pointer:
		_ = x
		return true
	}
	return false
}

func decoderTaint(u *Universe) *decTaint {
	read := u.Func(rlePath, "RLE.Read")
	if read == nil {
		return nil
	}
	d := &decTaint{fns: map[*ssa.Function]bool{}, tainted: map[ssa.Value]bool{}, buffer: map[ssa.Value]bool{}}
	for f := range u.reach([]*ssa.Function{read}) {
		if u.pkgPathOf(f) == rlePath && f.Blocks != nil {
			d.fns[f] = true
		}
	}
	d.fns[read] = true
	hasReaderParam := func(f *ssa.Function) bool {
		for _, p := range f.Params {
			if types.IsInterface(p.Type()) {
				if it, ok := p.Type().Underlying().(*types.Interface); ok {
					for i := 0; i < it.NumMethods(); i++ {
						if it.Method(i).Name() == "Read" {
							return true
						}
					}
				}
			}
		}
		return false
	}
	// the root of a buffer value: look through slicing and phis
	changed := true
	markB := func(v ssa.Value) {
		if v != nil && !d.buffer[v] {
			d.buffer[v] = true
			changed = true
		}
	}
	markT := func(v ssa.Value) {
		if v != nil && !d.tainted[v] {
			d.tainted[v] = true
			changed = true
		}
	}
	for iter := 0; changed && iter < 50; iter++ {
		changed = false
		for f := range d.fns {
			for _, b := range f.Blocks {
				for _, ins := range b.Instrs {
					switch x := ins.(type) {
					case *ssa.Call:
						args := x.Call.Args
						sc := x.Call.StaticCallee()
						isRead := x.Call.IsInvoke() && x.Call.Method.Name() == "Read"
						if sc != nil && sc.Pkg != nil {
							switch sc.Pkg.Pkg.Path() + "." + sc.Name() {
							case "io.ReadFull", "io.ReadAtLeast", "encoding/binary.Read":
								isRead = true
							}
						}
						if isRead {
							for _, a := range args {
								if mi, ok := a.(*ssa.MakeInterface); ok {
									a = mi.X
								}
								if isByteSliceOrPtr(a.Type()) && !types.IsInterface(a.Type()) {
									markB(a)
								}
							}
						}
						if sc != nil && d.fns[sc] {
							cargs := callArgs(&x.Call)
							for i, p := range sc.Params {
								if i >= len(cargs) {
									continue
								}
								if d.tainted[cargs[i]] {
									markT(p)
								}
								if d.buffer[cargs[i]] {
									markB(p)
								}
							}
							// what a function that reads from the stream (or is handed stream content) returns is stream content
							fromStream := hasReaderParam(sc)
							for _, a := range cargs {
								if d.tainted[a] || d.buffer[a] {
									fromStream = true
								}
							}
							if fromStream {
								if _, isT := x.Type().(*types.Tuple); !isT && !isErrorType(x.Type()) {
									markT(x)
								}
							}
						}
						if sc != nil && !d.fns[sc] {
							// other callees (bitpack.Unpack, append, conversions): content in, content out
							for _, a := range args {
								if d.tainted[a] || d.buffer[a] {
									if _, isT := x.Type().(*types.Tuple); !isT && !isErrorType(x.Type()) {
										if _, isSl := x.Type().Underlying().(*types.Slice); isSl {
											markB(x)
										} else {
											markT(x)
										}
									}
								}
							}
						}
					case *ssa.Extract:
						if c, ok := x.Tuple.(*ssa.Call); ok && !isErrorType(x.Type()) {
							sc := c.Call.StaticCallee()
							if sc != nil && d.fns[sc] {
								from := hasReaderParam(sc)
								for _, a := range callArgs(&c.Call) {
									if d.tainted[a] || d.buffer[a] {
										from = true
									}
								}
								if from {
									markT(x)
								}
							}
						}
					case *ssa.Slice:
						if d.buffer[x.X] {
							markB(x)
						}
						if d.buffer[x] {
							markB(x.X)
						}
					case *ssa.Phi:
						for _, e := range x.Edges {
							if d.buffer[e] {
								markB(x)
							}
							if d.tainted[e] {
								markT(x)
							}
						}
						if d.buffer[x] {
							for _, e := range x.Edges {
								if _, isC := e.(*ssa.Const); !isC {
									markB(e)
								}
							}
						}
					case *ssa.UnOp:
						if x.Op == token.MUL {
							switch a := x.X.(type) {
							case *ssa.IndexAddr:
								if d.buffer[a.X] {
									markT(x)
								}
							default:
								if d.buffer[x.X] {
									markT(x) // *p where p was filled by a read (binary.Read(in, order, &length))
								}
							}
						} else if d.tainted[x.X] {
							markT(x)
						}
					case *ssa.BinOp:
						if d.tainted[x.X] || d.tainted[x.Y] {
							markT(x)
						}
					case *ssa.Convert:
						if d.tainted[x.X] {
							markT(x)
						}
					case *ssa.ChangeType:
						if d.tainted[x.X] {
							markT(x)
						}
					case *ssa.Next:
						// range over a buffer
						if rg, ok := x.Iter.(*ssa.Range); ok && d.buffer[rg.X] {
							markT(x)
						}
					case *ssa.Index:
						if d.buffer[x.X] {
							markT(x)
						}
					}
				}
			}
		}
	}
	return d
}

// controlling: the conditions block b is control dependent on (dominating tests with exactly one edge leading to b).
func controlling(b *ssa.BasicBlock) []struct {
	iff   *ssa.If
	truth bool
} {
	var out []struct {
		iff   *ssa.If
		truth bool
	}
	for dd := b.Idom(); dd != nil; dd = dd.Idom() {
		iff, ok := lastInstr(dd).(*ssa.If)
		if !ok || dd.Succs[0] == dd.Succs[1] {
			continue
		}
		// reaches b without coming back through the test itself (inside a loop everything reaches everything)
		reach := func(s *ssa.BasicBlock) bool {
			seen := map[*ssa.BasicBlock]bool{dd: true}
			var visit func(x *ssa.BasicBlock) bool
			visit = func(x *ssa.BasicBlock) bool {
				if x == b {
					return true
				}
				if seen[x] {
					return false
				}
				seen[x] = true
				for _, y := range x.Succs {
					if visit(y) {
						return true
					}
				}
				return false
			}
			return visit(s)
		}
		t, e := reach(dd.Succs[0]), reach(dd.Succs[1])
		if t != e {
			out = append(out, struct {
				iff   *ssa.If
				truth bool
			}{iff, t})
		}
	}
	return out
}

func neverHolds(cond ssa.Value, truth bool) bool {
	bo, ok := cond.(*ssa.BinOp)
	if !ok {
		return false
	}
	unsigned := func(v ssa.Value) bool {
		bt, ok := v.Type().Underlying().(*types.Basic)
		return ok && bt.Info()&types.IsUnsigned != 0
	}
	switch {
	case truth && bo.Op == token.LSS && unsigned(bo.X) && constIs(bo.Y, 0):
		return true
	case !truth && bo.Op == token.GEQ && unsigned(bo.X) && constIs(bo.Y, 0):
		return true
	}
	return false
}

func laRLEDecoder(c *Ctx, rules map[string]bool) {
	r, u := c.R, c.U
	d := decoderTaint(u)
	if d == nil {
		r.failf("LA-runkind: (*RLE).Read not found")
		return
	}
	var fns []*ssa.Function
	for f := range d.fns {
		fns = append(fns, f)
	}
	sort.Slice(fns, func(i, j int) bool { return fns[i].Pos() < fns[j].Pos() })
	if rules["accepts"] {
		n := 0
		for _, f := range fns {
			ri := errIndex(f.Signature)
			if ri < 0 {
				continue
			}
			k := 0
			for _, b := range f.Blocks {
				ret, ok := lastInstr(b).(*ssa.Return)
				if !ok {
					continue
				}
				ev := ret.Results[ri]
				var evs []ssa.Value
				if phi, ok := ev.(*ssa.Phi); ok {
					evs = phi.Edges
				} else {
					evs = []ssa.Value{ev}
				}
				for ei, e := range evs {
					fab := freshError(e)
					if ld, ok := e.(*ssa.UnOp); ok && ld.Op == token.MUL {
						if _, isG := ld.X.(*ssa.Global); isG {
							fab = true // a sentinel error (io.EOF, …)
						}
					}
					if !fab {
						continue
					}
					k++
					n++
					key := fmt.Sprintf("%s fabricated error #%d", u.FnName(f), k)
					blk := b
					if _, isPhi := ev.(*ssa.Phi); isPhi && ei < len(b.Preds) {
						blk = b.Preds[ei]
					}
					var deps []string
					dead := false
					for _, g := range controlling(blk) {
						switch {
						case neverHolds(g.iff.Cond, g.truth):
							dead = true
						case neverHolds(g.iff.Cond, !g.truth):
							// always taken: no dependency
						case d.tainted[g.iff.Cond]:
							deps = append(deps, fmt.Sprintf("%s (%v) at %s", symExpr(g.iff.Cond, 0), g.truth, u.Pos(g.iff.Pos())))
						}
					}
					if len(deps) > 0 && !dead {
						r.bad("LA-runkind", key, u.Pos(ret.Pos()), "the decoder fabricates an error under a condition on the stream's content — "+strings.Join(deps, "; ")+": a well-formed level stream for which it holds (a run longer than this library's writer produces, a particular value) is refused instead of decoded")
					} else {
						r.ok("LA-runkind", key, u.Pos(ret.Pos()), "depends on configuration only, or on a condition that never holds")
					}
				}
			}
		}
		r.count("LA-runkind/fabricated-errors", n)
		r.count("LA-runkind/decoder-functions", len(fns))
		r.floor("LA-runkind/decoder-functions", 3, "Read, the two run readers, the varint reader")
	}
	if rules["unpack-all"] {
		unpack := u.Func(bitpackPath, "Unpack")
		n := 0
		for _, f := range fns {
			for _, b := range f.Blocks {
				for _, ins := range b.Instrs {
					call, ok := ins.(*ssa.Call)
					if !ok || call.Call.StaticCallee() != unpack || unpack == nil {
						continue
					}
					n++
					key := u.FnName(f) + " every group is unpacked"
					// the tests this call is control dependent on
					var deps []string
					for _, g := range controlling(b) {
						if !d.tainted[g.iff.Cond] {
							continue
						}
						// the loop test itself (len(raw) > 0) is about how much is left, not about content
						if isLenTest(g.iff.Cond) {
							continue
						}
						deps = append(deps, fmt.Sprintf("%s at %s", symExpr(g.iff.Cond, 0), u.Pos(g.iff.Pos())))
					}
					if len(deps) > 0 {
						r.bad("LA-runkind", key, u.Pos(call.Pos()), "whether a group of a bit-packed run is handed to bitpack.Unpack depends on the stream's content — "+strings.Join(deps, "; ")+": for the groups that bypass it the values are decided by other means than the unpacker (whose inverse property is what C17 establishes)")
					} else {
						r.ok("LA-runkind", key, u.Pos(call.Pos()), "no content-dependent test between the run reader's entry and the Unpack call")
					}
				}
			}
		}
		r.count("LA-runkind/unpack-sites", n)
		r.floor("LA-runkind/unpack-sites", 1, "readRLEBitPacked")
	}
}

// isLenTest: a comparison of len(x) (or of a value not read from a buffer) with something — about extent, not content.
func isLenTest(cond ssa.Value) bool {
	bo, ok := cond.(*ssa.BinOp)
	if !ok {
		return false
	}
	isLen := func(v ssa.Value) bool {
		if call, ok := v.(*ssa.Call); ok {
			if bi, ok := call.Call.Value.(*ssa.Builtin); ok && bi.Name() == "len" {
				return true
			}
		}
		return false
	}
	return isLen(bo.X) || isLen(bo.Y)
}
