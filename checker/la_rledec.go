package main

// Two acceptance rules for the level decoder (internal/rle, everything reachable from (*RLE).Read), both stated on a
// taint analysis of "stream content": the bytes the decoder has read and every value computed from them (run headers,
// run lengths, group bytes). Configuration (the bit width) and the byte COUNTS reads return are not stream content.
//
//   LA-runkind accepts (C07, C04): the decoder fabricates an error (fmt.Errorf / errors.New / a sentinel such as io.EOF,
//   as opposed to passing on the error of a failed read) only under conditions that do not depend on stream content —
//   otherwise some well-formed stream (a run longer than the writer would produce, a particular value) is refused.
//   Conditions that can never hold (an unsigned value < 0) are ignored.
//
//   LA-runkind unpack-all (C17, C07): in the loop that hands the groups of a bit-packed run to bitpack.Unpack, no test on
//   stream content lets an iteration bypass the Unpack call (a "fast path" for particular byte patterns decides the
//   group's values by other means than the unpacker whose inverse property C17 establishes).

import (
	"fmt"
	"go/token"
	"go/types"
	"sort"
	"strings"

	"golang.org/x/tools/go/ssa"
)

type decTaint struct {
	fns     map[*ssa.Function]bool
	tainted map[ssa.Value]bool
	buffer  map[ssa.Value]bool
	// payload: values computed from the bytes of a buffer by the code under analysis itself (as opposed to scalars a
	// reading helper returned: run headers, run values, the length prefix)
	payload map[ssa.Value]bool
}

func isByteSliceOrPtr(t types.Type) bool {
	switch x := t.Underlying().(type) {
	case *types.Slice:
		return true
	case *types.Pointer:
		_ = x
		return true
	}
	return false
}

func decoderTaint(u *Universe) *decTaint {
	read := u.Func(rlePath, "RLE.Read")
	if read == nil {
		return nil
	}
	d := &decTaint{fns: map[*ssa.Function]bool{}, tainted: map[ssa.Value]bool{}, buffer: map[ssa.Value]bool{}, payload: map[ssa.Value]bool{}}
	for f := range u.reach([]*ssa.Function{read}) {
		if u.pkgPathOf(f) == rlePath && f.Blocks != nil {
			d.fns[f] = true
		}
	}
	d.fns[read] = true
	hasReaderParam := func(f *ssa.Function) bool {
		for _, p := range f.Params {
			if types.IsInterface(p.Type()) {
				if it, ok := p.Type().Underlying().(*types.Interface); ok {
					for i := 0; i < it.NumMethods(); i++ {
						if it.Method(i).Name() == "Read" {
							return true
						}
					}
				}
			}
		}
		return false
	}
	// the root of a buffer value: look through slicing and phis
	changed := true
	markB := func(v ssa.Value) {
		if v != nil && !d.buffer[v] {
			d.buffer[v] = true
			changed = true
		}
	}
	markT := func(v ssa.Value) {
		if v != nil && !d.tainted[v] {
			d.tainted[v] = true
			changed = true
		}
	}
	markP := func(v ssa.Value) {
		if v != nil && !d.payload[v] {
			d.payload[v] = true
			changed = true
		}
		markT(v)
	}
	for iter := 0; changed && iter < 50; iter++ {
		changed = false
		for f := range d.fns {
			for _, b := range f.Blocks {
				for _, ins := range b.Instrs {
					switch x := ins.(type) {
					case *ssa.Call:
						args := x.Call.Args
						sc := x.Call.StaticCallee()
						isRead := x.Call.IsInvoke() && x.Call.Method.Name() == "Read"
						if sc != nil && sc.Pkg != nil {
							switch sc.Pkg.Pkg.Path() + "." + sc.Name() {
							case "io.ReadFull", "io.ReadAtLeast", "encoding/binary.Read":
								isRead = true
							}
						}
						if isRead {
							for _, a := range args {
								if mi, ok := a.(*ssa.MakeInterface); ok {
									a = mi.X
								}
								if isByteSliceOrPtr(a.Type()) && !types.IsInterface(a.Type()) {
									markB(a)
								}
							}
						}
						if sc != nil && d.fns[sc] {
							cargs := callArgs(&x.Call)
							for i, p := range sc.Params {
								if i >= len(cargs) {
									continue
								}
								if d.tainted[cargs[i]] {
									markT(p)
								}
								if d.payload[cargs[i]] {
									markP(p)
								}
								if d.buffer[cargs[i]] {
									markB(p)
								}
							}
							// what a function that reads from the stream (or is handed stream content) returns is stream content
							fromStream := hasReaderParam(sc)
							fromBytes := false
							for _, a := range cargs {
								if d.tainted[a] || d.buffer[a] {
									fromStream = true
								}
								if d.payload[a] || d.buffer[a] {
									fromBytes = true
								}
							}
							if fromStream {
								if _, isT := x.Type().(*types.Tuple); !isT && !isErrorType(x.Type()) {
									if fromBytes {
										markP(x)
									} else {
										markT(x)
									}
								}
							}
						}
						if sc != nil && !d.fns[sc] {
							// other callees (bitpack.Unpack, append, conversions): content in, content out
							for _, a := range args {
								if d.tainted[a] || d.buffer[a] {
									if _, isT := x.Type().(*types.Tuple); !isT && !isErrorType(x.Type()) {
										if _, isSl := x.Type().Underlying().(*types.Slice); isSl {
											markB(x)
										} else {
											markT(x)
										}
									}
								}
							}
						}
					case *ssa.Extract:
						if nx, ok := x.Tuple.(*ssa.Next); ok && d.payload[nx] {
							markP(x)
						}
						if c, ok := x.Tuple.(*ssa.Call); ok && !isErrorType(x.Type()) {
							sc := c.Call.StaticCallee()
							if sc != nil && d.fns[sc] {
								from := hasReaderParam(sc)
								for _, a := range callArgs(&c.Call) {
									if d.tainted[a] || d.buffer[a] {
										from = true
									}
								}
								if from {
									markT(x)
								}
							}
						}
					case *ssa.Slice:
						if d.buffer[x.X] {
							markB(x)
						}
						if d.buffer[x] {
							markB(x.X)
						}
					case *ssa.Phi:
						for _, e := range x.Edges {
							if d.buffer[e] {
								markB(x)
							}
							if d.tainted[e] {
								markT(x)
							}
							if d.payload[e] {
								markP(x)
							}
						}
						if d.buffer[x] {
							for _, e := range x.Edges {
								if _, isC := e.(*ssa.Const); !isC {
									markB(e)
								}
							}
						}
					case *ssa.UnOp:
						if x.Op == token.MUL {
							switch a := x.X.(type) {
							case *ssa.IndexAddr:
								if d.buffer[a.X] {
									markP(x)
								}
							default:
								if d.buffer[x.X] {
									markT(x) // *p where p was filled by a read (binary.Read(in, order, &length))
								}
							}
						} else if d.tainted[x.X] {
							markT(x)
							if d.payload[x.X] {
								markP(x)
							}
						}
					case *ssa.BinOp:
						if d.tainted[x.X] || d.tainted[x.Y] {
							markT(x)
						}
						if d.payload[x.X] || d.payload[x.Y] {
							markP(x)
						}
					case *ssa.Convert:
						if d.tainted[x.X] {
							markT(x)
						}
						if d.payload[x.X] {
							markP(x)
						}
					case *ssa.ChangeType:
						if d.tainted[x.X] {
							markT(x)
						}
					case *ssa.Next:
						// range over a buffer
						if rg, ok := x.Iter.(*ssa.Range); ok && d.buffer[rg.X] {
							markP(x)
						}
					case *ssa.Index:
						if d.buffer[x.X] {
							markP(x)
						}

					}
				}
			}
		}
	}
	return d
}

// controlling: the conditions block b is control dependent on (dominating tests with exactly one edge leading to b).
func controlling(b *ssa.BasicBlock) []struct {
	iff   *ssa.If
	truth bool
} {
	var out []struct {
		iff   *ssa.If
		truth bool
	}
	for dd := b.Idom(); dd != nil; dd = dd.Idom() {
		iff, ok := lastInstr(dd).(*ssa.If)
		if !ok || dd.Succs[0] == dd.Succs[1] {
			continue
		}
		// reaches b without coming back through the test itself (inside a loop everything reaches everything)
		reach := func(s *ssa.BasicBlock) bool {
			seen := map[*ssa.BasicBlock]bool{dd: true}
			var visit func(x *ssa.BasicBlock) bool
			visit = func(x *ssa.BasicBlock) bool {
				if x == b {
					return true
				}
				if seen[x] {
					return false
				}
				seen[x] = true
				for _, y := range x.Succs {
					if visit(y) {
						return true
					}
				}
				return false
			}
			return visit(s)
		}
		t, e := reach(dd.Succs[0]), reach(dd.Succs[1])
		if t != e {
			out = append(out, struct {
				iff   *ssa.If
				truth bool
			}{iff, t})
		}
	}
	return out
}

func neverHolds(cond ssa.Value, truth bool) bool {
	bo, ok := cond.(*ssa.BinOp)
	if !ok {
		return false
	}
	unsigned := func(v ssa.Value) bool {
		bt, ok := v.Type().Underlying().(*types.Basic)
		return ok && bt.Info()&types.IsUnsigned != 0
	}
	switch {
	case truth && bo.Op == token.LSS && unsigned(bo.X) && constIs(bo.Y, 0):
		return true
	case !truth && bo.Op == token.GEQ && unsigned(bo.X) && constIs(bo.Y, 0):
		return true
	}
	return false
}

func laRLEDecoder(c *Ctx, rules map[string]bool) {
	r, u := c.R, c.U
	d := decoderTaint(u)
	if d == nil {
		r.failf("LA-runkind: (*RLE).Read not found")
		return
	}
	var fns []*ssa.Function
	for f := range d.fns {
		fns = append(fns, f)
	}
	sort.Slice(fns, func(i, j int) bool { return fns[i].Pos() < fns[j].Pos() })
	if rules["accepts"] {
		n := 0
		for _, f := range fns {
			ri := errIndex(f.Signature)
			if ri < 0 {
				continue
			}
			k := 0
			for _, b := range f.Blocks {
				ret, ok := lastInstr(b).(*ssa.Return)
				if !ok {
					continue
				}
				ev := ret.Results[ri]
				var evs []ssa.Value
				if phi, ok := ev.(*ssa.Phi); ok {
					evs = phi.Edges
				} else {
					evs = []ssa.Value{ev}
				}
				for ei, e := range evs {
					fab := freshError(e)
					if ld, ok := e.(*ssa.UnOp); ok && ld.Op == token.MUL {
						if _, isG := ld.X.(*ssa.Global); isG {
							fab = true // a sentinel error (io.EOF, …)
						}
					}
					if !fab {
						continue
					}
					k++
					n++
					key := fmt.Sprintf("%s fabricated error #%d", u.FnName(f), k)
					blk := b
					if _, isPhi := ev.(*ssa.Phi); isPhi && ei < len(b.Preds) {
						blk = b.Preds[ei]
					}
					var deps []string
					dead := false
					for _, g := range controlling(blk) {
						switch {
						case neverHolds(g.iff.Cond, g.truth):
							dead = true
						case neverHolds(g.iff.Cond, !g.truth):
							// always taken: no dependency
						case d.tainted[g.iff.Cond]:
							deps = append(deps, fmt.Sprintf("%s (%v) at %s", symExpr(g.iff.Cond, 0), g.truth, u.Pos(g.iff.Pos())))
						}
					}
					if len(deps) > 0 && !dead {
						r.bad("LA-runkind", key, u.Pos(ret.Pos()), "the decoder fabricates an error under a condition on the stream's content — "+strings.Join(deps, "; ")+": a well-formed level stream for which it holds (a run longer than this library's writer produces, a particular value) is refused instead of decoded")
					} else {
						r.ok("LA-runkind", key, u.Pos(ret.Pos()), "depends on configuration only, or on a condition that never holds")
					}
				}
			}
		}
		r.count("LA-runkind/fabricated-errors", n)
		r.count("LA-runkind/decoder-functions", len(fns))
		r.floor("LA-runkind/decoder-functions", 3, "Read, the two run readers, the varint reader")
	}
	if rules["unpack-all"] {
		unpack := u.Func(bitpackPath, "Unpack")
		n := 0
		for _, f := range fns {
			for _, b := range f.Blocks {
				for _, ins := range b.Instrs {
					call, ok := ins.(*ssa.Call)
					if !ok || call.Call.StaticCallee() != unpack || unpack == nil {
						continue
					}
					n++
					key := u.FnName(f) + " every group is unpacked"
					// the tests this call is control dependent on
					var deps []string
					for _, g := range controlling(b) {
						// only tests on the bytes of the run (not on the header the run was announced by)
						if !d.payload[g.iff.Cond] {
							continue
						}
						// the loop test itself (len(raw) > 0) is about how much is left, not about content
						if isLenTest(g.iff.Cond) {
							continue
						}
						deps = append(deps, fmt.Sprintf("%s at %s", symExpr(g.iff.Cond, 0), u.Pos(g.iff.Pos())))
					}
					if len(deps) > 0 {
						r.bad("LA-runkind", key, u.Pos(call.Pos()), "whether a group of a bit-packed run is handed to bitpack.Unpack depends on the stream's content — "+strings.Join(deps, "; ")+": for the groups that bypass it the values are decided by other means than the unpacker (whose inverse property is what C17 establishes)")
					} else {
						r.ok("LA-runkind", key, u.Pos(call.Pos()), "no content-dependent test between the run reader's entry and the Unpack call")
					}
				}
			}
		}
		r.count("LA-runkind/unpack-sites", n)
		r.floor("LA-runkind/unpack-sites", 1, "readRLEBitPacked")
	}
}

// isLenTest: a comparison of len(x) (or of a value not read from a buffer) with something — about extent, not content.
func isLenTest(cond ssa.Value) bool {
	bo, ok := cond.(*ssa.BinOp)
	if !ok {
		return false
	}
	isLen := func(v ssa.Value) bool {
		if call, ok := v.(*ssa.Call); ok {
			if bi, ok := call.Call.Value.(*ssa.Builtin); ok && bi.Name() == "len" {
				return true
			}
		}
		return false
	}
	return isLen(bo.X) || isLen(bo.Y)
}

// laRLERunValue (C07, C01): the value byte(s) of an RLE run carry the run's level unchanged. The function the run writer
// obtains them from (handed the repeated level and the bit width) is interpreted by the bit-provenance interpreter for
// every width 1..4 with a fully symbolic level: it must return ceil(width/8) = 1 byte whose bits 0..width-1 are bits
// 0..width-1 of the level (a narrower mask drops the high bit of wide levels: 9 is stored as 1).
func laRLERunValue(c *Ctx) {
	r, u := c.R, c.U
	n := 0
	for _, f := range rleFuncs(u) {
		// the run writer: the function that writes (repeat counter << 1) as an RLE run header
		isRunWriter := false
		for _, b := range f.Blocks {
			for _, ins := range b.Instrs {
				if bo, ok := ins.(*ssa.BinOp); ok && bo.Op == token.SHL && constIs(bo.Y, 1) && fieldOfLoad(stripConvert(bo.X)) != nil {
					for _, ref := range *bo.Referrers() {
						if _, isCall := ref.(*ssa.Call); isCall {
							isRunWriter = true
						}
					}
				}
			}
		}
		if !isRunWriter {
			continue
		}
		for _, b := range f.Blocks {
			for _, ins := range b.Instrs {
				call, ok := ins.(*ssa.Call)
				if !ok {
					continue
				}
				sc := call.Call.StaticCallee()
				if sc == nil || u.pkgPathOf(sc) != rlePath || sc.Blocks == nil || sc.Signature.Results().Len() == 0 {
					continue
				}
				if sl, ok := sc.Signature.Results().At(0).Type().Underlying().(*types.Slice); !ok || !isByteSlice(sl) {
					continue
				}
				// arguments: a uint8 level and an integer width, nothing else but the receiver
				vi, wi := -1, -1
				args := callArgs(&call.Call)
				for i, a := range args {
					if i >= len(sc.Params) {
						continue
					}
					bt, ok := sc.Params[i].Type().Underlying().(*types.Basic)
					if !ok {
						continue
					}
					switch {
					case bt.Kind() == types.Uint8 && fieldOfLoad(stripConvert(a)) != nil:
						vi = i
					case bt.Info()&types.IsInteger != 0 && bt.Kind() != types.Uint8:
						wi = i
					}
				}
				if vi < 0 || wi < 0 {
					continue
				}
				// nothing else but the receiver (a function that also takes the stream is a reader, not this)
				extra := false
				for i, p := range sc.Params {
					if i == vi || i == wi {
						continue
					}
					if _, isPtr := p.Type().Underlying().(*types.Pointer); !isPtr || i != 0 || sc.Signature.Recv() == nil {
						extra = true
					}
				}
				if extra {
					continue
				}
				n++
				wbits, _ := intWidth(sc.Params[wi].Type())
				for w := 1; w <= 4; w++ {
					key := fmt.Sprintf("%s run value width %d", u.FnName(sc), w)
					in := make([]aval, len(sc.Params))
					for i, p := range sc.Params {
						switch i {
						case vi:
							in[i] = symInput(0, 8)
						case wi:
							in[i] = mkConst(int64(w), wbits)
						default:
							_ = p
							in[i] = nil // the receiver: not used by a pure byte formatter (its use makes the run undecided)
						}
					}
					res, err := bpRun(u, sc, in)
					if err != "" {
						r.undecided("LA-runkind", key, u.Pos(sc.Pos()), "abstract interpretation undecided: "+err)
						continue
					}
					bits, nb, serr := sliceBits(res[0])
					switch {
					case serr != "":
						r.undecided("LA-runkind", key, u.Pos(sc.Pos()), serr)
					case nb != 1:
						r.bad("LA-runkind", key, u.Pos(sc.Pos()), fmt.Sprintf("an RLE run's value takes %d bytes at width %d, want 1", nb, w))
					default:
						okBits := true
						for k := 0; k < w; k++ {
							if bits[k] != (bit{k: 2, i: 0, b: k}) {
								okBits = false
							}
						}
						if okBits {
							r.ok("LA-runkind", key, u.Pos(sc.Pos()), "the run's value byte carries the level's low bits unchanged")
						} else {
							r.bad("LA-runkind", key, u.Pos(sc.Pos()), fmt.Sprintf("at width %d the value byte of an RLE run does not carry bits 0..%d of the level unchanged: runs of wide levels are written with another value (e.g. 9 as 1)", w, w-1))
						}
					}
				}
			}
		}
	}
	r.count("LA-runkind/run-value-writers", n)
	r.floor("LA-runkind/run-value-writers", 1, "writeRLERun -> writeIntLittleEndianPaddedOnBitWidth")
}

func isByteSlice(sl *types.Slice) bool {
	b, ok := sl.Elem().Underlying().(*types.Basic)
	return ok && b.Kind() == types.Uint8
}

// laBufGrowth (C07, C01): the encoder's output buffer. Where a write at an offset copies into `buf[off:]`, every
// reallocation of the buffer in that function makes it at least off + len(data) long — a growth rule that does not
// depend on both (doubling the old length, say) leaves the copy short for small buffers, and copy() drops what does not
// fit without an error. Only reallocations by make([]byte, n) are judged.
func laBufGrowth(c *Ctx) {
	r, u := c.R, c.U
	n := 0
	for _, f := range rleFuncs(u) {
		for _, b := range f.Blocks {
			for _, ins := range b.Instrs {
				call, ok := ins.(*ssa.Call)
				if !ok {
					continue
				}
				bi, ok := call.Call.Value.(*ssa.Builtin)
				if !ok || bi.Name() != "copy" || len(call.Call.Args) != 2 {
					continue
				}
				dst, ok := call.Call.Args[0].(*ssa.Slice)
				if !ok || dst.Low == nil {
					continue
				}
				fld := fieldOfLoad(dst.X)
				src, isParam := call.Call.Args[1].(*ssa.Parameter)
				off := stripConvert(dst.Low)
				if fld == nil || !isParam {
					continue
				}
				if _, ok := off.(*ssa.Parameter); !ok {
					continue
				}
				n++
				key := u.FnName(f) + " buffer growth"
				var bad []string
				judged := 0
				for _, b2 := range f.Blocks {
					for _, i2 := range b2.Instrs {
						st, ok := i2.(*ssa.Store)
						if !ok || fieldOf(st.Addr) != fld {
							continue
						}
						ms, ok := st.Val.(*ssa.MakeSlice)
						if !ok {
							continue
						}
						judged++
						// the length as a sum of terms
						terms := map[ssa.Value]bool{}
						var sum func(v ssa.Value, d int)
						sum = func(v ssa.Value, d int) {
							v = stripConvert(v)
							if bo, ok := v.(*ssa.BinOp); ok && bo.Op == token.ADD && d < 6 {
								sum(bo.X, d+1)
								sum(bo.Y, d+1)
								return
							}
							terms[v] = true
						}
						sum(ms.Len, 0)
						hasOff, hasLen := false, false
						for t := range terms {
							if t == off {
								hasOff = true
							}
							if lc, ok := t.(*ssa.Call); ok {
								if b3, ok := lc.Call.Value.(*ssa.Builtin); ok && b3.Name() == "len" && lc.Call.Args[0] == ssa.Value(src) {
									hasLen = true
								}
							}
						}
						if !hasOff || !hasLen {
							bad = append(bad, fmt.Sprintf("the buffer is reallocated at %s with length %s, which is not at least offset + len(data): the copy into buf[offset:] that follows can be short, and copy() silently drops what does not fit", u.Pos(ms.Pos()), symExpr(ms.Len, 0)))
						}
					}
				}
				if len(bad) > 0 {
					r.bad("LA-runkind", key, u.Pos(call.Pos()), strings.Join(bad, "; "))
				} else {
					r.ok("LA-runkind", key, u.Pos(call.Pos()), fmt.Sprintf("%d reallocation(s), each to at least offset + len(data)", judged))
				}
			}
		}
	}
	r.count("LA-runkind/buffer-writes-at-offset", n)
}

// laNarrowIndex (C17, C07, C04): in the level decoder no position into a buffer is computed in an 8- or 16-bit integer
// from a loop counter: the number of groups / values of a run is bounded only by the stream (a bit-packed run of more
// than 32 groups makes a uint8 group counter times 8 wrap, and the groups land on top of each other).
func laNarrowIndex(c *Ctx) {
	r, u := c.R, c.U
	d := decoderTaint(u)
	if d == nil {
		return
	}
	var fns []*ssa.Function
	for f := range d.fns {
		fns = append(fns, f)
	}
	sort.Slice(fns, func(i, j int) bool { return fns[i].Pos() < fns[j].Pos() })
	n := 0
	loopCarried := func(v ssa.Value) bool {
		phi, ok := v.(*ssa.Phi)
		if !ok {
			return false
		}
		for _, e := range phi.Edges {
			if bo, ok := e.(*ssa.BinOp); ok && (bo.Op == token.ADD || bo.Op == token.SUB) && (bo.X == ssa.Value(phi) || bo.Y == ssa.Value(phi)) {
				return true
			}
		}
		return false
	}
	var narrowArith func(v ssa.Value, depth int) (bool, string)
	narrowArith = func(v ssa.Value, depth int) (bool, string) {
		if depth > 4 {
			return false, ""
		}
		switch x := v.(type) {
		case *ssa.Convert:
			return narrowArith(x.X, depth+1)
		case *ssa.BinOp:
			w, _ := intWidth(x.Type())
			if w > 0 && w <= 16 && (x.Op == token.MUL || x.Op == token.ADD || x.Op == token.SHL) && (loopCarried(x.X) || loopCarried(x.Y)) {
				return true, x.Type().String()
			}
			if ok, t := narrowArith(x.X, depth+1); ok {
				return ok, t
			}
			return narrowArith(x.Y, depth+1)
		}
		return false, ""
	}
	for _, f := range fns {
		for _, b := range f.Blocks {
			for _, ins := range b.Instrs {
				var idx []ssa.Value
				switch x := ins.(type) {
				case *ssa.Slice:
					idx = []ssa.Value{x.Low, x.High}
				case *ssa.IndexAddr:
					idx = []ssa.Value{x.Index}
				default:
					continue
				}
				for _, v := range idx {
					if v == nil {
						continue
					}
					n++
					if bad, t := narrowArith(v, 0); bad {
						r.bad("LA-runkind", fmt.Sprintf("%s position %s", u.FnName(f), symExpr(v, 0)), u.Pos(ins.Pos()), "a position into a buffer is computed in "+t+" from a loop counter: the number of groups / values of a run is bounded only by the stream, and the arithmetic wraps (a bit-packed run of more than 32 groups puts later groups on top of earlier ones)")
					}
				}
			}
		}
	}
	r.count("LA-runkind/decoder-positions", n)
	r.floor("LA-runkind/decoder-positions", 1, "slices and element addresses in the level decoder")
}
