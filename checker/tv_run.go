package main

// Corpus runner for the TV rules (C03, C05, C14): generates each struct shape's
// program with the working tree's parquetgen, parses and type-checks it against
// today's runtime (export data), and validates it statically against the struct.

import (
	"bytes"
	"fmt"
	"go/ast"
	"go/importer"
	"go/parser"
	"go/token"
	"go/types"
	"io"
	"math/rand"
	"os"
	"path/filepath"
	"regexp"
	"runtime"
	"sort"
	"strings"
	"sync"
)

func init() {
	register("C05", "translation_validation", LoadOpts{NeedGen: true}, checkC05)
	register("C03", "translation_validation", LoadOpts{NeedGen: true}, checkC03)
	register("C14", "translation_validation", LoadOpts{NeedGen: true}, checkC14)
}

type corpusItem struct {
	key   string // canonical shape string (+ decoration)
	src   string
	shape Shape
}

type shapeResult struct {
	item     corpusItem
	status   string // GENFAIL, PARSEFAIL, TYPEERR, OK, VIOL
	genOut   string
	errFuncs []string
	typeErrs []string
	viol     []tvF
	stats    tvStats
	colNames []string
	determ   bool
	text     []byte
}

type corpus struct {
	u       *Universe
	exports map[string]string
	dir     string
	n       int
	mu      sync.Mutex
}

func newCorpus(u *Universe) (*corpus, error) {
	c := &corpus{u: u, dir: filepath.Join(u.ModDir, "c")}
	if err := os.MkdirAll(filepath.Join(u.ModDir, "deps"), 0o755); err != nil {
		return nil, err
	}
	deps := `package deps
import (
	_ "fmt"
	_ "io"
	_ "strings"
	_ "encoding/binary"
	_ "math"
	_ "github.com/valyala/bytebufferpool"
	_ "github.com/parsyl/parquet"
	_ "github.com/parsyl/parquet/schema"
)
`
	if err := os.WriteFile(filepath.Join(u.ModDir, "deps", "deps.go"), []byte(deps), 0o644); err != nil {
		return nil, err
	}
	out, err := run(u.ModDir, "go", "list", "-export", "-deps", "-f", "{{.ImportPath}} {{.Export}}", "./deps")
	if err != nil {
		return nil, fmt.Errorf("runtime does not compile (go list -export): %v\n%s", err, out)
	}
	c.exports = map[string]string{}
	for _, l := range strings.Split(out, "\n") {
		f := strings.Fields(l)
		if len(f) == 2 {
			c.exports[f[0]] = f[1]
		}
	}
	if c.exports[rtPath] == "" {
		return nil, fmt.Errorf("no export data for the runtime package")
	}
	return c, nil
}

func (c *corpus) lookup(path string) (io.ReadCloser, error) {
	p, ok := c.exports[path]
	if !ok {
		return nil, fmt.Errorf("no export data for %s", path)
	}
	return os.Open(p)
}

func (c *corpus) runAll(items []corpusItem, determ bool) []shapeResult {
	results := make([]shapeResult, len(items))
	var wg sync.WaitGroup
	sem := make(chan struct{}, runtime.NumCPU())
	for i := range items {
		wg.Add(1)
		go func(i int) {
			defer wg.Done()
			sem <- struct{}{}
			defer func() { <-sem }()
			results[i] = c.one(items[i], determ)
		}(i)
	}
	wg.Wait()
	return results
}

func enclosingFuncName(f *ast.File, pos token.Pos) string {
	for _, d := range f.Decls {
		if fd, ok := d.(*ast.FuncDecl); ok && fd.Pos() <= pos && pos <= fd.End() {
			if fd.Recv != nil && len(fd.Recv.List) == 1 {
				return "(" + types.ExprString(fd.Recv.List[0].Type) + ")." + fd.Name.Name
			}
			return fd.Name.Name
		}
	}
	return "<package level>"
}

func (c *corpus) one(it corpusItem, determ bool) shapeResult {
	r := shapeResult{item: it, determ: true}
	c.mu.Lock()
	c.n++
	dir := filepath.Join(c.dir, fmt.Sprintf("s%05d", c.n))
	c.mu.Unlock()
	if err := os.MkdirAll(dir, 0o755); err != nil {
		r.status = "GENFAIL"
		r.genOut = err.Error()
		return r
	}
	defer os.RemoveAll(dir)
	os.WriteFile(filepath.Join(dir, "s.go"), []byte(it.src), 0o644)
	gen := func(out string) (string, error) {
		return run(dir, c.u.Gen, "-input", "s.go", "-type", "Rec", "-package", "s", "-output", out)
	}
	if out, err := gen("parquet.go"); err != nil {
		r.status = "GENFAIL"
		if i := strings.Index(out, "\n"); i > 0 {
			out = out[:i]
		}
		r.genOut = out
		return r
	}
	text, _ := os.ReadFile(filepath.Join(dir, "parquet.go"))
	r.text = text
	if determ {
		if _, err := gen("parquet2.go"); err == nil {
			t2, _ := os.ReadFile(filepath.Join(dir, "parquet2.go"))
			r.determ = bytes.Equal(text, t2)
		} else {
			r.determ = false
		}
		os.Remove(filepath.Join(dir, "parquet2.go"))
	}
	fset := token.NewFileSet()
	var files []*ast.File
	for _, fn := range []string{"s.go", "parquet.go"} {
		f, err := parser.ParseFile(fset, filepath.Join(dir, fn), nil, 0)
		if err != nil {
			r.status = "PARSEFAIL"
			r.genOut = err.Error()
			return r
		}
		files = append(files, f)
	}
	var terrs []types.Error
	info := &types.Info{
		Types:      map[ast.Expr]types.TypeAndValue{},
		Defs:       map[*ast.Ident]types.Object{},
		Uses:       map[*ast.Ident]types.Object{},
		Selections: map[*ast.SelectorExpr]*types.Selection{},
	}
	conf := types.Config{Importer: importer.ForCompiler(fset, "gc", c.lookup), Error: func(err error) {
		if te, ok := err.(types.Error); ok {
			terrs = append(terrs, te)
		}
	}}
	pkg, _ := conf.Check("uni/c/s", fset, files, info)
	errFuncs := map[string]bool{}
	for _, te := range terrs {
		fn := enclosingFuncName(files[1], te.Pos)
		if !errFuncs[fn] && len(r.typeErrs) < 40 {
			r.typeErrs = append(r.typeErrs, fn+": "+te.Msg)
		}
		errFuncs[fn] = true
	}
	for f := range errFuncs {
		r.errFuncs = append(r.errFuncs, f)
	}
	sort.Strings(r.errFuncs)
	if len(terrs) > 0 {
		r.status = "TYPEERR"
	}
	if pkg != nil {
		tv := &tvChecker{fset: fset, pkg: pkg, info: info, file: files[1], errFuncs: errFuncs}
		r.viol, r.stats = tv.check("Rec")
		if obj := pkg.Scope().Lookup("Rec"); obj != nil {
			if named, ok := obj.Type().(*types.Named); ok {
				for _, col := range reference(named) {
					r.colNames = append(r.colNames, col.name())
				}
			}
		}
	}
	if len(r.viol) > 0 && r.status == "" {
		r.status = "VIOL"
	}
	if r.status == "" {
		r.status = "OK"
	}
	return r
}

// corpusItems selects the shapes of a tier: thorough = the whole grammar; quick = all of G1, the type shapes and a seeded sample of G2.
func corpusItems(tier string, seed int64) (items []corpusItem, exhaustive bool, desc string) {
	all := allShapes()
	g1 := g1Count()
	ts := typeShapes()
	var sel []Shape
	if tier == "thorough" {
		sel = append(sel, all...)
		exhaustive = true
		desc = fmt.Sprintf("exhaustive: G1 (%d single-child roots, depth <= 3, <= 2 children per group) + G2 (%d two-child roots) + %d type shapes", g1, len(all)-g1, len(ts))
	} else {
		sel = append(sel, all[:g1]...)
		rest := all[g1:]
		rng := rand.New(rand.NewSource(seed))
		perm := rng.Perm(len(rest))
		n := 320
		if n > len(rest) {
			n = len(rest)
		}
		idx := append([]int{}, perm[:n]...)
		sort.Ints(idx)
		for _, i := range idx {
			sel = append(sel, rest[i])
		}
		desc = fmt.Sprintf("all of G1 (%d shapes) + a VERIF_SEED=%d sample of %d of the %d G2 shapes + %d type shapes", g1, seed, n, len(rest), len(ts))
	}
	sel = append(sel, ts...)
	for _, s := range sel {
		items = append(items, corpusItem{key: s.String(), src: s.Source("s"), shape: s})
	}
	return
}

func isUndecided(msg string) bool {
	return strings.HasPrefix(msg, "undecided") || strings.Contains(msg, ": undecided")
}

// emitTV turns shape results into obligations for the given rules.
func emitTV(r *Report, results []shapeResult, rules map[string]bool, fieldsFilter func(msg string) bool) (programs, cases, typeErrShapes, genFail int) {
	for _, sr := range results {
		programs++
		k := sr.item.key
		switch sr.status {
		case "GENFAIL", "PARSEFAIL":
			genFail++
			if rules["TV-compile"] {
				r.bad("TV-compile", k+" generate", "", "parquetgen fails on this struct: "+oneLine(sr.genOut))
			}
			continue
		}
		if len(sr.errFuncs) > 0 {
			typeErrShapes++
		}
		if rules["TV-compile"] {
			if len(sr.errFuncs) == 0 {
				r.ok("TV-compile", k, "", "generates, parses and type-checks against the working tree's runtime")
			}
			for _, f := range sr.errFuncs {
				msg := ""
				for _, te := range sr.typeErrs {
					if strings.HasPrefix(te, f+": ") {
						msg = te
						break
					}
				}
				r.bad("TV-compile", k+" typeerr in "+f, "", "generated code does not type-check: "+msg)
			}
		}
		if rules["TV-determ"] {
			if sr.determ {
				r.ok("TV-determ", k, "", "two generator runs give identical bytes")
			} else {
				r.bad("TV-determ", k, "", "two generator runs on the same input give different output")
			}
		}
		if len(sr.errFuncs) > 0 {
			// the program does not compile: that is the finding (TV-compile); the other rules are skipped for this shape
			continue
		}
		byRuleCol := map[string]int{}
		for _, v := range sr.viol {
			if !rules[v.rule] && v.rule != "TV-internal" {
				continue
			}
			if v.rule == "TV-fields" && fieldsFilter != nil && !fieldsFilter(v.msg) {
				continue
			}
			byRuleCol[v.rule+"|"+v.col]++
			key := k + " col " + v.col + ": " + v.msg
			if v.col == "" {
				key = k + ": " + v.msg
			}
			if isUndecided(v.msg) {
				r.undecided(v.rule, key, "", v.msg)
			} else {
				r.bad(v.rule, key, "", v.msg)
			}
		}
		if rules["TV-fields"] && byRuleCol["TV-fields|"] == 0 && !containsStr(sr.errFuncs, "Fields") {
			r.ok("TV-fields", k, "", fmt.Sprintf("Fields() lists the %d reference columns one to one, in order (constructor family, path, repetition kinds, Types arity)", sr.stats.cols))
		}
		for _, col := range sr.colNames {
			for _, rule := range []string{"TV-shred", "TV-asm"} {
				if rules[rule] && byRuleCol[rule+"|"+col] == 0 {
					r.ok(rule, k+" col "+col, "", "matches the reference for every case")
				}
			}
		}
		cases += sr.stats.shredCases + sr.stats.asmCases
	}
	return
}

func containsStr(xs []string, x string) bool {
	for _, y := range xs {
		if y == x {
			return true
		}
	}
	return false
}

func tvSamples(results []shapeResult, n int) []interface{} {
	var out []interface{}
	step := len(results)/n + 1
	for i := 0; i < len(results); i += step {
		sr := results[i]
		m := map[string]interface{}{"shape": sr.item.key, "status": sr.status, "columns": sr.colNames,
			"shredder_cases_compared": sr.stats.shredCases, "assembler_cases_compared": sr.stats.asmCases}
		if len(sr.viol) > 0 {
			v := sr.viol[0]
			m["first_finding"] = v.rule + " col " + v.col + ": " + v.msg
		}
		if len(sr.errFuncs) > 0 {
			m["type_errors_in"] = sr.errFuncs
		}
		out = append(out, m)
	}
	return out
}

func runCorpusFor(c *Ctx, determ bool) ([]shapeResult, string, bool) {
	items, exhaustive, desc := corpusItems(c.Tier, c.Seed)
	cp, err := newCorpus(c.U)
	if err != nil {
		c.R.failf("corpus: %v", err)
		return nil, desc, exhaustive
	}
	res := cp.runAll(items, determ)
	return res, desc, exhaustive
}

func checkC05(c *Ctx) {
	r := c.R
	res, desc, exhaustive := runCorpusFor(c, true)
	if res == nil {
		return
	}
	rules := map[string]bool{"TV-compile": true, "TV-determ": true, "TV-fields": true, "TV-shred": true, "TV-asm": true}
	programs, cases, typeErr, genFail := emitTV(r, res, rules, nil)
	checkGenMapRanges(c)
	runTagVariants(c, res)
	runTypeReuse(c)
	withTC(c, "TV-driver", nil, func(c2 *Ctx) { runTVDriver(c2, "TV-driver") })
	r.Explanation = "Translation validation of parquetgen's output, program by program over the bounded struct grammar (" + desc + "): each struct is fed to the working tree's parquetgen; the generated file must parse and type-check against today's runtime (TV-compile), be reproduced byte for byte by a second run (TV-determ), list the struct's columns one to one in Fields() (TV-fields); every column's shredder is abstractly interpreted into a decision tree over nil/empty tests and compared with the canonical Dremel shredder computed from the struct's go/types description (TV-shred); every column's assembler is checked case by case (def, rep) against the required effect — no clobber of nodes materialised earlier, no dangling access, exact creation, right indices, coverage and value counting (TV-asm). Each obligation covers ALL record values of its shape; the quantifier over shapes is discharged by enumeration."
	r.Extra["programs"] = programs
	r.Extra["disagreements_checked"] = cases
	r.Extra["exhaustive"] = exhaustive
	r.Extra["samples"] = tvSamples(res, 14)
	r.Extra["shapes_generator_failed"] = genFail
	r.Extra["shapes_with_type_errors"] = typeErr
	r.Extra["grammar"] = desc
	r.count("TV/programs", programs)
	r.floor("TV/programs", 400, "quick tier corpus size")
	r.assume("TV-asm relies on the drivers checked by TV-driver on the template-coverage packages: indices.rep, per-column consumption in Scan, column order in ParquetReader.Scan")
	r.assume("shapes outside the grammar (depth > 3, > 2 children per group, leaf types other than int32 below the root) are not covered")
}

// runTagVariants (TV-tags, C05): how a column is named is part of the documented input language — the `parquet` key of
// the struct tag wherever it stands among other keys, the field name when there is no such key. Per sampled base shape:
// the program for the struct with noisy tags is the base program; the program for the untagged struct is the program
// for the struct whose tags spell out the field names.
func runTagVariants(c *Ctx, base []shapeResult) {
	r := c.R
	cp, err := newCorpus(c.U)
	if err != nil {
		r.failf("corpus: %v", err)
		return
	}
	step := 8
	if c.Tier == "thorough" {
		step = 1
	}
	var items []corpusItem
	var bases []*shapeResult
	for i := range base {
		b := &base[i]
		if i%step != 0 || b.text == nil || len(b.item.shape) == 0 {
			continue
		}
		bases = append(bases, b)
		for _, m := range []int{4, 5, 6, 8, 9, 13, 14} {
			items = append(items, corpusItem{key: fmt.Sprintf("%s + tags%d", b.item.key, m), src: b.item.shape.SourceDeco("s", m, -1), shape: b.item.shape})
		}
	}
	res := cp.runAll(items, false)
	for i, b := range bases {
		noisy, untagged, spelled := res[7*i], res[7*i+1], res[7*i+2]
		hyphen, marked := res[7*i+5], res[7*i+6]
		for k, what := range []string{"all types in one grouped declaration, root first", "root struct declared before the structs it uses"} {
			v := res[7*i+3+k]
			r.count("TV-source/pairs", 1)
			key := b.item.key + " " + what
			switch {
			case v.text == nil:
				r.bad("TV-source", key, "", "parquetgen fails with "+what+": "+oneLine(v.genOut))
			case !bytes.Equal(normHeader(v.text), normHeader(b.text)):
				r.bad("TV-source", key, "", "with "+what+" the generated program differs from the one for separately declared types (columns "+programColumns(v.text)+", expected "+programColumns(b.text)+"): how the struct types are laid out in the source file changes the generated code")
			default:
				r.ok("TV-source", key, "", "same program")
			}
		}
		r.count("TV-tags/pairs", 2)
		key := b.item.key + " tag among other keys"
		switch {
		case noisy.text == nil:
			r.bad("TV-tags", key, "", "parquetgen fails when the parquet key stands between other tag keys: "+oneLine(noisy.genOut))
		case !bytes.Equal(normHeader(noisy.text), normHeader(b.text)):
			r.bad("TV-tags", key, "", "with `json:\"…\" parquet:\"name\" db:\"-\"` the generated program differs from the one for `parquet:\"name\"` (columns "+programColumns(noisy.text)+", expected "+programColumns(b.text)+"): the parquet key is not found among other keys")
		default:
			r.ok("TV-tags", key, "", "same program as with the parquet key alone")
		}
		key = b.item.key + " untagged"
		switch {
		case untagged.text == nil || spelled.text == nil:
			r.bad("TV-tags", key, "", "parquetgen fails on the untagged struct or on the struct tagged with its field names: "+oneLine(untagged.genOut+spelled.genOut))
		case !bytes.Equal(normHeader(untagged.text), normHeader(spelled.text)):
			r.bad("TV-tags", key, "", "without tags the columns are "+programColumns(untagged.text)+", expected the field names "+programColumns(spelled.text))
		default:
			r.ok("TV-tags", key, "", "an untagged field's column is named after the field")
		}
		r.count("TV-tags/pairs", 1)
		key = b.item.key + " hyphen in column name"
		switch {
		case marked.text == nil:
			r.undecided("TV-tags", key, "", "parquetgen fails on the struct with marker names: "+oneLine(marked.genOut))
		case hyphen.text == nil:
			r.bad("TV-tags", key, "", "parquetgen fails when a column name contains a hyphen: "+oneLine(hyphen.genOut))
		case !bytes.Equal(normHeader(hyphen.text), bytes.ReplaceAll(normHeader(marked.text), []byte(hyphenMarker), []byte("-"))):
			r.bad("TV-tags", key, "", "with column names such as `n0-col` the generated program is not the one for ordinary names with the hyphen put in (columns "+programColumns(hyphen.text)+", expected "+strings.Replace(programColumns(marked.text), hyphenMarker, "-", -1)+"): only the tag \"-\" alone excludes a field")
		default:
			r.ok("TV-tags", key, "", "a hyphen inside a column name is part of the name")
		}
	}
	r.floor("TV-tags/pairs", 40, "quick tier sample")
}

func checkC03(c *Ctx) {
	r := c.R
	res, desc, exhaustive := runCorpusFor(c, false)
	if res == nil {
		return
	}
	rules := map[string]bool{"TV-fields": true, "TV-shred": true}
	programs, cases, typeErr, genFail := emitTV(r, res, rules, func(msg string) bool {
		return !strings.Contains(msg, "required Types arity") // schema-tree input, belongs to C02/C05
	})
	r.Explanation = "For every struct shape of the corpus (" + desc + ") whose generated program type-checks, each column's shredder function is abstractly interpreted (structured AST: if/else, tagless switch, range loops analysed for first and later iterations, appends to defs/reps/vals) into a decision tree whose tests are (access path, nil/empty) and whose leaves are emissions (def, rep, value path); it must equal the canonical Dremel shredder of that column computed from the struct's go/types description — def = number of defined optional/repeated ancestors, rep = depth of the repeated node being continued, value = exactly the leaf's access path, one emission per path, levels within the column maxima; and the repetition kinds / paths handed to the runtime in Fields() are the struct's. Holds for every record of each shape. Programs that do not type-check are C05 findings and are skipped here."
	r.Extra["programs"] = programs
	r.Extra["disagreements_checked"] = cases
	r.Extra["exhaustive"] = exhaustive
	r.Extra["samples"] = tvSamples(res, 14)
	r.Extra["shapes_skipped_generator_failed"] = genFail
	r.Extra["shapes_with_type_errors_partly_skipped"] = typeErr
	r.count("TV/programs", programs)
	r.floor("TV/programs", 400, "quick tier corpus size")
	// the levels of a row group are those of its own records only if Write re-initialises the per-batch column state
	withTC(c, "WH-reset", []string{"overlap"}, func(c2 *Ctx) {
		runWHReset(c2, "WH-reset")
		// definition and repetition levels live in separate slices that cannot grow into each other
		laOverlap(c2, "LA-overlap")
		// the level streams are written (and read) with the minimal bit width of the column's maximum level, which is what
		// "a reader that knows only the Parquet specification" derives from the schema
		laOrder(c2, "LA-order")
		laMaxLevels(c2, "LA-maxlevels")
		// ... and what is stored is that striping only if the level encoder writes a stream a specification decoder
		// reads back (run headers, run lengths, thresholds: the structural conditions of C07)
		laRunKind(c2)
		laLEB(c2)
		// what the shredder returned is what the column keeps (values, definition and repetition levels)
		runFT(c2, "FT", map[string]bool{"delta": true, "count": true})
	})
	r.assume("RepetitionTypes.MaxDef/MaxRep at run time and the RLE bytes (C07) are not decided here")
}

// --- C14 ---

type c14Variant struct {
	base  *shapeResult
	name  string
	mode  int
	level int
}

// c14Items: base shapes whose own program is fine, and their decorated variants.
func c14Items(cp *corpus, tier string, seed int64) (good []shapeResult, vars []c14Variant, ditems []corpusItem, exhaustive bool, desc string) {
	items, exhaustive, desc := corpusItems(tier, seed)
	base := cp.runAll(items, false)
	for _, b := range base {
		if b.status == "OK" {
			good = append(good, b)
		}
	}
	if tier != "thorough" && len(good) > 150 {
		// keep the quick tier small: every 3rd good base shape
		var g2 []shapeResult
		for i, g := range good {
			if i%3 == 0 {
				g2 = append(g2, g)
			}
		}
		good = g2
	}
	for i := range good {
		b := &good[i]
		depth := b.item.shape.depth()
		for _, mode := range []int{1, 2, 3, 7, 11, 12} {
			mn := map[int]string{1: "excluded-fields", 2: "embedded", 3: "multiname", 7: "excluded-embedded", 11: "multiname-hidden-first", 12: "embedded-pointer"}[mode]
			levels := []int{-1}
			for l := 0; l <= depth; l++ {
				levels = append(levels, l)
			}
			if depth == 0 {
				levels = []int{-1}
			}
			if mode == 7 || mode == 11 || mode == 12 {
				// root struct only: nested structs are built with positional literals (D9, known), which any extra field breaks
				levels = []int{0}
			}
			for _, l := range levels {
				name := fmt.Sprintf("%s@all", mn)
				if l >= 0 {
					name = fmt.Sprintf("%s@level%d", mn, l)
				}
				vars = append(vars, c14Variant{b, name, mode, l})
				ditems = append(ditems, corpusItem{key: b.item.key + " + " + name, src: b.item.shape.SourceDeco("s", mode, l), shape: b.item.shape})
			}
		}
	}
	return
}

func checkC14(c *Ctx) {
	r := c.R
	cp, err := newCorpus(c.U)
	if err != nil {
		r.failf("corpus: %v", err)
		return
	}
	good, vars, ditems, exhaustive, desc := c14Items(cp, c.Tier, c.Seed)
	dres := cp.runAll(ditems, false)
	pairs := 0
	for i, d := range dres {
		v := vars[i]
		pairs++
		key := v.base.item.key + " + " + v.name
		switch {
		case d.status == "GENFAIL" || d.status == "PARSEFAIL":
			r.bad("TV-inert", key+" generate", "", "parquetgen fails on the decorated struct although the base struct generates: "+oneLine(d.genOut))
			continue
		case !bytes.Equal(normHeader(d.text), normHeader(v.base.text)):
			cols := programColumns(d.text)
			r.bad("TV-inert", key+" program: columns "+cols, "", "the generated program differs from the base struct's program (its columns are "+cols+"; base: "+programColumns(v.base.text)+"): excluded fields / embedding are not inert")
			continue
		}
		if len(d.errFuncs) > 0 {
			for _, f := range d.errFuncs {
				msg := ""
				for _, te := range d.typeErrs {
					if strings.HasPrefix(te, f+": ") {
						msg = te
						break
					}
				}
				r.bad("TV-inert", key+" typeerr in "+f, "", "same program text as the base struct, but it does not type-check against the decorated struct: "+msg)
			}
			continue
		}
		if len(d.viol) > 0 {
			// same text, different struct: the reference (computed from the decorated struct through go/types) must still match
			for _, f := range d.viol {
				k2 := key + " col " + f.col + ": " + f.msg
				if isUndecided(f.msg) {
					r.undecided("TV-inert", k2, "", f.rule+": "+f.msg)
				} else {
					r.bad("TV-inert", k2, "", f.rule+": "+f.msg)
				}
			}
			continue
		}
		r.ok("TV-inert", key, "", "same generated program as the base struct, type-checks, selectors resolve to the same leaf fields (embedded hops removed), no reference to an excluded field; columns = the base struct's columns")
	}
	r.Explanation = "Translation validation over (base struct, decorated struct) pairs: base shapes are those of the corpus (" + desc + ") whose own program discharges C05; decorations are (E) unexported and `parquet:\"-\"` fields of map / slice-of-chan types inserted at every position, in every struct at once and per nesting level, and (M) the whole field run of a struct moved into an embedded struct, per level and everywhere. Obligation per pair: both generate; the generated program text is identical to the base program (hence same schema literal, same shredders and assemblers, no statement mentions an excluded field, fresh structs leave excluded fields zero); the identical program type-checks against the decorated struct and re-validates against the reference columns computed from the decorated struct through go/types (embedded structs inlined, excluded fields skipped). Identical programs over corresponding values produce byte-identical files."
	r.Extra["programs"] = pairs
	r.Extra["disagreements_checked"] = pairs
	r.Extra["exhaustive"] = exhaustive
	r.Extra["base_shapes"] = len(good)
	var samples []interface{}
	for i := 0; i < len(dres) && len(samples) < 12; i += len(dres)/12 + 1 {
		samples = append(samples, map[string]interface{}{"pair": ditems[i].key, "status": dres[i].status, "type_errors_in": dres[i].errFuncs})
	}
	r.Extra["samples"] = samples
	r.count("TV/pairs", pairs)
	r.floor("TV/pairs", 200, "quick tier")
	r.assume("runtime behaviour is a function of the generated program and the values reached through its selectors")
}

func normHeader(b []byte) []byte {
	// the first line is a generated-code comment; everything else must match
	if i := bytes.IndexByte(b, '\n'); i >= 0 {
		return b[i:]
	}
	return b
}

// checkGenMapRanges: TV-determ, generator side — every range over a map in the generator packages has an order-insensitive body.
func checkGenMapRanges(c *Ctx) {
	r, u := c.R, c.U
	// the generator packages are loaded on demand (syntax + types only)
	pk, err := loadGenSyntax(u)
	if err != nil {
		r.failf("generator packages: %v", err)
		return
	}
	n := 0
	for _, p := range pk {
		for _, f := range p.Syntax {
			ast.Inspect(f, func(node ast.Node) bool {
				rs, ok := node.(*ast.RangeStmt)
				if !ok {
					return true
				}
				if _, isMap := p.TypesInfo.Types[rs.X].Type.Underlying().(*types.Map); !isMap {
					return true
				}
				n++
				key := strings.TrimPrefix(p.PkgPath, genBase) + " range over " + types.ExprString(rs.X) + " in " + enclosingFuncName(f, rs.Pos())
				why := orderSensitive(p.TypesInfo, rs)
				if why == "" {
					r.ok("TV-determ/map-range", key, u.Pos(rs.Pos()), "body only fills per-iteration locals and map entries keyed by the range key")
				} else {
					r.bad("TV-determ/map-range", key, u.Pos(rs.Pos()), "generator iterates over a map with an order-sensitive body: "+why)
				}
				return true
			})
		}
	}
	r.count("TV-determ/map-ranges", n)
}

// orderSensitive returns "" if the body of a range-over-map statement cannot depend on iteration order by the rules stated in DESIGN.md.
func orderSensitive(info *types.Info, rs *ast.RangeStmt) string {
	inside := func(o types.Object) bool {
		return o != nil && o.Pos() >= rs.Pos() && o.Pos() <= rs.End()
	}
	var keyObj types.Object
	if id, ok := rs.Key.(*ast.Ident); ok {
		keyObj = info.Defs[id]
	}
	root := func(e ast.Expr) (*ast.Ident, ast.Expr) {
		var idx ast.Expr
		for {
			switch x := e.(type) {
			case *ast.Ident:
				return x, idx
			case *ast.SelectorExpr:
				e = x.X
			case *ast.IndexExpr:
				idx = x.Index
				e = x.X
			case *ast.StarExpr:
				e = x.X
			case *ast.ParenExpr:
				e = x.X
			default:
				return nil, idx
			}
		}
	}
	why := ""
	ast.Inspect(rs.Body, func(n ast.Node) bool {
		if why != "" {
			return false
		}
		switch x := n.(type) {
		case *ast.AssignStmt:
			for _, l := range x.Lhs {
				id, idx := root(l)
				if id == nil || id.Name == "_" {
					continue
				}
				o := info.Uses[id]
				if o == nil {
					o = info.Defs[id]
				}
				if o == nil || inside(o) {
					continue
				}
				// outer variable: only map[key] = … is order-insensitive
				if ie, ok := l.(*ast.IndexExpr); ok {
					if _, isMap := info.Types[ie.X].Type.Underlying().(*types.Map); isMap {
						if kid, ok := idx.(*ast.Ident); ok && info.Uses[kid] == keyObj && keyObj != nil {
							continue
						}
					}
				}
				why = "assignment to " + types.ExprString(l) + " declared outside the loop"
			}
		case *ast.ReturnStmt:
			// a return inside a nested function literal is fine; detect by position of enclosing FuncLit
			why = "return inside the loop"
		case *ast.FuncLit:
			// analyse closures with the same rules, but returns inside them are theirs
			ast.Inspect(x.Body, func(m ast.Node) bool {
				if as, ok := m.(*ast.AssignStmt); ok {
					for _, l := range as.Lhs {
						id, _ := root(l)
						if id == nil || id.Name == "_" {
							continue
						}
						o := info.Uses[id]
						if o == nil {
							o = info.Defs[id]
						}
						if o == nil {
							continue // symbolic variable of a type switch
						}
						if !inside(o) {
							why = "closure assigns " + types.ExprString(l) + " declared outside the loop"
						}
					}
				}
				return true
			})
			return false
		case *ast.BranchStmt:
			if x.Tok == token.BREAK || x.Tok == token.GOTO {
				why = x.Tok.String() + " inside the loop"
			}
		case *ast.SendStmt:
			why = "channel send"
		case *ast.ExprStmt:
			if call, ok := x.X.(*ast.CallExpr); ok {
				for _, a := range call.Args {
					if id, ok := a.(*ast.Ident); ok {
						o := info.Uses[id]
						if o != nil && !inside(o) && o != keyObj {
							if _, isVar := o.(*types.Var); isVar {
								switch o.Type().Underlying().(type) {
								case *types.Pointer, *types.Slice, *types.Map, *types.Chan, *types.Interface:
									why = "call " + types.ExprString(call.Fun) + " receives " + id.Name + " declared outside the loop"
								}
							}
						}
					}
				}
			}
		}
		return true
	})
	return why
}

var pathLit = regexp.MustCompile(`\[\]string\{([^}]*)\}`)

// programColumns lists the column paths of the Fields() literal of a generated program.
func programColumns(text []byte) string {
	i := bytes.Index(text, []byte("func Fields("))
	if i < 0 {
		return "?"
	}
	j := bytes.Index(text[i:], []byte("\n}\n"))
	if j < 0 {
		return "?"
	}
	var cols []string
	for _, m := range pathLit.FindAllSubmatch(text[i:i+j], -1) {
		cols = append(cols, strings.ReplaceAll(strings.ReplaceAll(strings.ReplaceAll(string(m[1]), `"`, ""), ", ", "."), " ", ""))
	}
	return "[" + strings.Join(cols, " ") + "]"
}

// withTC runs a rule that needs the instantiated template-coverage packages (G_tc) in a second universe. If those
// packages cannot be generated or do not type-check, that is itself a finding of the corpus properties (the generator
// emits broken code for a documented struct), reported as such rather than as a checker failure.
func withTC(c *Ctx, rule string, controls []string, f func(c2 *Ctx)) {
	u2, err := loadUniverse(LoadOpts{TC: true, SSA: true, Controls: controls})
	if err != nil {
		c.R.bad("TV-compile", "template-coverage structs (alltypes, doc, person, excluded)", "", "parquetgen output for the template-coverage structs cannot be analysed: "+oneLine(err.Error()))
		return
	}
	defer u2.Close()
	c2 := &Ctx{Prop: c.Prop, Tier: c.Tier, Seed: c.Seed, R: c.R, U: u2}
	f(c2)
}
