package main

// Helpers for the LA (layout / length / table agreement) rules: a canonical
// printer of SSA values, used to compare what two sibling functions compute.

import (
	"fmt"
	"go/constant"
	"go/token"
	"go/types"
	"sort"
	"strconv"
	"strings"

	"golang.org/x/tools/go/ssa"
)

// symExpr renders an SSA value as a normalised expression over parameters, fields and constants.
// The receiver of a method is printed as "recv" so that sibling methods can be compared.
// symU gives symExpr access to the universe (call sites of a function, universe membership); set by loadUniverse.
var symU *Universe

var symCallers map[*ssa.Function][]ssa.CallInstruction

func callersOf(fn *ssa.Function) []ssa.CallInstruction {
	if symU == nil {
		return nil
	}
	if symCallers == nil {
		symCallers = map[*ssa.Function][]ssa.CallInstruction{}
		for _, f := range symU.Funcs {
			if f.Synthetic != "" {
				continue // wrappers of promoted methods only forward
			}
			for _, b := range f.Blocks {
				for _, ins := range b.Instrs {
					if call, ok := ins.(ssa.CallInstruction); ok {
						if sc := call.Common().StaticCallee(); sc != nil {
							symCallers[sc] = append(symCallers[sc], call)
						}
					}
				}
			}
		}
	}
	return symCallers[fn]
}

func symExpr(v ssa.Value, depth int) string { return symExprB(v, depth, nil) }

// symExprB: bind maps parameters of an inlined callee to the caller-side expression.
func symExprB(v ssa.Value, depth int, bind map[*ssa.Parameter]string) string {
	if v == nil {
		return "nil"
	}
	if depth > 14 {
		return "…"
	}
	d := depth + 1
	symExpr := func(v ssa.Value, depth int) string { return symExprB(v, depth, bind) }
	switch x := v.(type) {
	case *ssa.Const:
		if x.Value == nil {
			return "nil"
		}
		return x.Value.ExactString()
	case *ssa.Parameter:
		if bs, ok := bind[x]; ok {
			return bs
		}
		fn := x.Parent()
		if fn != nil && fn.Signature.Recv() != nil && len(fn.Params) > 0 && fn.Params[0] == x {
			return "recv"
		}
		// a parameter of an unexported helper with a single call site is what that call site passes
		if fn != nil && fn.Object() != nil && !fn.Object().Exported() {
			if cs := callersOf(fn); len(cs) == 1 && cs[0].Parent() != fn {
				args := callArgs(cs[0].Common())
				for i, p := range fn.Params {
					if p == x && i < len(args) {
						return symExprB(args[i], d+2, nil)
					}
				}
			}
		}
		return "param:" + x.Name()
	case *ssa.FreeVar:
		return "free:" + x.Name()
	case *ssa.Global:
		return x.Pkg.Pkg.Name() + "." + x.Name()
	case *ssa.Function:
		return x.String()
	case *ssa.UnOp:
		if x.Op == token.MUL {
			// a byte-array variable that is initialised from constants and never written again reads as that constant
			if g, ok := x.X.(*ssa.Global); ok {
				if bs, ok := constGlobalBytes(g); ok {
					return strconv.Quote(bs)
				}
			}
			return "load(" + symExpr(x.X, d) + ")"
		}
		return x.Op.String() + symExpr(x.X, d)
	case *ssa.FieldAddr:
		if f := fieldOf(x); f != nil {
			return symExpr(x.X, d) + "." + roleOf(f)
		}
	case *ssa.Field:
		if f := fieldOf(x); f != nil {
			return symExpr(x.X, d) + "." + roleOf(f)
		}
	case *ssa.IndexAddr:
		return symExpr(x.X, d) + "[" + symExpr(x.Index, d) + "]"
	case *ssa.Index:
		return symExpr(x.X, d) + "[" + symExpr(x.Index, d) + "]"
	case *ssa.Lookup:
		return symExpr(x.X, d) + "[" + symExpr(x.Index, d) + "]"
	case *ssa.Slice:
		return symExpr(x.X, d) + "[" + symExpr(x.Low, d) + ":" + symExpr(x.High, d) + "]"
	case *ssa.Convert:
		return types.TypeString(x.Type(), nil) + "(" + symExpr(x.X, d) + ")"
	case *ssa.ChangeType:
		return symExpr(x.X, d)
	case *ssa.MakeInterface:
		return symExpr(x.X, d)
	case *ssa.BinOp:
		return "(" + symExpr(x.X, d) + " " + x.Op.String() + " " + symExpr(x.Y, d) + ")"
	case *ssa.Extract:
		return symExpr(x.Tuple, d) + "#" + fmt.Sprint(x.Index)
	case *ssa.Phi:
		var es []string
		seen := map[string]bool{}
		for _, e := range x.Edges {
			if e == ssa.Value(x) {
				continue
			}
			s := symExpr(e, d+3)
			if !seen[s] {
				seen[s] = true
				es = append(es, s)
			}
		}
		sort.Strings(es)
		if len(es) == 1 {
			return es[0]
		}
		return "phi[" + strings.Join(es, "|") + "]"
	case *ssa.Call:
		// a pure single-expression helper of the universe is printed as its body with the arguments substituted
		if sc := x.Call.StaticCallee(); sc != nil && symU != nil && symU.InUniverse(sc) && len(sc.Blocks) == 1 && sc.Signature.Results().Len() == 1 {
			if ret, ok := sc.Blocks[0].Instrs[len(sc.Blocks[0].Instrs)-1].(*ssa.Return); ok && storeFreeBlock(sc.Blocks[0]) {
				nb := map[*ssa.Parameter]string{}
				for i, a := range callArgs(&x.Call) {
					if i < len(sc.Params) {
						nb[sc.Params[i]] = symExpr(a, d)
					}
				}
				return symExprB(ret.Results[0], d, nb)
			}
		}
		var as []string
		for _, a := range callArgs(&x.Call) {
			as = append(as, symExpr(a, d))
		}
		return fullCalleeName(&x.Call) + "(" + strings.Join(as, ", ") + ")"
	case *ssa.Alloc:
		return "alloc:" + x.Name()
	case *ssa.MakeSlice:
		return "make(" + types.TypeString(x.Type(), nil) + ", " + symExpr(x.Len, d) + ")"
	}
	return fmt.Sprintf("%s:%T", v.Name(), v)
}

// callsTo lists the call instructions in fn whose static callee has the given full name (ssa String()).
func callsTo(fn *ssa.Function, full string) []*ssa.Call {
	var out []*ssa.Call
	for _, b := range fn.Blocks {
		for _, ins := range b.Instrs {
			if c, ok := ins.(*ssa.Call); ok && fullCalleeName(&c.Call) == full {
				out = append(out, c)
			}
		}
	}
	return out
}

// schemaField finds a struct field of package schema by name.
func schemaField(u *Universe, typ, fld string) *types.Var {
	p := u.Pkgs[rtPath]
	if p == nil {
		return nil
	}
	sp := p.Imports[schPath]
	if sp == nil {
		return nil
	}
	o := sp.Types.Scope().Lookup(typ)
	if o == nil {
		return nil
	}
	st, ok := o.Type().Underlying().(*types.Struct)
	if !ok {
		return nil
	}
	for i := 0; i < st.NumFields(); i++ {
		if st.Field(i).Name() == fld {
			return st.Field(i)
		}
	}
	return nil
}

// rtField finds a field of a named struct type of the runtime package.
func rtField(u *Universe, pkg, typ, fld string) *types.Var {
	p := u.Pkgs[pkg]
	if p == nil {
		return nil
	}
	o := p.Types.Scope().Lookup(typ)
	if o == nil {
		return nil
	}
	st, ok := o.Type().Underlying().(*types.Struct)
	if !ok {
		return nil
	}
	for i := 0; i < st.NumFields(); i++ {
		if st.Field(i).Name() == fld {
			return st.Field(i)
		}
	}
	return nil
}

// dominatesInstr: a executes before b on every path to b.
func dominatesInstr(a, b ssa.Instruction) bool {
	if a.Block() == b.Block() {
		for _, ins := range a.Block().Instrs {
			if ins == a {
				return true
			}
			if ins == b {
				return false
			}
		}
	}
	return a.Block().Dominates(b.Block())
}

// guardConds: the (normalised) conditions, with required truth values, of the If blocks whose single-predecessor successor dominates b.
func guardConds(b *ssa.BasicBlock) []string {
	var out []string
	for d := b.Idom(); d != nil; d = d.Idom() {
		iff, ok := lastInstr(d).(*ssa.If)
		if !ok || d.Succs[0] == d.Succs[1] {
			continue
		}
		for si, truth := range []bool{true, false} {
			t := d.Succs[si]
			if len(t.Preds) == 1 && (t == b || t.Dominates(b)) {
				out = append(out, fmt.Sprintf("%v:%s", truth, symExpr(iff.Cond, 0)))
			}
		}
	}
	sort.Strings(out)
	return out
}

// pureBlock: the block only computes values (no stores, no calls other than builtins and math/bits helpers).
func pureBlock(b *ssa.BasicBlock) bool {
	for _, ins := range b.Instrs {
		switch x := ins.(type) {
		case *ssa.Store, *ssa.MapUpdate, *ssa.Send, *ssa.Go, *ssa.Defer:
			return false
		case *ssa.Call:
			if _, ok := x.Call.Value.(*ssa.Builtin); ok {
				continue
			}
			if sc := x.Call.StaticCallee(); sc != nil && sc.Pkg != nil && sc.Pkg.Pkg.Path() == "math/bits" {
				continue
			}
			return false
		}
	}
	return true
}

// storeFreeBlock: the block writes no memory itself (it may call other functions, which are printed as calls).
func storeFreeBlock(b *ssa.BasicBlock) bool {
	for _, ins := range b.Instrs {
		switch ins.(type) {
		case *ssa.Store, *ssa.MapUpdate, *ssa.Send, *ssa.Go, *ssa.Defer, *ssa.Panic:
			return false
		}
	}
	return true
}

var constGlobalMemo = map[*ssa.Global]*string{}

// constGlobalBytes: g is a package-level [n]byte variable of the universe whose elements are all set from constants in
// the package initialiser and that no other instruction of the universe mentions except to load it.
func constGlobalBytes(g *ssa.Global) (string, bool) {
	if v, ok := constGlobalMemo[g]; ok {
		if v == nil {
			return "", false
		}
		return *v, true
	}
	constGlobalMemo[g] = nil
	pt, ok := g.Type().(*types.Pointer)
	if !ok {
		return "", false
	}
	at, ok := pt.Elem().Underlying().(*types.Array)
	if !ok || at.Len() == 0 || at.Len() > 16 {
		return "", false
	}
	if bt, ok := at.Elem().Underlying().(*types.Basic); !ok || bt.Kind() != types.Uint8 {
		return "", false
	}
	if symU == nil || g.Pkg == nil {
		return "", false
	}
	out := make([]byte, at.Len())
	set := make([]bool, at.Len())
	initFn := g.Pkg.Func("init")
	okAll := true
	scan := func(f *ssa.Function, isInit bool) {
		for _, b := range f.Blocks {
			for _, ins := range b.Instrs {
				for _, op := range ins.Operands(nil) {
					if op == nil || *op != ssa.Value(g) {
						continue
					}
					switch x := ins.(type) {
					case *ssa.UnOp:
						if x.Op != token.MUL {
							okAll = false
						}
					case *ssa.IndexAddr:
						// in init: the element stores; elsewhere only loads of elements
						k, isK := x.Index.(*ssa.Const)
						for _, ref := range *x.Referrers() {
							switch y := ref.(type) {
							case *ssa.Store:
								c, isC := y.Val.(*ssa.Const)
								if !isInit || !isK || !isC || k.Value == nil || c.Value == nil || y.Addr != ssa.Value(x) {
									okAll = false
									continue
								}
								i, _ := constant.Int64Val(k.Value)
								v, _ := constant.Int64Val(c.Value)
								if i < 0 || i >= int64(len(out)) {
									okAll = false
									continue
								}
								out[i], set[i] = byte(v), true
							case *ssa.UnOp:
								if y.Op != token.MUL {
									okAll = false
								}
							default:
								okAll = false
							}
						}
					case *ssa.Store:
						// whole-array store of a constant composite is not produced by go/ssa for arrays; anything else is a write
						okAll = false
					default:
						okAll = false
					}
				}
			}
		}
	}
	if initFn != nil {
		scan(initFn, true)
	}
	for _, f := range symU.Funcs {
		if f != initFn {
			scan(f, false)
		}
	}
	for _, s := range set {
		if !s {
			okAll = false
		}
	}
	if !okAll {
		return "", false
	}
	str := string(out)
	constGlobalMemo[g] = &str
	return str, true
}
