package main

// TV — translation validation of generated programs (DESIGN.md §4 TV): reference columns from go/types, Fields() literal check.

import (
	"fmt"
	"go/ast"
	"go/constant"
	"go/token"
	"go/types"
	"reflect"
	"strings"
)

type step struct {
	field *types.Var
	kind  Kind
	leaf  bool
	col   string
}

type column struct {
	steps   []step
	elem    string
	s       int // shared prefix with previous column
	readFn  string
	writeFn string
}

func (c *column) name() string {
	var p []string
	for _, s := range c.steps {
		p = append(p, s.col)
	}
	return strings.Join(p, ".")
}
func (c *column) maxDef() int {
	n := 0
	for _, s := range c.steps {
		if s.kind != Req {
			n++
		}
	}
	return n
}
func (c *column) maxRep() int {
	n := 0
	for _, s := range c.steps {
		if s.kind == Rep {
			n++
		}
	}
	return n
}

// defAt(k): number of opt/rep nodes among steps[0..k] inclusive (k is 1-based pos)
func (c *column) defDepth(pos int) int {
	n := 0
	for i := 0; i < pos; i++ {
		if c.steps[i].kind != Req {
			n++
		}
	}
	return n
}
func (c *column) repDepth(pos int) int {
	n := 0
	for i := 0; i < pos; i++ {
		if c.steps[i].kind == Rep {
			n++
		}
	}
	return n
}

// D(d): last position (1-based) before the (d+1)-th opt/rep node; len(steps) if d==maxDef
func (c *column) D(d int) int {
	n := 0
	for i, s := range c.steps {
		if s.kind != Req {
			n++
			if n == d+1 {
				return i
			}
		}
	}
	return len(c.steps)
}

// position (1-based) of r-th repeated node
func (c *column) repPos(r int) int {
	n := 0
	for i, s := range c.steps {
		if s.kind == Rep {
			n++
			if n == r {
				return i + 1
			}
		}
	}
	return 0
}

var prims = map[string]bool{"int32": true, "uint32": true, "int64": true, "uint64": true, "float32": true, "float64": true, "bool": true, "string": true}

func tagName(tag string, def string) (string, bool) {
	i := strings.Index(tag, `parquet:"`)
	if i < 0 {
		return def, false
	}
	t := tag[i+9:]
	t = t[:strings.Index(t, `"`)]
	if t == "-" {
		return "", true
	}
	if t == "" {
		return def, false
	}
	return t, false
}

func reference(root *types.Named) []*column {
	var cols []*column
	var walk func(st *types.Struct, prefix []step)
	walk = func(st *types.Struct, prefix []step) {
		for i := 0; i < st.NumFields(); i++ {
			f := st.Field(i)
			if !f.Exported() {
				continue
			}
			name, skip := tagName(st.Tag(i), f.Name())
			if skip {
				continue
			}
			t := f.Type()
			kind := Req
			switch tt := t.(type) {
			case *types.Pointer:
				kind, t = Opt, tt.Elem()
			case *types.Slice:
				kind, t = Rep, tt.Elem()
			}
			if f.Embedded() {
				if s, ok := t.Underlying().(*types.Struct); ok {
					walk(s, prefix)
				}
				continue
			}
			if b, ok := t.(*types.Basic); ok && prims[b.Name()] {
				steps := append(append([]step{}, prefix...), step{field: f, kind: kind, leaf: true, col: name})
				cols = append(cols, &column{steps: steps, elem: b.Name()})
				continue
			}
			if s, ok := t.Underlying().(*types.Struct); ok {
				walk(s, append(append([]step{}, prefix...), step{field: f, kind: kind, col: name}))
			}
		}
	}
	walk(root.Underlying().(*types.Struct), nil)
	for i, c := range cols {
		if i == 0 {
			continue
		}
		p := cols[i-1]
		for c.s < len(c.steps) && c.s < len(p.steps) && c.steps[c.s].field == p.steps[c.s].field {
			c.s++
		}
	}
	return cols
}

type tvChecker struct {
	fset     *token.FileSet
	pkg      *types.Package
	info     *types.Info
	file     *ast.File
	errFuncs map[string]bool
	funcs    map[string]*ast.FuncDecl
}

// tvF is one finding of the translation validation of one generated program.
type tvF struct {
	rule string // TV-fields, TV-shred, TV-asm
	col  string
	msg  string
}

type tvStats struct {
	cols, shredFns, asmFns, shredCases, asmCases int
}

func (tv *tvChecker) check(rootName string) (viol []tvF, stats tvStats) {
	defer func() {
		if p := recover(); p != nil {
			viol = append(viol, tvF{"TV-internal", "", fmt.Sprintf("undecided: checker panic %v", p)})
		}
	}()
	tv.funcs = map[string]*ast.FuncDecl{}
	for _, d := range tv.file.Decls {
		if fd, ok := d.(*ast.FuncDecl); ok && fd.Recv == nil {
			tv.funcs[fd.Name.Name] = fd
		}
	}
	obj := tv.pkg.Scope().Lookup(rootName)
	if obj == nil {
		return []tvF{{"TV-internal", "", "undecided: root struct not found"}}, stats
	}
	cols := reference(obj.Type().(*types.Named))
	stats.cols = len(cols)
	for _, v := range tv.checkFields(cols) {
		viol = append(viol, tvF{"TV-fields", "", v})
	}
	for _, c := range cols {
		if c.readFn == "" {
			continue
		}
		if tv.errFuncs[c.readFn] {
			// reported by TV-compile
		} else if fd := tv.funcs[c.readFn]; fd != nil {
			stats.shredFns++
			vs, n := tv.checkShred(c, fd)
			stats.shredCases += n
			for _, v := range vs {
				viol = append(viol, tvF{"TV-shred", c.name(), v})
			}
		} else {
			viol = append(viol, tvF{"TV-shred", c.name(), "shredder function " + c.readFn + " is not defined"})
		}
		if tv.errFuncs[c.writeFn] {
		} else if fd := tv.funcs[c.writeFn]; fd != nil {
			stats.asmFns++
			vs, n := tv.checkAsm(c, fd)
			stats.asmCases += n
			for _, v := range vs {
				viol = append(viol, tvF{"TV-asm", c.name(), v})
			}
		} else {
			viol = append(viol, tvF{"TV-asm", c.name(), "assembler function " + c.writeFn + " is not defined"})
		}
	}
	return viol, stats
}

func title(s string) string { return strings.ToUpper(s[:1]) + s[1:] }

func (tv *tvChecker) constInt(e ast.Expr) (int, bool) {
	if tvv, ok := tv.info.Types[e]; ok && tvv.Value != nil {
		if v, ok := constant.Int64Val(constant.ToInt(tvv.Value)); ok {
			return int(v), true
		}
	}
	return 0, false
}

func (tv *tvChecker) checkFields(cols []*column) []string {
	fd := tv.funcs["Fields"]
	if fd == nil {
		return []string{"fields:missing"}
	}
	var lit *ast.CompositeLit
	ast.Inspect(fd, func(n ast.Node) bool {
		if r, ok := n.(*ast.ReturnStmt); ok && len(r.Results) == 1 {
			lit, _ = r.Results[0].(*ast.CompositeLit)
		}
		return true
	})
	if lit == nil {
		return []string{"fields:noliteral"}
	}
	if len(lit.Elts) != len(cols) {
		return []string{fmt.Sprintf("fields:count got %d want %d", len(lit.Elts), len(cols))}
	}
	var out []string
	for i, e := range lit.Elts {
		c := cols[i]
		call, ok := e.(*ast.CallExpr)
		if !ok {
			out = append(out, "fields:notcall")
			continue
		}
		opt := ""
		if c.maxDef() > 0 {
			opt = "Optional"
		}
		want := "New" + title(c.elem) + opt + "Field"
		if id, ok := call.Fun.(*ast.Ident); !ok || id.Name != want {
			out = append(out, fmt.Sprintf("fields:%s ctor want %s", c.name(), want))
		}
		if len(call.Args) < 3 {
			out = append(out, "fields:args")
			continue
		}
		if id, ok := call.Args[0].(*ast.Ident); ok {
			c.readFn = id.Name
		}
		if id, ok := call.Args[1].(*ast.Ident); ok {
			c.writeFn = id.Name
		}
		var path []string
		if cl, ok := call.Args[2].(*ast.CompositeLit); ok {
			for _, el := range cl.Elts {
				if tvv, ok := tv.info.Types[el]; ok && tvv.Value != nil {
					path = append(path, constant.StringVal(tvv.Value))
				}
			}
		}
		if strings.Join(path, ".") != c.name() {
			out = append(out, fmt.Sprintf("fields:%s path got %v", c.name(), path))
		}
		if opt != "" {
			var kinds []int
			if len(call.Args) > 3 {
				if cl, ok := call.Args[3].(*ast.CompositeLit); ok {
					for _, el := range cl.Elts {
						v, _ := tv.constInt(el)
						kinds = append(kinds, v)
					}
				}
			}
			var want []int
			for _, s := range c.steps {
				want = append(want, int(s.kind))
			}
			if !reflect.DeepEqual(kinds, want) {
				out = append(out, fmt.Sprintf("fields:%s types got %v want %v", c.name(), kinds, want))
			}
		} else {
			// required column: the runtime's schema() indexes Field.Types by every group of the path
			ar, why := tv.requiredTypesArity("" + title(c.elem) + "Field")
			switch {
			case why != "":
				out = append(out, fmt.Sprintf("undecided: fields:%s required Types: %s", c.name(), why))
			case ar >= 0 && ar < len(c.steps)-1:
				out = append(out, fmt.Sprintf("fields:%s required Types arity %d < path %d - 1", c.name(), ar, len(c.steps)))
			}
		}
	}
	return out
}

// requiredTypesArity inspects the Schema() method of a required field type: the length of the Types value it hands to the
// runtime. Returns -1 when the length is the path's own length (make([]int, len(f.Path()))).
func (tv *tvChecker) requiredTypesArity(typeName string) (int, string) {
	for _, d := range tv.file.Decls {
		fd, ok := d.(*ast.FuncDecl)
		if !ok || fd.Recv == nil || fd.Name.Name != "Schema" || len(fd.Recv.List) != 1 {
			continue
		}
		rt := fd.Recv.List[0].Type
		if st, ok := rt.(*ast.StarExpr); ok {
			rt = st.X
		}
		if id, ok := rt.(*ast.Ident); !ok || id.Name != typeName {
			continue
		}
		var val ast.Expr
		isPathCall := func(e ast.Expr) bool {
			pc, ok := e.(*ast.CallExpr)
			if !ok {
				return false
			}
			sel, ok := pc.Fun.(*ast.SelectorExpr)
			return ok && sel.Sel.Name == "Path" && len(pc.Args) == 0
		}
		// names that hold the column's path: locals initialised with <recv>.Path(), and the Path field of the value being
		// built once it has been given <recv>.Path() (directly or through such a local)
		pathNames := map[string]bool{}
		pathFieldSet := false
		holdsPath := func(e ast.Expr) bool {
			if isPathCall(e) {
				return true
			}
			if id, ok := e.(*ast.Ident); ok {
				return pathNames[id.Name]
			}
			if sel, ok := e.(*ast.SelectorExpr); ok && sel.Sel.Name == "Path" {
				return pathFieldSet
			}
			return false
		}
		ast.Inspect(fd.Body, func(n ast.Node) bool {
			switch x := n.(type) {
			case *ast.KeyValueExpr:
				if k, ok := x.Key.(*ast.Ident); ok {
					if k.Name == "Types" {
						val = x.Value
					}
					if k.Name == "Path" && holdsPath(x.Value) {
						pathFieldSet = true
					}
				}
			case *ast.AssignStmt:
				for i, l := range x.Lhs {
					if i >= len(x.Rhs) {
						break
					}
					switch lx := l.(type) {
					case *ast.Ident:
						if holdsPath(x.Rhs[i]) {
							pathNames[lx.Name] = true
						}
					case *ast.SelectorExpr:
						if lx.Sel.Name == "Path" && holdsPath(x.Rhs[i]) {
							pathFieldSet = true
						}
						if lx.Sel.Name == "Types" {
							val = x.Rhs[i]
						}
					}
				}
			}
			return true
		})
		switch x := val.(type) {
		case nil:
			return 0, ""
		case *ast.CompositeLit:
			return len(x.Elts), ""
		case *ast.CallExpr:
			// make([]int, len(<the column's path>))
			if id, ok := x.Fun.(*ast.Ident); ok && id.Name == "make" && len(x.Args) == 2 {
				if l, ok := x.Args[1].(*ast.CallExpr); ok {
					if lid, ok := l.Fun.(*ast.Ident); ok && lid.Name == "len" && len(l.Args) == 1 && holdsPath(l.Args[0]) {
						return -1, ""
					}
				}
			}
			return 0, "Types value is a call that is not make([]int, len(f.Path()))"
		default:
			return 0, "Types value has an unrecognised form"
		}
	}
	return 0, "Schema method of " + typeName + " not found"
}
