package main

func corpusCmd(args []string) int { return 0 }
