package main

import (
	"encoding/json"
	"fmt"
	"os"
	"path/filepath"
)

// corpusCmd: development aid. `verif corpus export <dir> [deco]` materialises every shape of the thorough corpus
// (source, generated program, and the dynamic round-trip harness from tools/dyn) together with the static verdicts,
// so that the TV rules and the known-findings list can be validated against executions (DESIGN.md §6). Decides nothing.
func corpusCmd(args []string) int {
	if len(args) < 2 || args[0] != "export" {
		fmt.Fprintln(os.Stderr, "usage: verif corpus export <dir> [deco]")
		return 2
	}
	out := args[1]
	deco := len(args) > 2 && args[2] == "deco"
	u, err := newScratch(true)
	if err != nil {
		fmt.Fprintln(os.Stderr, err)
		return 2
	}
	defer u.Close()
	cp, err := newCorpus(u)
	if err != nil {
		fmt.Fprintln(os.Stderr, err)
		return 2
	}
	items, _, _ := corpusItems("thorough", 0)
	if deco {
		_, _, items, _, _ = c14Items(cp, "thorough", 0)
	}
	res := cp.runAll(items, false)
	tmpl, err := os.ReadFile(filepath.Join(u.Verif, "tools", "dyn", "rt_test.go.tmpl"))
	if err != nil {
		fmt.Fprintln(os.Stderr, err)
		return 2
	}
	os.MkdirAll(out, 0o755)
	os.WriteFile(filepath.Join(out, "go.mod"), []byte("module shapes\n\ngo 1.20\n\nrequire github.com/parsyl/parquet v0.0.0\n\nreplace github.com/parsyl/parquet => "+u.Repo+"\n"), 0o644)
	sum, _ := os.ReadFile(filepath.Join(u.Repo, "go.sum"))
	os.WriteFile(filepath.Join(out, "go.sum"), sum, 0o644)
	f, _ := os.Create(filepath.Join(out, "static.jsonl"))
	defer f.Close()
	enc := json.NewEncoder(f)
	for i, r := range res {
		id := fmt.Sprintf("s%05d", i)
		var viol []string
		for _, v := range r.viol {
			viol = append(viol, v.rule+" col "+v.col+": "+v.msg)
		}
		enc.Encode(map[string]interface{}{"id": id, "shape": r.item.key, "status": r.status, "err_funcs": r.errFuncs, "viol": viol})
		if r.status == "GENFAIL" || r.status == "PARSEFAIL" {
			continue
		}
		d := filepath.Join(out, id)
		os.MkdirAll(d, 0o755)
		os.WriteFile(filepath.Join(d, "s.go"), []byte(r.item.src), 0o644)
		os.WriteFile(filepath.Join(d, "parquet.go"), r.text, 0o644)
		os.WriteFile(filepath.Join(d, "rt_test.go"), tmpl, 0o644)
	}
	fmt.Printf("exported %d shapes to %s\n", len(res), out)
	return 0
}
