package main

// tdNext: Next is true exactly Rows() times on an error-free read and loads the next row group exactly when the
// current one is used up. Decided by enumerating the paths of Next with its helper methods inlined (they are small and
// loop-free), keeping difference bounds on (position − limit) for the file and for the row group.

import (
	"fmt"
	"go/constant"
	"go/token"
	"go/types"
	"strings"

	"golang.org/x/tools/go/ssa"
)

const tdInf = 1 << 30

type nvKind int

const (
	nvOpaque nvKind = iota
	nvSelf
	nvField  // load of a field of the reader: fld, inc = increments applied before the load
	nvConst  // integer / bool constant
	nvCmp    // a op b
	nvErrNil // (err == nil) is `eq`; src: "entry" | "rrg"
	nvRRG    // the error returned by readRowGroup in this call
	nvErrFld // the reader's error field; src says what it holds
	nvAdd1   // a + 1
	nvNot    // !a
	nvFAddr  // address of a field of the reader
	nvNilConst
)

type nval struct {
	kind nvKind
	fld  *types.Var
	inc  int
	k    int64
	b    bool
	isB  bool
	op   token.Token
	x, y *nval
	src  string
	eq   bool
}

type nframe struct {
	fn     *ssa.Function
	env    map[ssa.Value]*nval
	parent *nframe
}

type nstate struct {
	ub, lb    map[string]int
	inc       map[*types.Var]int
	clobbered map[*types.Var]bool
	errSrc    string // what the error field holds: "entry" or "rrg"
	loaded    bool
	loadOK    bool
	errPath   bool
	entryErr  bool
}

func (s *nstate) clone() *nstate {
	n := &nstate{ub: map[string]int{}, lb: map[string]int{}, inc: map[*types.Var]int{}, clobbered: map[*types.Var]bool{}, errSrc: s.errSrc, loaded: s.loaded, loadOK: s.loadOK, errPath: s.errPath, entryErr: s.entryErr}
	for k, v := range s.ub {
		n.ub[k] = v
	}
	for k, v := range s.lb {
		n.lb[k] = v
	}
	for k, v := range s.inc {
		n.inc[k] = v
	}
	for k, v := range s.clobbered {
		n.clobbered[k] = v
	}
	return n
}

func (f *nframe) clone(memo map[*nframe]*nframe) *nframe {
	if f == nil {
		return nil
	}
	if c, ok := memo[f]; ok {
		return c
	}
	c := &nframe{fn: f.fn, env: map[ssa.Value]*nval{}}
	memo[f] = c
	for k, v := range f.env {
		c.env[k] = v
	}
	c.parent = f.parent.clone(memo)
	return c
}

type nextWalker struct {
	u      *Universe
	path   string
	roles  *readerRoles
	rrg    *ssa.Function
	bad    []string
	nTrue  int
	nFalse int
	steps  int
}

func (w *nextWalker) addBad(s string) {
	for _, b := range w.bad {
		if b == s {
			return
		}
	}
	w.bad = append(w.bad, s)
}

func (w *nextWalker) val(fr *nframe, v ssa.Value) *nval {
	if nv, ok := fr.env[v]; ok {
		return nv
	}
	switch x := v.(type) {
	case *ssa.Const:
		if x.Value == nil {
			return &nval{kind: nvNilConst}
		}
		switch x.Value.Kind() {
		case constant.Bool:
			return &nval{kind: nvConst, b: constant.BoolVal(x.Value), isB: true}
		case constant.Int:
			k, _ := constant.Int64Val(x.Value)
			return &nval{kind: nvConst, k: k}
		}
	}
	return &nval{kind: nvOpaque}
}

// applyCmp records what the comparison's outcome says about (position − limit).
func (w *nextWalker) applyCmp(c *nval, truth bool, st *nstate) {
	if c.kind != nvCmp || c.x == nil || c.y == nil || c.x.kind != nvField || c.y.kind != nvField {
		return
	}
	pair, sign, k := "", 0, 0
	switch {
	case c.x.fld == w.roles.cursor && c.y.fld == w.roles.rows:
		pair, sign, k = "file", 1, c.x.inc
	case c.x.fld == w.roles.rows && c.y.fld == w.roles.cursor:
		pair, sign, k = "file", -1, c.y.inc
	case c.x.fld == w.roles.gcursor && c.y.fld == w.roles.gcount:
		pair, sign, k = "group", 1, c.x.inc
	case c.x.fld == w.roles.gcount && c.y.fld == w.roles.gcursor:
		pair, sign, k = "group", -1, c.y.inc
	}
	if pair == "" {
		return
	}
	op := c.op
	if !truth {
		op = map[token.Token]token.Token{token.LSS: token.GEQ, token.LEQ: token.GTR, token.GTR: token.LEQ, token.GEQ: token.LSS, token.EQL: token.NEQ, token.NEQ: token.EQL}[op]
	}
	lo, hi := -tdInf, tdInf // lo <= X - Y <= hi
	switch op {
	case token.LSS:
		hi = -1
	case token.LEQ:
		hi = 0
	case token.GTR:
		lo = 1
	case token.GEQ:
		lo = 0
	case token.EQL:
		lo, hi = 0, 0
	}
	if sign == -1 {
		lo, hi = -hi, -lo
	}
	// lo <= pos0 + k - limit0 <= hi
	if hi < tdInf && hi-k < st.ub[pair] {
		st.ub[pair] = hi - k
	}
	if lo > -tdInf && lo-k > st.lb[pair] {
		st.lb[pair] = lo - k
	}
}

// branch: the truth values of a condition that are possible, with the state updated for each.
func (w *nextWalker) branch(c *nval, st *nstate) map[bool]*nstate {
	out := map[bool]*nstate{}
	switch c.kind {
	case nvConst:
		if c.isB {
			out[c.b] = st
			return out
		}
	case nvNot:
		for t, s2 := range w.branch(c.x, st) {
			out[!t] = s2
		}
		return out
	case nvCmp:
		for _, t := range []bool{true, false} {
			s2 := st.clone()
			w.applyCmp(c, t, s2)
			out[t] = s2
		}
		return out
	case nvErrNil:
		for _, t := range []bool{true, false} {
			s2 := st.clone()
			isNil := t == c.eq
			switch c.src {
			case "rrg":
				if isNil {
					s2.loadOK = true
				} else {
					s2.errPath = true
				}
			case "entry":
				if !isNil {
					s2.errPath, s2.entryErr = true, true
				}
			}
			out[t] = s2
		}
		return out
	}
	out[true], out[false] = st.clone(), st.clone()
	return out
}

func (w *nextWalker) finish(res *nval, st *nstate) {
	// a computed result: both outcomes, each with what it implies
	if !(res.kind == nvConst && res.isB) {
		for t, s2 := range w.branch(res, st) {
			w.finish(&nval{kind: nvConst, b: t, isB: true}, s2)
		}
		return
	}
	r := w.roles
	if res.b {
		w.nTrue++
		if st.entryErr || (st.errPath && !st.loadOK) {
			return
		}
		if st.clobbered[r.cursor] || st.inc[r.cursor] != 1 {
			w.addBad(fmt.Sprintf("a true result advances the row position %d times (want exactly once): Next is then true a different number of times than Rows()", st.inc[r.cursor]))
		}
		if st.ub["file"] > -1 {
			w.addBad("Next can return true without the position having been found < Rows(): it is true more than Rows() times (the extra Scan reads past the last record)")
		}
		if !(st.loaded && st.loadOK) {
			if st.ub["group"] > -1 {
				w.addBad("Next can return true with the current row group used up and no new one loaded: Scan then reads a record that is not there")
			}
			if st.clobbered[r.gcursor] || st.inc[r.gcursor] != 1 {
				w.addBad("a true result does not advance the position within the row group exactly once")
			}
		} else {
			if st.inc[r.gcursor] != 1 {
				w.addBad("after loading a row group the position within it is not advanced for the record returned")
			}
			if st.lb["group"] < 0 {
				w.addBad("a new row group can be loaded while the current one still has records: they are never delivered")
			}
		}
		return
	}
	w.nFalse++
	if st.errPath || st.entryErr {
		return
	}
	if st.lb["file"] < 0 {
		w.addBad("Next can return false on an error-free read while the position is still < Rows(): the last records are never delivered")
	}
}

func (w *nextWalker) inlinable(fr *nframe, call *ssa.Call) *ssa.Function {
	sc := call.Call.StaticCallee()
	if sc == nil || sc == w.rrg || sc.Blocks == nil || w.u.pkgPathOf(sc) != w.path || len(call.Call.Args) == 0 {
		return nil
	}
	if w.val(fr, call.Call.Args[0]).kind != nvSelf {
		return nil
	}
	// loop-free only
	for _, b := range sc.Blocks {
		if inCycleBlock(b) {
			return nil
		}
	}
	for f := fr; f != nil; f = f.parent {
		if f.fn == sc {
			return nil
		}
	}
	return sc
}

func (w *nextWalker) run(fr *nframe, b, from *ssa.BasicBlock, idx int, st *nstate, kret func(res []*nval, fr *nframe, st *nstate)) {
	w.steps++
	if w.steps > 20000 {
		w.addBad("Next has too many paths to enumerate")
		return
	}
	r := w.roles
	for i := idx; i < len(b.Instrs); i++ {
		switch x := b.Instrs[i].(type) {
		case *ssa.Phi:
			for pi, p := range b.Preds {
				if p == from {
					fr.env[x] = w.val(fr, x.Edges[pi])
				}
			}
		case *ssa.FieldAddr:
			if w.val(fr, x.X).kind == nvSelf {
				if _, nested := fieldOf(x).Type().Underlying().(*types.Struct); nested {
					// a struct embedded by value in the reader (its counters grouped in a `pos` struct): still the reader
					fr.env[x] = &nval{kind: nvSelf}
				} else {
					fr.env[x] = &nval{kind: nvFAddr, fld: fieldOf(x)}
				}
			}
		case *ssa.UnOp:
			switch x.Op {
			case token.MUL:
				if a := w.val(fr, x.X); a.kind == nvFAddr {
					if a.fld == r.err {
						fr.env[x] = &nval{kind: nvErrFld, src: st.errSrc}
					} else {
						fr.env[x] = &nval{kind: nvField, fld: a.fld, inc: st.inc[a.fld]}
					}
				}
			case token.NOT:
				fr.env[x] = &nval{kind: nvNot, x: w.val(fr, x.X)}
			}
		case *ssa.Convert:
			fr.env[x] = w.val(fr, x.X)
		case *ssa.ChangeType:
			fr.env[x] = w.val(fr, x.X)
		case *ssa.BinOp:
			a, c := w.val(fr, x.X), w.val(fr, x.Y)
			switch x.Op {
			case token.ADD:
				if a.kind == nvField && c.kind == nvConst && !c.isB && c.k == 1 {
					fr.env[x] = &nval{kind: nvAdd1, x: a}
				} else if c.kind == nvField && a.kind == nvConst && !a.isB && a.k == 1 {
					fr.env[x] = &nval{kind: nvAdd1, x: c}
				}
			case token.EQL, token.NEQ:
				// error tests
				var subj *nval
				if c.kind == nvNilConst {
					subj = a
				} else if a.kind == nvNilConst {
					subj = c
				}
				if subj != nil && (subj.kind == nvRRG || subj.kind == nvErrFld) {
					src := "rrg"
					if subj.kind == nvErrFld {
						src = subj.src
					}
					fr.env[x] = &nval{kind: nvErrNil, eq: x.Op == token.EQL, src: src}
					continue
				}
				fr.env[x] = &nval{kind: nvCmp, op: x.Op, x: a, y: c}
			case token.LSS, token.LEQ, token.GTR, token.GEQ:
				fr.env[x] = &nval{kind: nvCmp, op: x.Op, x: a, y: c}
			}
		case *ssa.Store:
			a := w.val(fr, x.Addr)
			if a.kind != nvFAddr {
				continue
			}
			v := w.val(fr, x.Val)
			switch a.fld {
			case r.cursor, r.gcursor:
				if v.kind == nvAdd1 && v.x.fld == a.fld && v.x.inc == st.inc[a.fld] {
					st.inc[a.fld]++
				} else {
					st.clobbered[a.fld] = true
				}
			case r.err:
				if v.kind == nvRRG {
					st.errSrc = "rrg"
				} else if v.kind != nvErrFld {
					st.errSrc = "other"
				}
			}
		case *ssa.Call:
			if x.Call.StaticCallee() == w.rrg && len(x.Call.Args) > 0 && w.val(fr, x.Call.Args[0]).kind == nvSelf {
				st.loaded, st.loadOK = true, false
				// what the tests said about the group before the load stays on record in lb (for the "loaded too early" check);
				// the upper bound no longer constrains the new group
				st.ub["group"] = tdInf
				fr.env[x] = &nval{kind: nvRRG}
				continue
			}
			if callee := w.inlinable(fr, x); callee != nil {
				nf := &nframe{fn: callee, env: map[ssa.Value]*nval{}, parent: fr}
				for pi, p := range callee.Params {
					if pi < len(x.Call.Args) {
						nf.env[p] = w.val(fr, x.Call.Args[pi])
					}
				}
				call, blk, next := x, b, i+1
				w.run(nf, callee.Blocks[0], nil, 0, st, func(res []*nval, _ *nframe, st2 *nstate) {
					// continue in a private copy of the caller's frame: other paths through the callee continue separately
					cf := fr.clone(map[*nframe]*nframe{})
					if len(res) == 1 {
						cf.env[call] = res[0]
					}
					w.run(cf, blk, from, next, st2, kret)
				})
				return
			}
		case *ssa.If:
			for t, s2 := range w.branch(w.val(fr, x.Cond), st) {
				succ := b.Succs[0]
				if !t {
					succ = b.Succs[1]
				}
				w.run(fr.clone(map[*nframe]*nframe{}), succ, b, 0, s2, kret)
			}
			return
		case *ssa.Jump:
			w.run(fr, b.Succs[0], b, 0, st, kret)
			return
		case *ssa.Return:
			var res []*nval
			for _, rv := range x.Results {
				res = append(res, w.val(fr, rv))
			}
			kret(res, fr, st)
			return
		case *ssa.Panic:
			return
		}
	}
}

func tdNext(c *Ctx, rule, path, short string) {
	r, u := c.R, c.U
	key := short + ".(*ParquetReader).Next"
	roles, why := readerFields(u, path)
	if roles == nil {
		r.undecided(rule, key, "", why)
		return
	}
	fn := u.Func(path, "ParquetReader.Next")
	pos := u.Pos(fn.Pos())
	w := &nextWalker{u: u, path: path, roles: roles, rrg: roleFunc(u, path, "readRowGroup")}
	for _, b := range fn.Blocks {
		if inCycleBlock(b) {
			r.undecided(rule, key, pos, "Next contains a loop")
			return
		}
	}
	root := &nframe{fn: fn, env: map[ssa.Value]*nval{}}
	root.env[fn.Params[0]] = &nval{kind: nvSelf}
	st := &nstate{ub: map[string]int{"file": tdInf, "group": tdInf}, lb: map[string]int{"file": -tdInf, "group": -tdInf}, inc: map[*types.Var]int{}, clobbered: map[*types.Var]bool{}, errSrc: "entry"}
	w.run(root, fn.Blocks[0], nil, 0, st, func(res []*nval, _ *nframe, st2 *nstate) {
		if len(res) != 1 {
			w.addBad("Next does not return one bool")
			return
		}
		w.finish(res[0], st2)
	})
	if w.nTrue == 0 {
		w.addBad("Next never returns true")
	}
	if len(w.bad) > 0 {
		r.bad(rule, key, pos, strings.Join(w.bad, "; "))
	} else {
		r.ok(rule, key, pos, fmt.Sprintf("true only with %s < %s (Rows()), advancing it once; a new row group is loaded exactly when %s has reached %s; false without error only at the end (%d paths, helpers inlined)", roles.cursor.Name(), roles.rows.Name(), roles.gcursor.Name(), roles.gcount.Name(), w.nTrue+w.nFalse))
	}
}
