package main

// LA-footer children (C02, C15): the footer's schema is the depth-first listing of a tree whose group elements carry
// their number of DIRECT children. In the function that builds it from the columns' paths (the loop over the group
// elements of one column's path):
//
//   (a) the root's child counter is advanced for a new group only when the group is the first element of the path (a
//       test of the loop index against 0, or of the enclosing-group pointer against nil) — otherwise every nested group
//       is also counted as a child of the root;
//   (b) a group's own counter is advanced under a first-time test (a map miss) — advancing it once per column that lies
//       somewhere beneath the group counts grandchildren as children.
//
// Either slip leaves files with groups nested two deep with a schema list that is not the listing of any tree.

import (
	"fmt"
	"go/token"
	"go/types"

	"golang.org/x/tools/go/ssa"
)

func laSchemaChildren(c *Ctx, rule string) {
	r, u := c.R, c.U
	nc := schemaField(u, "SchemaElement", "NumChildren")
	if nc == nil {
		r.failf("%s: SchemaElement.NumChildren not found", rule)
		return
	}
	n := 0
	for _, f := range u.Funcs {
		if u.pkgPathOf(f) != rtPath || f.Synthetic != "" {
			continue
		}
		for _, l := range countedLoops(f) {
			seq := l.seq
			if sl, ok := seq.(*ssa.Slice); ok && (sl.Low == nil || constIs(sl.Low, 0)) {
				seq = sl.X
			}
			if pf := fieldOfLoad(seq); pf == nil || pf.Name() != "Path" {
				continue
			}
			header := l.iff.Block()
			entry := header.Succs[0]
			// the loop body: reachable from its entry without passing the header
			body := map[*ssa.BasicBlock]bool{}
			var fill func(b *ssa.BasicBlock)
			fill = func(b *ssa.BasicBlock) {
				if b == header || body[b] {
					return
				}
				body[b] = true
				for _, s := range b.Succs {
					fill(s)
				}
			}
			fill(entry)
			// conditional: the next iteration can be reached without executing blk
			conditional := func(blk *ssa.BasicBlock) bool {
				seen := map[*ssa.BasicBlock]bool{blk: true}
				var visit func(b *ssa.BasicBlock) bool
				visit = func(b *ssa.BasicBlock) bool {
					if b == header {
						return true
					}
					if seen[b] || !body[b] {
						return false
					}
					seen[b] = true
					for _, s := range b.Succs {
						if visit(s) {
							return true
						}
					}
					return false
				}
				return blk != entry && visit(entry)
			}
			// the tests of the body that lie before blk
			condsBefore := func(blk *ssa.BasicBlock) []ssa.Value {
				var out []ssa.Value
				for b := range body {
					iff, ok := lastInstr(b).(*ssa.If)
					if !ok || b == blk {
						continue
					}
					reaches := false
					seen := map[*ssa.BasicBlock]bool{}
					var visit func(x *ssa.BasicBlock)
					visit = func(x *ssa.BasicBlock) {
						if x == header || seen[x] || !body[x] {
							return
						}
						seen[x] = true
						if x == blk {
							reaches = true
							return
						}
						for _, s := range x.Succs {
							visit(s)
						}
					}
					for _, s := range b.Succs {
						visit(s)
					}
					if reaches {
						out = append(out, iff.Cond)
					}
				}
				return out
			}
			isFirstElem := func(cond ssa.Value) bool {
				bo, ok := cond.(*ssa.BinOp)
				if !ok || (bo.Op != token.EQL && bo.Op != token.NEQ) {
					return false
				}
				if (bo.X == l.idx || stripConvert(bo.X) == l.idx) && constIs(bo.Y, 0) {
					return true
				}
				// enclosing-group pointer == nil (a loop-carried pointer, not a map lookup)
				if isNilConst(bo.Y) {
					if _, isPhi := bo.X.(*ssa.Phi); isPhi {
						return true
					}
					if ld, ok := bo.X.(*ssa.UnOp); ok && ld.Op == token.MUL {
						if _, isAl := ld.X.(*ssa.Alloc); isAl {
							return true
						}
					}
				}
				return false
			}
			var isMiss func(v ssa.Value, d int) bool
			isMiss = func(v ssa.Value, d int) bool {
				if d > 4 {
					return false
				}
				switch x := v.(type) {
				case *ssa.Extract:
					if lk, ok := x.Tuple.(*ssa.Lookup); ok && lk.CommaOk {
						return true
					}
				case *ssa.Lookup:
					return true
				case *ssa.BinOp:
					return isMiss(x.X, d+1) || isMiss(x.Y, d+1)
				case *ssa.UnOp:
					return isMiss(x.X, d+1)
				case *ssa.Phi:
					for _, e := range x.Edges {
						if isMiss(e, d+1) {
							return true
						}
					}
				}
				return false
			}
			// (c) what identifies a group: the map the groups are filed in is not keyed by the bare path element (groups of
			// the same name can live in different groups: `a.meta` and `b.meta`)
			for _, b := range f.Blocks {
				if !body[b] {
					continue
				}
				for _, ins := range b.Instrs {
					lk, ok := ins.(*ssa.Lookup)
					if !ok {
						continue
					}
					if _, isMap := lk.X.Type().Underlying().(*types.Map); !isMap {
						continue
					}
					n++
					key := u.FnName(f) + " group identity"
					bare := false
					switch k := lk.Index.(type) {
					case *ssa.UnOp:
						// load of &Path[i]
						if ia, ok := k.X.(*ssa.IndexAddr); ok && k.Op == token.MUL {
							if pf := fieldOfLoad(ia.X); pf != nil && pf.Name() == "Path" {
								bare = true
							}
							if sl, ok := ia.X.(*ssa.Slice); ok {
								if pf := fieldOfLoad(sl.X); pf != nil && pf.Name() == "Path" {
									bare = true
								}
							}
						}
					case *ssa.Extract:
						if _, ok := k.Tuple.(*ssa.Next); ok {
							bare = true
						}
					}
					// a key put together from single elements of the path (this one, its parent) identifies a group no
					// better: what identifies it is the whole prefix — a slice of the path from its start, or a
					// string carried and extended from element to element
					if !bare {
						wholePrefix, elems := false, 0
						seenV := map[ssa.Value]bool{}
						var look func(v ssa.Value, d int)
						look = func(v ssa.Value, d int) {
							if v == nil || seenV[v] || d > 8 {
								return
							}
							seenV[v] = true
							switch x := v.(type) {
							case *ssa.Slice:
								if pf := fieldOfLoad(x.X); pf != nil && pf.Name() == "Path" && (x.Low == nil || constIs(x.Low, 0)) {
									wholePrefix = true
								}
							case *ssa.Phi:
								// carried from iteration to iteration: built up along the path
								for _, e := range x.Edges {
									if bo, ok := e.(*ssa.BinOp); ok && bo.Op == token.ADD && (bo.X == ssa.Value(x) || bo.Y == ssa.Value(x)) {
										wholePrefix = true
									}
									look(e, d+1)
								}
							case *ssa.BinOp:
								look(x.X, d+1)
								look(x.Y, d+1)
							case *ssa.Call:
								for _, a := range x.Call.Args {
									look(a, d+1)
								}
							case *ssa.UnOp:
								if ia, ok := x.X.(*ssa.IndexAddr); ok && x.Op == token.MUL {
									base := ia.X
									if sl, ok := base.(*ssa.Slice); ok {
										base = sl.X
									}
									if pf := fieldOfLoad(base); pf != nil && pf.Name() == "Path" {
										elems++
									}
								}
							case *ssa.Extract:
								if _, ok := x.Tuple.(*ssa.Next); ok {
									elems++
								}
							}
						}
						look(lk.Index, 0)
						if !wholePrefix && elems > 0 {
							bare = true
						}
					}
					if bare {
						r.bad(rule, key, u.Pos(lk.Pos()), "the groups already emitted are looked up by single elements of the path (the element's bare name, or its name and its parent's), not by the whole path to the group: a group with the same name as one elsewhere in the struct is taken for that one — its element is missing from the schema list and its columns are counted under the other group")
					} else {
						r.ok(rule, key, u.Pos(lk.Pos()), "groups are looked up by "+symExpr(lk.Index, 0))
					}
				}
			}
			// (a) the root counter: a local whose address ends up in a NumChildren field
			for _, b := range f.Blocks {
				for _, ins := range b.Instrs {
					st, ok := ins.(*ssa.Store)
					if !ok || fieldOf(st.Addr) != nc {
						continue
					}
					cnt, ok := st.Val.(*ssa.Alloc)
					if !ok || body[b] {
						continue
					}
					for _, ref := range *cnt.Referrers() {
						inc, ok := ref.(*ssa.Store)
						if !ok || inc.Addr != ssa.Value(cnt) || !body[inc.Block()] {
							continue
						}
						if bo, ok := inc.Val.(*ssa.BinOp); !ok || bo.Op != token.ADD {
							continue
						}
						n++
						key := u.FnName(f) + " root child count"
						okA := false
						for _, cnd := range condsBefore(inc.Block()) {
							if isFirstElem(cnd) {
								okA = true
							}
						}
						if okA && conditional(inc.Block()) {
							r.ok(rule, key, u.Pos(inc.Pos()), "a new group counts as a child of the root only as the first element of a path")
						} else {
							r.bad(rule, key, u.Pos(inc.Pos()), "inside the loop over a column's groups the root's child count is advanced for every new group, whatever its depth: a group nested in another group is listed as a child of the root as well, and the schema list is not the depth-first listing of a tree (a spec parser runs off its end)")
						}
					}
				}
			}
			// (b) a group's own counter
			gk := 0
			for _, b := range f.Blocks {
				if !body[b] {
					continue
				}
				for _, ins := range b.Instrs {
					st, ok := ins.(*ssa.Store)
					if !ok {
						continue
					}
					incr := false
					if fieldOf(st.Addr) == nc {
						// NumChildren = &n with n = old + 1
						if al, ok := st.Val.(*ssa.Alloc); ok {
							for _, ref := range *al.Referrers() {
								if s2, ok := ref.(*ssa.Store); ok && s2.Addr == ssa.Value(al) {
									if bo, ok := s2.Val.(*ssa.BinOp); ok && bo.Op == token.ADD {
										incr = true
									}
								}
							}
						}
					} else if ld, ok := st.Addr.(*ssa.UnOp); ok && ld.Op == token.MUL && fieldOf(ld.X) == nc {
						// *x.NumChildren = old + 1
						if bo, ok := st.Val.(*ssa.BinOp); ok && bo.Op == token.ADD {
							incr = true
						}
					}
					if !incr {
						continue
					}
					n++
					gk++
					key := fmt.Sprintf("%s group child count #%d", u.FnName(f), gk)
					okB := false
					for _, cnd := range condsBefore(b) {
						if isMiss(cnd, 0) {
							okB = true
						}
					}
					if okB && conditional(b) {
						r.ok(rule, key, u.Pos(st.Pos()), "a group's child count is advanced under a first-time test of the child")
					} else {
						r.bad(rule, key, u.Pos(st.Pos()), "a group's child count is advanced on every pass of the loop over a column's groups, i.e. once per column anywhere beneath the group: with groups nested two deep the outer group's num_children counts its grandchildren and the schema list is not the depth-first listing of a tree")
					}
				}
			}
		}
	}
	r.count(rule+"/child-counts", n)
	r.floor(rule+"/child-counts", 1, "schema.schema()")
	_ = types.Typ
}
