package main

// FG walker with inlining: the path exploration of a page-header consumer follows calls into helper functions of the
// runtime (validation helpers given the header or a part of it, methods on the same receiver, the helper that acquires
// the header) instead of summarising them, so that the verdict does not depend on how the consumer is cut into
// functions. A path starts at the read of a page header and ends at the next header read or at a successful return of
// the consumer.

import (
	"fmt"
	"go/token"
	"go/types"
	"strings"

	"golang.org/x/tools/go/ssa"
)

type fgFrame struct {
	fn     *ssa.Function
	parent *fgFrame
	site   *ssa.Call
	depth  int
}

func (f *fgFrame) key() string {
	var p []string
	for x := f; x != nil; x = x.parent {
		if x.site != nil {
			p = append(p, fmt.Sprint(x.site.Pos()))
		}
	}
	return strings.Join(p, ">")
}

type fgWalker struct {
	g       *fgCtx
	hdrFn   *ssa.Function
	root    *ssa.Function
	viol    []fgFinding
	seenV   map[string]bool
	visited map[string]bool
	iters   int
	steps   int
	reachH  map[*ssa.Function]bool
}

func (w *fgWalker) add(key, pos, why string) {
	if !w.seenV[key] {
		w.seenV[key] = true
		w.viol = append(w.viol, fgFinding{key, pos, why})
	}
}

func (w *fgWalker) requireAll(st *fgState, where, pos string) {
	need := []string{"page-type", "data-header-present", "value-encoding"}
	if st.defsRead {
		need = append(need, "def-level-encoding")
	}
	if st.repsRead {
		need = append(need, "rep-level-encoding")
	}
	// the converse: a level encoding is only a reason to refuse a page when the column decodes such levels — writers
	// declare BIT_PACKED for the (empty) level streams of columns without them
	for n, read := range map[string]bool{"def-level-encoding": st.defsRead, "rep-level-encoding": st.repsRead} {
		if st.est[n] && !read {
			s := w.g.sel(n)
			w.add("over:"+n, pos, fmt.Sprintf("%s.%s is compared with %s on a path that consumes the page (%s at %s) without decoding such levels: a conformant file whose writer declares another encoding for the empty level stream of this column is refused", s.owner, s.field, s.konst, where, pos))
		}
	}
	for _, n := range need {
		if !st.est[n] {
			s := w.g.sel(n)
			want := s.konst
			if want == "" {
				want = "non-nil"
			}
			w.add(n, pos, fmt.Sprintf("a page can be consumed (%s at %s) without %s.%s having been compared with %s on that path: a file using an unsupported %s is decoded as if it were PLAIN v1 data instead of being refused", where, pos, s.owner, s.field, want, n))
		}
	}
}

// reachesHeaderRead: fn (transitively) calls the function that decodes a page header.
func (w *fgWalker) reachesHeaderRead(fn *ssa.Function) bool {
	if v, ok := w.reachH[fn]; ok {
		return v
	}
	res := callsDirectly(fn, w.hdrFn)
	for g := range w.g.u.reach([]*ssa.Function{fn}) {
		if g == w.hdrFn || callsDirectly(g, w.hdrFn) {
			res = true
		}
	}
	w.reachH[fn] = res
	return res
}

func (w *fgWalker) inline(fr *fgFrame, call *ssa.Call) *ssa.Function {
	u := w.g.u
	sc := call.Call.StaticCallee()
	if sc == nil || sc == w.hdrFn || sc.Blocks == nil || u.pkgPathOf(sc) != rtPath || fr.depth >= 4 {
		return nil
	}
	for x := fr; x != nil; x = x.parent {
		if x.fn == sc {
			return nil
		}
	}
	// the helper acquires the header, is handed the header / its data page header, or is a method on the consumer's receiver
	if w.reachesHeaderRead(sc) {
		return sc
	}
	for _, a := range call.Call.Args {
		ts := a.Type().String()
		if strings.HasSuffix(ts, "schema.PageHeader") || strings.HasSuffix(ts, "schema.DataPageHeader") {
			return sc
		}
	}
	if sc.Signature.Recv() != nil && len(call.Call.Args) > 0 && len(fr.fn.Params) > 0 && call.Call.Args[0] == ssa.Value(fr.fn.Params[0]) && fr.fn.Signature.Recv() != nil {
		return sc
	}
	return nil
}

// boundArg: what a parameter of an inlined frame stands for at the frame's call site (followed outwards).
func (w *fgWalker) boundArg(fr *fgFrame, v ssa.Value) ssa.Value {
	for x := fr; x != nil && x.site != nil; x = x.parent {
		p, ok := v.(*ssa.Parameter)
		if !ok || p.Parent() != x.fn {
			break
		}
		args := callArgs(&x.site.Call)
		idx := -1
		for i, q := range x.fn.Params {
			if q == p {
				idx = i
			}
		}
		if idx < 0 || idx >= len(args) {
			break
		}
		v = args[idx]
	}
	return v
}

// funcValueTarget: the function a func-typed value denotes: a function, a closure, or a method value (bound method
// wrapper -> the method).
func funcValueTarget(v ssa.Value) (fn *ssa.Function, boundRecv ssa.Value) {
	switch x := v.(type) {
	case *ssa.Function:
		return x, nil
	case *ssa.MakeClosure:
		f, _ := x.Fn.(*ssa.Function)
		if f == nil {
			return nil, nil
		}
		if strings.Contains(f.Synthetic, "bound method") && len(x.Bindings) == 1 {
			for _, b := range f.Blocks {
				for _, ins := range b.Instrs {
					if c, ok := ins.(*ssa.Call); ok {
						if sc := c.Call.StaticCallee(); sc != nil {
							return sc, x.Bindings[0]
						}
					}
				}
			}
		}
		return f, nil
	}
	return nil, nil
}

// run walks block b of frame fr from instruction idx. started: a header has been read on this path. retNil: what is known
// about the error values returned by inlined calls (call -> nil / non-nil).
func (w *fgWalker) run(fr *fgFrame, b *ssa.BasicBlock, idx int, st *fgState, started bool, retNil map[ssa.Value]int, kret func(st *fgState, started bool, retNil map[ssa.Value]int, ret *ssa.Return)) {
	u := w.g.u
	w.steps++
	if w.steps > 200000 {
		w.add("page-type", "", "the page loop has too many paths to enumerate")
		return
	}
	if idx == 0 {
		k := fmt.Sprintf("%s|%d|%s|%v", fr.key(), b.Index, st.key(), started)
		for v, n := range retNil {
			k += fmt.Sprintf("|%s=%d", v.Name(), n)
		}
		if w.visited[k] {
			return
		}
		w.visited[k] = true
	}
	for i := idx; i < len(b.Instrs); i++ {
		switch x := b.Instrs[i].(type) {
		case *ssa.FieldAddr:
			if !started {
				continue
			}
			// dereference of the data page header
			if ld, ok := x.X.(*ssa.UnOp); ok && ld.Op == token.MUL && fieldOf(ld.X) == w.g.dph {
				for _, n := range []string{"page-type", "data-header-present"} {
					if !st.est[n] {
						s := w.g.sel(n)
						w.add(n, u.Pos(x.Pos()), fmt.Sprintf("DataPageHeader.%s is used at %s on a path where %s.%s was not checked: a dictionary/index/v2 page (DataPageHeader == nil) makes the reader panic or misread", fieldOf(x).Name(), u.Pos(x.Pos()), s.owner, s.field))
					}
				}
			}
		case *ssa.Call:
			sc := x.Call.StaticCallee()
			if sc == w.hdrFn {
				if started {
					w.iters++
					w.requireAll(st, "next page header read", u.Pos(x.Pos()))
					return
				}
				started = true
				st = &fgState{est: map[string]bool{}, bools: st.bools}
				continue
			}
			if sc == nil && !x.Call.IsInvoke() {
				// a check handed in as a function value (`levels func(*DataPageHeader) error`)
				if tgt, _ := funcValueTarget(w.boundArg(fr, x.Call.Value)); tgt != nil && tgt.Blocks != nil && u.pkgPathOf(tgt) == rtPath && fr.depth < 4 {
					nf := &fgFrame{fn: tgt, parent: fr, site: nil, depth: fr.depth + 1}
					call, blk, next := x, b, i+1
					w.run(nf, tgt.Blocks[0], 0, st, started, retNil, func(st2 *fgState, started2 bool, rn map[ssa.Value]int, ret *ssa.Return) {
						rn2 := map[ssa.Value]int{}
						for k, v := range rn {
							rn2[k] = v
						}
						if ei := errIndex(tgt.Signature); ei >= 0 && ret != nil {
							if _, isT := call.Type().(*types.Tuple); !isT {
								switch {
								case isNilConst(ret.Results[ei]):
									rn2[call] = 1
								case freshError(ret.Results[ei]):
									rn2[call] = 2
								}
							}
						}
						w.run(fr, blk, next, st2.clone(), started2, rn2, kret)
					})
					return
				}
			}
			if sc == nil {
				continue
			}
			if started {
				if flowsToField(x, "Defs", 0) && callsRLE(u, sc) {
					st.defsRead = true
				}
				if flowsToField(x, "Reps", 0) && callsRLE(u, sc) {
					st.repsRead = true
				}
			}
			if callee := w.inline(fr, x); callee != nil {
				nf := &fgFrame{fn: callee, parent: fr, site: x, depth: fr.depth + 1}
				call, blk, next := x, b, i+1
				w.run(nf, callee.Blocks[0], 0, st, started, retNil, func(st2 *fgState, started2 bool, rn map[ssa.Value]int, ret *ssa.Return) {
					rn2 := map[ssa.Value]int{}
					for k, v := range rn {
						rn2[k] = v
					}
					if ei := errIndex(callee.Signature); ei >= 0 && ret != nil {
						var ev ssa.Value = call
						if _, isT := call.Type().(*types.Tuple); isT {
							ev = nil
							for _, ref := range *call.Referrers() {
								if ex, ok := ref.(*ssa.Extract); ok && ex.Index == ei {
									ev = ex
								}
							}
						}
						if ev != nil {
							switch {
							case isNilConst(ret.Results[ei]):
								rn2[ev] = 1
							case freshError(ret.Results[ei]):
								rn2[ev] = 2
							default:
								// an error passed on from a callee: nil or not is decided by what the walk knew about it
								if n, ok := rn[ret.Results[ei]]; ok {
									rn2[ev] = n
								} else {
									delete(rn2, ev)
								}
							}
						}
					}
					w.run(fr, blk, next, st2.clone(), started2, rn2, kret)
				})
				return
			}
		case *ssa.If:
			cond := x.Cond
			if bo, ok := cond.(*ssa.BinOp); ok && (bo.Op == token.NEQ || bo.Op == token.EQL) {
				var ev ssa.Value
				if isNilConst(bo.Y) {
					ev = bo.X
				} else if isNilConst(bo.X) {
					ev = bo.Y
				}
				// a parameter of an inlined helper whose argument is known at the call site (a function value, or nil)
				if ev != nil {
					if bv := w.boundArg(fr, ev); bv != ev {
						known, isNil := false, false
						if isNilConst(bv) {
							known, isNil = true, true
						} else if tgt, _ := funcValueTarget(bv); tgt != nil {
							known = true
						}
						if known {
							if (bo.Op == token.EQL) == isNil {
								w.run(fr, b.Succs[0], 0, st, started, retNil, kret)
							} else {
								w.run(fr, b.Succs[1], 0, st, started, retNil, kret)
							}
							return
						}
					}
				}
				if n, ok := retNil[ev]; ok && ev != nil {
					// the inlined callee's return decided it
					isNil := n == 1
					takeTrue := (bo.Op == token.EQL) == isNil
					if takeTrue {
						w.run(fr, b.Succs[0], 0, st, started, retNil, kret)
					} else {
						w.run(fr, b.Succs[1], 0, st, started, retNil, kret)
					}
					return
				}
				// an error value of unknown nil-ness: each edge learns it (a later `return err` then tells the caller)
				if ev != nil && isErrorType(ev.Type()) {
					for si, truth := range []bool{true, false} {
						rn2 := map[ssa.Value]int{}
						for k, v := range retNil {
							rn2[k] = v
						}
						if (bo.Op == token.EQL) == truth {
							rn2[ev] = 1
						} else {
							rn2[ev] = 2
						}
						w.run(fr, b.Succs[si], 0, st.clone(), started, rn2, kret)
					}
					return
				}
			}
			// correlated boolean field of the receiver
			bcond, neg := cond, false
			if not, ok := bcond.(*ssa.UnOp); ok && not.Op == token.NOT {
				bcond, neg = not.X, true
			}
			if f := fieldOfLoad(bcond); f != nil {
				if bt, ok := f.Type().Underlying().(*types.Basic); ok && bt.Kind() == types.Bool {
					if v, known := st.bools[f]; known {
						if v != neg {
							w.run(fr, b.Succs[0], 0, st, started, retNil, kret)
						} else {
							w.run(fr, b.Succs[1], 0, st, started, retNil, kret)
						}
						return
					}
					t, e := st.clone(), st.clone()
					t.bools[f], e.bools[f] = !neg, neg
					w.run(fr, b.Succs[0], 0, t, started, retNil, kret)
					w.run(fr, b.Succs[1], 0, e, started, retNil, kret)
					return
				}
			}
			for si, truth := range []bool{true, false} {
				ns := st.clone()
				if started {
					if e := w.g.establishes(cond, truth); e != "" {
						ns.est[e] = true
					}
				}
				w.run(fr, b.Succs[si], 0, ns, started, retNil, kret)
			}
			return
		case *ssa.Jump:
			w.run(fr, b.Succs[0], 0, st, started, retNil, kret)
			return
		case *ssa.Return:
			kret(st, started, retNil, x)
			return
		case *ssa.Panic:
			return
		}
	}
}

// exploreInlined: explore the consumer from the call through which it obtains a page header.
func (g *fgCtx) exploreInlined(hdrFn, fn *ssa.Function, acq *ssa.Call) (viol []fgFinding, iterations int) {
	w := &fgWalker{g: g, hdrFn: hdrFn, root: fn, seenV: map[string]bool{}, visited: map[string]bool{}, reachH: map[*ssa.Function]bool{}}
	b := acq.Block()
	idx := 0
	for i, ins := range b.Instrs {
		if ins == ssa.Instruction(acq) {
			idx = i
		}
	}
	root := &fgFrame{fn: fn}
	w.run(root, b, idx, &fgState{est: map[string]bool{}, bools: map[*types.Var]bool{}}, false, map[ssa.Value]int{}, func(st *fgState, started bool, rn map[ssa.Value]int, ret *ssa.Return) {
		if !started || ret == nil {
			return
		}
		ri := errIndex(fn.Signature)
		if ri >= 0 && isNilConst(ret.Results[ri]) {
			w.iters++
			w.requireAll(st, "successful return", g.u.Pos(ret.Pos()))
		}
	})
	return w.viol, w.iters
}
