package main

// Resource operations (DESIGN.md §4 EP "instances", §3.3): which call sites can
// touch a tagged resource — primitive (opaque callee / interface method with a
// tagged argument) or derived (universe callee that transitively contains one),
// with one level of context for function-valued parameters.

import (
	"fmt"
	"go/types"
	"sort"
	"strings"

	"golang.org/x/tools/go/ssa"
)

type SiteKind int

const (
	NotOp SiteKind = iota
	Primitive
	Derived
	ParamDyn // dynamic call through a function-typed parameter of the enclosing function
)

type OpSite struct {
	Site   ssa.CallInstruction
	Fn     *ssa.Function
	Kind   SiteKind
	Callee string // display name
	ErrIdx int    // index of the error result, -1 if none
	Ord    int    // ordinal among same-callee sites in Fn
	Note   string
}

type Ops struct {
	u         *Universe
	t         *Taint
	intrinsic map[*ssa.Function]bool         // touches the resource whatever its function-valued arguments are
	paramDep  map[*ssa.Function]map[int]bool // touches the resource iff the function value(s) passed at these params do
	Sites     []*OpSite
	byFn      map[*ssa.Function][]*OpSite
	Beliefs   []string // call sites decided "does not operate" thanks to §3.3
}

func errIndex(sig *types.Signature) int {
	for i := 0; i < sig.Results().Len(); i++ {
		if isErr(sig.Results().At(i).Type()) {
			return i
		}
	}
	return -1
}

// rootParam: does the called value derive from a (possibly variadic) parameter
// of fn? Returns the parameter index or -1.
func rootParam(v ssa.Value, depth int) int {
	if depth > 8 {
		return -1
	}
	switch x := v.(type) {
	case *ssa.Parameter:
		for i, p := range x.Parent().Params {
			if p == x {
				return i
			}
		}
	case *ssa.UnOp:
		return rootParam(x.X, depth+1)
	case *ssa.IndexAddr:
		return rootParam(x.X, depth+1)
	case *ssa.Slice:
		return rootParam(x.X, depth+1)
	case *ssa.ChangeType:
		return rootParam(x.X, depth+1)
	case *ssa.Phi:
		r := -2
		for _, e := range x.Edges {
			p := rootParam(e, depth+1)
			if r == -2 {
				r = p
			} else if r != p {
				return -1
			}
		}
		if r >= 0 {
			return r
		}
	}
	return -1
}

// funcValues resolves the function values an SSA value may denote, syntactically:
// named functions, closures, results of universe functions that return closures,
// variadic slices and append(...). ok=false if some element is unresolved.
// params collects indices of the enclosing function's own parameters it derives from.
func (o *Ops) funcValues(v ssa.Value, depth int, params map[int]bool) (fns []*ssa.Function, ok bool) {
	if depth > 10 {
		return nil, false
	}
	switch x := v.(type) {
	case *ssa.Function:
		return []*ssa.Function{x}, true
	case *ssa.MakeClosure:
		return []*ssa.Function{x.Fn.(*ssa.Function)}, true
	case *ssa.Const:
		if x.IsNil() {
			return nil, true
		}
	case *ssa.Parameter:
		if i := rootParam(x, 0); i >= 0 {
			params[i] = true
			return nil, true
		}
	case *ssa.ChangeType:
		return o.funcValues(x.X, depth+1, params)
	case *ssa.Phi:
		all := true
		for _, e := range x.Edges {
			f, k := o.funcValues(e, depth+1, params)
			fns = append(fns, f...)
			all = all && k
		}
		return fns, all
	case *ssa.Slice:
		// variadic: slice of a fresh array whose elements are stored individually
		if al, isAlloc := x.X.(*ssa.Alloc); isAlloc {
			all := true
			n := 0
			for _, ref := range *al.Referrers() {
				ia, isIA := ref.(*ssa.IndexAddr)
				if !isIA {
					continue
				}
				for _, r2 := range *ia.Referrers() {
					if st, isSt := r2.(*ssa.Store); isSt && st.Addr == ia {
						f, k := o.funcValues(st.Val, depth+1, params)
						fns = append(fns, f...)
						all = all && k
						n++
					}
				}
			}
			return fns, all
		}
		return o.funcValues(x.X, depth+1, params)
	case *ssa.Call:
		if b, isB := x.Call.Value.(*ssa.Builtin); isB && b.Name() == "append" {
			all := true
			for _, a := range x.Call.Args {
				f, k := o.funcValues(a, depth+1, params)
				fns = append(fns, f...)
				all = all && k
			}
			return fns, all
		}
		if sc := x.Call.StaticCallee(); sc != nil && sc.Blocks != nil && o.u.InUniverse(sc) {
			// a function that returns function values (MaxPageSize(n) returns a closure)
			all := true
			for _, b := range sc.Blocks {
				if r, isR := b.Instrs[len(b.Instrs)-1].(*ssa.Return); isR && len(r.Results) == 1 {
					f, k := o.funcValues(r.Results[0], depth+1, map[int]bool{})
					fns = append(fns, f...)
					all = all && k
				}
			}
			return fns, all
		}
	}
	return nil, false
}

func calleeName(u *Universe, c *ssa.CallCommon) string {
	if c.IsInvoke() {
		recv := c.Value.Type().String()
		recv = strings.ReplaceAll(recv, "uni/tc/", "tc/")
		return "(" + recv + ")." + c.Method.Name()
	}
	if sc := c.StaticCallee(); sc != nil {
		return u.FnName(sc)
	}
	if b, ok := c.Value.(*ssa.Builtin); ok {
		return "builtin " + b.Name()
	}
	return "dynamic"
}

// BuildOps computes summaries and classifies every call site of the universe.
func BuildOps(u *Universe, t *Taint) *Ops {
	o := &Ops{u: u, t: t, intrinsic: map[*ssa.Function]bool{}, paramDep: map[*ssa.Function]map[int]bool{}, byFn: map[*ssa.Function][]*OpSite{}}
	// fixpoint over summaries
	for changed := true; changed; {
		changed = false
		for _, f := range u.Funcs {
			for _, b := range f.Blocks {
				for _, ins := range b.Instrs {
					site, ok := ins.(ssa.CallInstruction)
					if !ok {
						continue
					}
					k, deps, _ := o.classify(site)
					if (k == Primitive || k == Derived) && !o.intrinsic[f] {
						o.intrinsic[f] = true
						changed = true
					}
					for p := range deps {
						if o.paramDep[f] == nil {
							o.paramDep[f] = map[int]bool{}
						}
						if !o.paramDep[f][p] {
							o.paramDep[f][p] = true
							changed = true
						}
					}
				}
			}
		}
	}
	// final classification, recorded
	for _, f := range u.Funcs {
		ord := map[string]int{}
		for _, b := range f.Blocks {
			for _, ins := range b.Instrs {
				site, ok := ins.(ssa.CallInstruction)
				if !ok {
					continue
				}
				k, deps, note := o.classify(site)
				name := calleeName(u, site.Common())
				if k == NotOp && len(deps) == 0 {
					if note != "" {
						o.Beliefs = append(o.Beliefs, fmt.Sprintf("%s -> %s at %s: %s", u.FnName(f), name, u.Pos(ins.Pos()), note))
					}
					continue
				}
				if k == NotOp {
					k = ParamDyn
				}
				ord[name]++
				s := &OpSite{Site: site, Fn: f, Kind: k, Callee: name, ErrIdx: errIndex(site.Common().Signature()), Ord: ord[name], Note: note}
				o.Sites = append(o.Sites, s)
				o.byFn[f] = append(o.byFn[f], s)
			}
		}
	}
	sort.Strings(o.Beliefs)
	return o
}

// classify decides whether a call site touches the resource. deps = parameters of the
// enclosing function whose function values decide it (for §3.3 summaries).
func (o *Ops) classify(site ssa.CallInstruction) (SiteKind, map[int]bool, string) {
	c := site.Common()
	if _, ok := c.Value.(*ssa.Builtin); ok {
		return NotOp, nil, ""
	}
	tagged := o.t.AnyArg(site)
	// dynamic call through a function-typed parameter of the enclosing function
	if !c.IsInvoke() && c.StaticCallee() == nil {
		if p := rootParam(c.Value, 0); p >= 0 {
			if !tagged {
				return NotOp, nil, "" // the callee is handed nothing that holds the resource
			}
			return NotOp, map[int]bool{p: true}, ""
		}
	}
	var uniCallees []*ssa.Function
	for _, cal := range o.u.Callees(site) {
		if o.u.InUniverse(cal) && cal.Blocks != nil {
			uniCallees = append(uniCallees, cal)
		}
	}
	if len(uniCallees) == 0 {
		if tagged {
			return Primitive, nil, ""
		}
		return NotOp, nil, ""
	}
	if c.IsInvoke() && tagged && o.t.Has(c.Value) {
		// interface method invoked on the resource itself
		return Primitive, nil, ""
	}
	deps := map[int]bool{}
	note := ""
	args := callArgs(c)
	for _, cal := range uniCallees {
		if o.intrinsic[cal] {
			return Derived, nil, ""
		}
		for p := range o.paramDep[cal] {
			if p >= len(args) {
				return Derived, nil, "argument list shorter than callee parameters"
			}
			mine := map[int]bool{}
			fns, ok := o.funcValues(args[p], 0, mine)
			if !ok {
				return Derived, nil, "function-valued argument not resolvable: may operate"
			}
			for q := range mine {
				deps[q] = true
			}
			var names []string
			for _, fn := range fns {
				names = append(names, o.u.FnName(fn))
				if o.intrinsic[fn] || len(o.paramDep[fn]) > 0 {
					return Derived, nil, "function-valued argument " + o.u.FnName(fn) + " operates on the resource"
				}
			}
			sort.Strings(names)
			note = "callee touches the resource only through its function-valued parameter; arguments here {" + strings.Join(names, ", ") + "} do not"
		}
	}
	return NotOp, deps, note
}
