// Package nd holds controls for the ND rule (sources of nondeterminism / concurrency).
package nd

import (
	"os"
	"time"
)

func BadGo(f func()) { go f() }

func BadChan() int {
	c := make(chan int, 1)
	c <- 1
	return <-c
}

func BadMapRange(m map[string]int) []string {
	var out []string
	for k := range m {
		out = append(out, k)
	}
	return out
}

func BadClock() int64 { return time.Now().Unix() }

func BadEnv() string { return os.Getenv("HOME") }

func GoodLoop(xs []int) int {
	s := 0
	for _, x := range xs {
		s += x
	}
	return s
}
