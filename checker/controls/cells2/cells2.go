// Package cells2 holds controls for the overwritten-shared-cell rule (LA-cells, second clause).
package cells2

type elem struct {
	name string
	kind *int32
	n    *int32
}

// BadOverwritten declares the scratch cell once, assigns it per element and hands its address to every element:
// all elements end up with the last element's kind.
func BadOverwritten(names []string, kinds []int32) []*elem {
	var k int32
	var out []*elem
	for i, n := range names {
		k = kinds[i]
		out = append(out, &elem{name: n, kind: &k})
	}
	return out
}

// GoodPerIteration declares the cell inside the loop: a fresh cell per element.
func GoodPerIteration(names []string, kinds []int32) []*elem {
	var out []*elem
	for i, n := range names {
		k := kinds[i]
		out = append(out, &elem{name: n, kind: &k})
	}
	return out
}

// GoodNeverWritten shares a cell that nothing writes after its address is handed out (a shared zero).
func GoodNeverWritten(names []string) []*elem {
	var z int32
	var out []*elem
	for _, n := range names {
		out = append(out, &elem{name: n, n: &z})
	}
	return out
}

// GoodHandedOutAfterLoop advances a counter in the loop and hands its address to one object afterwards.
func GoodHandedOutAfterLoop(names []string) *elem {
	var total int32
	for range names {
		total++
	}
	return &elem{name: "root", n: &total}
}
