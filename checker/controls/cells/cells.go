// Package cells holds controls for the shared-cell rule (LA-cells).
package cells

type elem struct {
	name string
	n    *int32
}

// BadShared hands one counter cell to every element and then counts through the element.
func BadShared(names []string) []*elem {
	var z int32
	var out []*elem
	for _, n := range names {
		e := &elem{name: n, n: &z}
		out = append(out, e)
		*e.n++
	}
	return out
}

// GoodFresh gives every element its own cell.
func GoodFresh(names []string) []*elem {
	var out []*elem
	for _, n := range names {
		var z int32
		e := &elem{name: n, n: &z}
		out = append(out, e)
		*e.n++
	}
	return out
}
