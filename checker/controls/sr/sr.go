// Package sr holds controls for the SR (short-read) rule.
package sr

import "io"

type counter struct {
	n int64
	r io.Reader
}

// GoodForward is a count-preserving forwarding wrapper.
func (c *counter) Read(p []byte) (int, error) {
	n, err := c.r.Read(p)
	c.n += int64(n)
	return n, err
}

func BadRawRead(r io.Reader, n int) ([]byte, error) {
	buf := make([]byte, n)
	if _, err := r.Read(buf); err != nil {
		return nil, err
	}
	return buf, nil
}

func GoodReadFull(r io.Reader, n int) ([]byte, error) {
	buf := make([]byte, n)
	if _, err := io.ReadFull(r, buf); err != nil {
		return nil, err
	}
	return buf, nil
}

func GoodThroughWrapper(r io.Reader, n int) ([]byte, error) {
	c := &counter{r: r}
	buf := make([]byte, n)
	if _, err := io.ReadFull(c, buf); err != nil {
		return nil, err
	}
	return buf, nil
}
