// Package po holds controls for the PO rules (pooled-buffer ownership).
package po

import (
	"io"

	"github.com/valyala/bytebufferpool"
)

var pool = bytebufferpool.Pool{}

type holder struct{ last []byte }

func BadEscapeField(h *holder, p []byte) {
	b := pool.Get()
	defer pool.Put(b)
	b.Write(p)
	h.last = b.Bytes()
}

func BadReturned(p []byte) []byte {
	b := pool.Get()
	defer pool.Put(b)
	b.Write(p)
	return b.B
}

func BadEarlyPut(w io.Writer, p []byte) error {
	b := pool.Get()
	b.Write(p)
	out := b.Bytes()
	pool.Put(b)
	_, err := w.Write(out)
	return err
}

func BadStale(w io.Writer, n int) error {
	b := pool.Get()
	defer pool.Put(b)
	if cap(b.B) >= n {
		b.B = b.B[:n]
	} else {
		b.B = make([]byte, n)
	}
	_, err := w.Write(b.B)
	return err
}

func GoodDeferred(w io.Writer, p []byte) error {
	b := pool.Get()
	defer pool.Put(b)
	b.Write(p)
	_, err := w.Write(b.Bytes())
	return err
}
