// Package gl holds controls for the GL rule (package-level state).
package gl

import "github.com/valyala/bytebufferpool"

var BadCounter int

var BadCache = map[string]int{}

var BadTable = []int{1, 2, 3}

var GoodTable = []int{1, 2, 3}

var GoodPool = bytebufferpool.Pool{}

func Bump() int { BadCounter++; return BadCounter }

func Remember(k string) { BadCache[k]++ }

func Poke(i int) { BadTable[i] = 0 }

func Look(i int) int { return GoodTable[i] + len(GoodTable) }

func Buf() *bytebufferpool.ByteBuffer { return GoodPool.Get() }
