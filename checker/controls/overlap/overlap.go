// Package overlap holds controls for the overlapping-capacity rule (LA-overlap).
package overlap

type levels struct{ defs, reps []uint8 }

func BadTwoIndex(n int) levels {
	buf := make([]uint8, 2*n)
	return levels{defs: buf[:0], reps: buf[n:n]}
}

func GoodFullSlice(n int) levels {
	buf := make([]uint8, 2*n)
	return levels{defs: buf[:0:n], reps: buf[n:n]}
}
