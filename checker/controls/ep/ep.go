// Package ep holds positive/negative controls for the EP rule: functions whose name starts with Bad must be
// reported, functions whose name starts with Good must be silent. Analysed on every run of a check that uses EP.
package ep

import (
	"fmt"
	"io"
)

func BadDropped(w io.Writer, p []byte) error {
	w.Write(p)
	return nil
}

func BadBlank(w io.Writer, p []byte) error {
	_, _ = w.Write(p)
	return nil
}

func BadNilOnError(w io.Writer, p []byte) error {
	if _, err := w.Write(p); err != nil {
		return nil
	}
	return nil
}

func BadOverwrittenInLoop(w io.Writer, ps [][]byte) error {
	var err error
	for _, p := range ps {
		_, err = w.Write(p)
	}
	return err
}

func BadLoggedOnly(w io.Writer, p []byte) (n int, err error) {
	n, err = w.Write(p)
	if err != nil {
		fmt.Println("write failed")
	}
	return n, nil
}

func GoodReturned(w io.Writer, p []byte) error {
	_, err := w.Write(p)
	return err
}

func GoodChecked(w io.Writer, p, q []byte) error {
	if _, err := w.Write(p); err != nil {
		return err
	}
	_, err := w.Write(q)
	return err
}

func GoodWrapped(w io.Writer, p []byte) error {
	if _, err := w.Write(p); err != nil {
		return fmt.Errorf("writing: %s", err)
	}
	return nil
}

func GoodDeferSpill(w io.Writer, p []byte) error {
	defer fmt.Sprint("x")
	_, err := w.Write(p)
	return err
}
