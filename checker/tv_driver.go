package main

// TV-driver (C05): the template-fixed drivers that the per-column translation validation (TV-asm) relies on —
// the repeated-group index bookkeeping `indices.rep`, the per-column consumption of values and levels in Scan,
// and the reader's column order — validated on the instantiated template code (G_tc), for all inputs.

import (
	"fmt"
	"go/constant"
	"go/token"
	"go/types"
	"strings"

	"golang.org/x/tools/go/ssa"
)

func runTVDriver(c *Ctx, rule string) {
	r, u := c.R, c.U
	for _, path := range u.TC {
		short := strings.TrimPrefix(path, "uni/")
		// (a) indices.rep
		var repFn *ssa.Function
		sp := u.SSAPkgs[path]
		if o := sp.Pkg.Scope().Lookup("indices"); o != nil {
			if named, ok := o.Type().(*types.Named); ok {
				for i := 0; i < named.NumMethods(); i++ {
					if named.Method(i).Name() == "rep" {
						repFn = u.Prog.FuncValue(named.Method(i))
					}
				}
			}
		}
		if repFn == nil || repFn.Blocks == nil {
			r.failf("%s: indices.rep not found in %s", rule, path)
			continue
		}
		r.count(rule+"/index-bookkeeping", 1)
		key := short + ".indices.rep"
		pos := u.Pos(repFn.Pos())
		if why := checkIndicesRep(repFn); why != "" {
			r.bad(rule, key, pos, why)
		} else {
			r.ok(rule, key, pos, "rep > 0: index of level rep advances by one and the indices of ALL deeper levels restart at 0")
		}
		// (b) per-column consumption in Scan
		for _, fi := range fieldImpls(c) {
			if fi.pkg != path || fi.scan == nil {
				continue
			}
			r.count(rule+"/column-scan", 1)
			k := short + "." + fi.name + ".Scan"
			if why := checkColumnScan(fi); why != "" {
				r.bad(rule, k, u.Pos(fi.scan.Pos()), why)
			} else {
				r.ok(rule, k, u.Pos(fi.scan.Pos()), "Scan hands the column's buffers to its assembler and drops exactly the values / levels the assembler reports consumed")
			}
		}
		// (c) the reader scans columns in Fields() order
		scan := u.Func(path, "ParquetReader.Scan")
		ctor := u.Func(path, "NewParquetReader")
		if scan == nil || ctor == nil {
			r.failf("%s: ParquetReader.Scan / NewParquetReader missing in %s", rule, path)
			continue
		}
		k := short + ".ParquetReader.Scan order"
		okOrder, why := true, ""
		var names *types.Var
		if o := u.Pkgs[path].Types.Scope().Lookup("ParquetReader"); o != nil {
			if st, ok := o.Type().Underlying().(*types.Struct); ok {
				for i := 0; i < st.NumFields(); i++ {
					if roleOf(st.Field(i)) == "fieldNames" {
						names = st.Field(i)
					}
				}
			}
		}
		// Scan: invoke Field.Scan on p.fields[name] for name ranging over p.fieldNames
		found := false
		for _, b := range scan.Blocks {
			for _, ins := range b.Instrs {
				call, ok := ins.(ssa.CallInstruction)
				if !ok || !call.Common().IsInvoke() || call.Common().Method.Name() != "Scan" {
					continue
				}
				found = true
				s := symExpr(call.Common().Value, 0)
				if !strings.Contains(s, "load(recv.fields)") || !strings.Contains(s, "load(recv.fieldNames)") {
					okOrder, why = false, "the scanned column is not p.fields[name] for name in p.fieldNames: "+s
				}
			}
		}
		if !found {
			okOrder, why = false, "ParquetReader.Scan does not call Field.Scan"
		}
		// NewParquetReader: fieldNames = names of Fields(...) in order (append inside a loop over the Fields() result)
		appendOK := false
		var ctorBlocks []*ssa.BasicBlock
		for _, g := range unitFns(u, ctor) {
			if g != roleFunc(u, path, "readRowGroup") {
				ctorBlocks = append(ctorBlocks, g.Blocks...)
			}
		}
		for _, b := range ctorBlocks {
			for _, ins := range b.Instrs {
				st, ok := ins.(*ssa.Store)
				if !ok || fieldOf(st.Addr) != names {
					continue
				}
				if call, ok := st.Val.(*ssa.Call); ok {
					if bi, ok := call.Call.Value.(*ssa.Builtin); ok && bi.Name() == "append" {
						for _, el := range appendedValues(call) {
							if strings.Contains(symExpr(el, 0), ".Fields(") && strings.Contains(symExpr(el, 0), ".Name") {
								appendOK = true
							}
						}
					}
				}
			}
		}
		if !appendOK {
			okOrder, why = false, "fieldNames is not filled with the names of Fields() in order"
		}
		if okOrder {
			r.ok(rule, k, u.Pos(scan.Pos()), "columns are scanned in Fields() order, each through p.fields[name]")
		} else {
			r.bad(rule, k, u.Pos(scan.Pos()), why)
		}
	}
	r.floor(rule+"/index-bookkeeping", len(u.TC), "one indices type per generated package")
	r.floor(rule+"/column-scan", 16, "16 column types in alltypes")
}

func stripConvert(v ssa.Value) ssa.Value {
	for {
		cv, ok := v.(*ssa.Convert)
		if !ok {
			return v
		}
		v = cv.X
	}
}

// checkIndicesRep: for rep > 0 the function increments i[rep-1] and zeroes i[j] for every j in rep..len(i)-1.
func checkIndicesRep(fn *ssa.Function) string {
	if len(fn.Params) != 2 {
		return "unexpected signature"
	}
	idx, rep := fn.Params[0], fn.Params[1]
	// lin evaluates v as a*rep + b (integer conversions of the level are transparent)
	var lin func(v ssa.Value, d int) (a, b int64, ok bool)
	lin = func(v ssa.Value, d int) (int64, int64, bool) {
		if d > 8 {
			return 0, 0, false
		}
		switch x := v.(type) {
		case *ssa.Parameter:
			if x == rep {
				return 1, 0, true
			}
		case *ssa.Convert:
			return lin(x.X, d+1)
		case *ssa.Const:
			if x.Value != nil && x.Value.Kind() == constant.Int {
				k, _ := constant.Int64Val(x.Value)
				return 0, k, true
			}
		case *ssa.BinOp:
			a1, b1, ok1 := lin(x.X, d+1)
			a2, b2, ok2 := lin(x.Y, d+1)
			if ok1 && ok2 {
				switch x.Op {
				case token.ADD:
					return a1 + a2, b1 + b2, true
				case token.SUB:
					return a1 - a2, b1 - b2, true
				}
			}
		}
		return 0, 0, false
	}
	isRepMinus1 := func(v ssa.Value) bool { a, b, ok := lin(v, 0); return ok && a == 1 && b == -1 }
	positive := func(iff *ssa.If, truth bool) bool {
		return nonZeroTest(iff.Cond, truth, func(v ssa.Value) bool { return v == ssa.Value(rep) })
	}
	var incOK, loopOK bool
	var why []string
	for _, b := range fn.Blocks {
		for _, ins := range b.Instrs {
			st, ok := ins.(*ssa.Store)
			if !ok {
				continue
			}
			ia, ok := st.Addr.(*ssa.IndexAddr)
			if !ok {
				continue
			}
			// the indexed base is the index vector itself or a tail of it: i[off:]
			var off ssa.Value
			base := ia.X
			if sl, isSl := base.(*ssa.Slice); isSl && sl.X == ssa.Value(idx) && sl.High == nil && sl.Max == nil {
				off = sl.Low
			} else if base != ssa.Value(idx) {
				continue
			}
			// increment of i[rep-1]
			if bo, ok := st.Val.(*ssa.BinOp); ok && bo.Op == token.ADD && constIs(bo.Y, 1) && off == nil {
				ld, ok := bo.X.(*ssa.UnOp)
				if ok && ld.Op == token.MUL {
					if ia2, ok := ld.X.(*ssa.IndexAddr); ok && ia2.X == ssa.Value(idx) && symExpr(ia2.Index, 0) == symExpr(ia.Index, 0) {
						if isRepMinus1(ia.Index) {
							if guarded(b, positive, 0) {
								incOK = true
							} else {
								why = append(why, "the index of the repeated level is advanced without rep > 0 being established")
							}
						} else {
							why = append(why, "the advanced index is not the one of level rep (i[rep-1])")
						}
					}
				}
				continue
			}
			// reset: base[j] = 0 inside a counted loop whose positions off+j run from rep to len(i)-1
			if constIs(st.Val, 0) {
				// induction variable: a phi {first, phi+1}, used directly or as phi+1 (range loops)
				var phi *ssa.Phi
				var first ssa.Value
				plus := int64(0)
				switch x := ia.Index.(type) {
				case *ssa.Phi:
					phi = x
				case *ssa.BinOp:
					if p2, isPhi := x.X.(*ssa.Phi); isPhi && x.Op == token.ADD && constIs(x.Y, 1) {
						phi, plus = p2, 1
					}
				}
				if phi == nil {
					why = append(why, "a deeper index is reset outside a loop over all deeper levels: only i["+symExpr(ia.Index, 0)+"] restarts, the levels nested further down keep their old position")
					continue
				}
				stepOK := false
				for _, e := range phi.Edges {
					if bo, ok := e.(*ssa.BinOp); ok && bo.Op == token.ADD && bo.X == ssa.Value(phi) && constIs(bo.Y, 1) {
						stepOK = true
					} else {
						first = e
					}
				}
				startOK := false
				if first != nil {
					a1, b1, ok1 := lin(first, 0)
					a2, b2, ok2 := int64(0), int64(0), true
					if off != nil {
						a2, b2, ok2 = lin(off, 0)
					}
					startOK = ok1 && ok2 && a1+a2 == 1 && b1+b2+plus == 0
				}
				// loop condition (index) < len(base) guards the body
				condOK := guarded(b, func(iff *ssa.If, truth bool) bool {
					bo, ok := iff.Cond.(*ssa.BinOp)
					if !ok || !truth || bo.Op != token.LSS || bo.X != ia.Index {
						return false
					}
					call, ok := bo.Y.(*ssa.Call)
					if !ok {
						return false
					}
					bi, ok := call.Call.Value.(*ssa.Builtin)
					return ok && bi.Name() == "len" && call.Call.Args[0] == base
				}, 0)
				if startOK && stepOK && condOK && guarded(phi.Block(), positive, 0) {
					loopOK = true
				} else {
					why = append(why, fmt.Sprintf("the reset loop does not run j = rep, rep+1, … while j < len(i) under rep > 0 (start %v, step %v, bound %v)", startOK, stepOK, condOK))
				}
			}
		}
	}
	if !incOK {
		why = append(why, "no `i[rep-1]++` under rep > 0")
	}
	if !loopOK {
		why = append(why, "no loop restarting the indices of all levels deeper than rep")
	}
	if incOK && loopOK {
		return ""
	}
	return strings.Join(why, "; ")
}

// checkColumnScan: vals = vals[#0:], Defs = Defs[#1:], Reps = Reps[#1:] of the assembler call (optional family);
// vals = vals[1:] after the assembler call (required family).
func checkColumnScan(fi *fieldImpl) string {
	var call *ssa.Call
	for _, b := range fi.scan.Blocks {
		for _, ins := range b.Instrs {
			if cl, ok := ins.(*ssa.Call); ok && !cl.Call.IsInvoke() && cl.Call.StaticCallee() == nil {
				if f := fieldOfLoad(cl.Call.Value); f != nil && roleOf(f) == "write" {
					call = cl
				}
			}
		}
	}
	if call == nil {
		return "Scan does not call the column's assembler"
	}
	// arguments: the record, then loads of the column's own buffers
	for i, a := range call.Call.Args {
		if i == 0 {
			if _, ok := a.(*ssa.Parameter); !ok {
				return "the assembler is not given the caller's record"
			}
			continue
		}
		if fieldOfLoad(a) == nil {
			return "the assembler is given something other than the column's buffers"
		}
	}
	tup, _ := call.Type().(*types.Tuple)
	isTuple := tup != nil && tup.Len() == 2
	want := map[string]string{}
	if isTuple {
		want = map[string]string{"vals": "#0", "Defs": "#1", "Reps": "#1"}
	} else {
		want = map[string]string{"vals": "1"}
	}
	seen := map[string]bool{}
	for _, b := range fi.scan.Blocks {
		for _, ins := range b.Instrs {
			st, ok := ins.(*ssa.Store)
			if !ok {
				continue
			}
			f := fieldOf(st.Addr)
			if f == nil {
				continue
			}
			w, tracked := want[roleOf(f)]
			if !tracked {
				continue
			}
			sl, ok := st.Val.(*ssa.Slice)
			if !ok || fieldOfLoad(sl.X) != f || sl.High != nil || sl.Low == nil {
				return "Scan does not advance " + f.Name() + " by reslicing it from the consumed count"
			}
			if !dominatesInstr(call, st) {
				return f.Name() + " is advanced before the assembler ran"
			}
			if isTuple {
				ex, ok := sl.Low.(*ssa.Extract)
				if !ok || ex.Tuple != ssa.Value(call) || fmt.Sprintf("#%d", ex.Index) != w {
					return fmt.Sprintf("%s is advanced by %s, want result %s of the assembler (values consumed / levels consumed)", f.Name(), symExpr(sl.Low, 0), w)
				}
			} else if !constIs(sl.Low, 1) {
				return "a required column must consume exactly one value per record"
			}
			seen[roleOf(f)] = true
		}
	}
	for k := range want {
		if !seen[k] {
			return "Scan never advances " + k
		}
	}
	return ""
}
