package main

// LA-cli (C15): `parquetgen -parquet file` writes two files — the regenerated struct and the reader/writer for it. With the
// command's default flag values these must be two different files: the string flags whose values are handed to one
// generator entry point (gen.FromParquet / gen.FromStruct) have pairwise distinct non-empty defaults. Equal defaults make
// the second file overwrite the first, so the default invocation leaves no struct definition behind.

import (
	"fmt"
	"go/ast"
	"go/constant"
	"go/types"
	"sort"

	"golang.org/x/tools/go/packages"
)

func laCLI(c *Ctx, rule string) {
	r, u := c.R, c.U
	cfg := &packages.Config{Mode: packages.LoadSyntax, Dir: u.ModDir, Env: goEnv(), Fset: u.fsetOrNew()}
	pkgs, err := packages.Load(cfg, "github.com/parsyl/parquet/cmd/parquetgen")
	if err != nil || len(pkgs) != 1 || len(pkgs[0].Errors) > 0 {
		r.failf("%s: cannot load cmd/parquetgen: %v", rule, err)
		return
	}
	p := pkgs[0]
	// string flags: package-level vars initialised by flag.String(name, default, usage)
	type flagInfo struct{ name, def string }
	flags := map[types.Object]flagInfo{}
	for _, f := range p.Syntax {
		ast.Inspect(f, func(n ast.Node) bool {
			vs, ok := n.(*ast.ValueSpec)
			if !ok || len(vs.Names) != len(vs.Values) {
				return true
			}
			for i, v := range vs.Values {
				call, ok := v.(*ast.CallExpr)
				if !ok || len(call.Args) < 2 {
					continue
				}
				if fn, ok := typeutilCallee(p.TypesInfo, call).(*types.Func); ok && fn.Pkg() != nil && fn.Pkg().Path() == "flag" && fn.Name() == "String" {
					nm, df := p.TypesInfo.Types[call.Args[0]].Value, p.TypesInfo.Types[call.Args[1]].Value
					if nm != nil && df != nil && nm.Kind() == constant.String && df.Kind() == constant.String {
						flags[p.TypesInfo.Defs[vs.Names[i]]] = flagInfo{constant.StringVal(nm), constant.StringVal(df)}
					}
				}
			}
			return true
		})
	}
	n := 0
	for _, f := range p.Syntax {
		ast.Inspect(f, func(nd ast.Node) bool {
			call, ok := nd.(*ast.CallExpr)
			if !ok {
				return true
			}
			fn, ok := typeutilCallee(p.TypesInfo, call).(*types.Func)
			if !ok || fn.Pkg() == nil || fn.Pkg().Path() != genBase+"gen" {
				return true
			}
			byDef := map[string][]string{}
			for _, a := range call.Args {
				st, ok := a.(*ast.StarExpr)
				if !ok {
					continue
				}
				id, ok := st.X.(*ast.Ident)
				if !ok {
					continue
				}
				if fi, ok := flags[p.TypesInfo.Uses[id]]; ok && fi.def != "" {
					byDef[fi.def] = append(byDef[fi.def], "-"+fi.name)
				}
			}
			total := 0
			for _, fl := range byDef {
				total += len(fl)
			}
			if total < 2 {
				return true // an entry point given at most one defaulted path
			}
			n++
			key := "gen." + fn.Name() + " default paths"
			var clash []string
			for d, fl := range byDef {
				if len(fl) > 1 {
					sort.Strings(fl)
					clash = append(clash, fmt.Sprintf("%v all default to %q", fl, d))
				}
			}
			sort.Strings(clash)
			pos := u.Fset.Position(call.Pos())
			ps := fmt.Sprintf("cmd/parquetgen/main.go:%d", pos.Line)
			if len(clash) > 0 {
				r.bad(rule, key, ps, fmt.Sprintf("%v: with the default flag values the files written by gen.%s are one and the same file, the later overwrites the earlier (the regenerated struct is lost)", clash, fn.Name()))
			} else {
				r.ok(rule, key, ps, "the defaulted file-name flags handed to this entry point have pairwise distinct defaults")
			}
			return true
		})
	}
	r.count(rule+"/entry-points", n)
	r.floor(rule+"/entry-points", 1, "main -> gen.FromParquet")
}

func typeutilCallee(info *types.Info, call *ast.CallExpr) types.Object {
	switch fun := call.Fun.(type) {
	case *ast.Ident:
		return info.Uses[fun]
	case *ast.SelectorExpr:
		return info.Uses[fun.Sel]
	}
	return nil
}
