package main

// LA-cli (C15): `parquetgen -parquet file` writes two files — the regenerated struct and the reader/writer for it. With the
// command's default flag values these must be two different files: the string flags whose values are handed to one
// generator entry point (gen.FromParquet / gen.FromStruct) have pairwise distinct non-empty defaults. Equal defaults make
// the second file overwrite the first, so the default invocation leaves no struct definition behind.

import (
	"fmt"
	"go/ast"
	"go/constant"
	"go/token"
	"go/types"
	"sort"
	"strings"

	"golang.org/x/tools/go/packages"
	"golang.org/x/tools/go/ssa"
)

func laCLI(c *Ctx, rule string) {
	r, u := c.R, c.U
	cfg := &packages.Config{Mode: packages.LoadSyntax, Dir: u.ModDir, Env: goEnv(), Fset: u.fsetOrNew()}
	pkgs, err := packages.Load(cfg, "github.com/parsyl/parquet/cmd/parquetgen")
	if err != nil || len(pkgs) != 1 || len(pkgs[0].Errors) > 0 {
		r.failf("%s: cannot load cmd/parquetgen: %v", rule, err)
		return
	}
	p := pkgs[0]
	// string flags: package-level vars initialised by flag.String(name, default, usage)
	type flagInfo struct{ name, def string }
	flags := map[types.Object]flagInfo{}
	// the object a flag's value lives in: the variable `x = flag.String(…)` (used as *x), or the variable / struct field
	// handed to flag.StringVar(&target, …) (used as target)
	objOf := func(e ast.Expr) types.Object {
		switch x := e.(type) {
		case *ast.Ident:
			if o := p.TypesInfo.Uses[x]; o != nil {
				return o
			}
			return p.TypesInfo.Defs[x]
		case *ast.SelectorExpr:
			return p.TypesInfo.Uses[x.Sel]
		}
		return nil
	}
	strConst := func(e ast.Expr) (string, bool) {
		v := p.TypesInfo.Types[e].Value
		if v == nil || v.Kind() != constant.String {
			return "", false
		}
		return constant.StringVal(v), true
	}
	for _, f := range p.Syntax {
		ast.Inspect(f, func(n ast.Node) bool {
			switch x := n.(type) {
			case *ast.ValueSpec:
				if len(x.Names) != len(x.Values) {
					return true
				}
				for i, v := range x.Values {
					call, ok := v.(*ast.CallExpr)
					if !ok || len(call.Args) < 2 {
						continue
					}
					if fn, ok := typeutilCallee(p.TypesInfo, call).(*types.Func); ok && fn.Pkg() != nil && fn.Pkg().Path() == "flag" && fn.Name() == "String" {
						nm, ok1 := strConst(call.Args[0])
						df, ok2 := strConst(call.Args[1])
						if ok1 && ok2 {
							flags[p.TypesInfo.Defs[x.Names[i]]] = flagInfo{nm, df}
						}
					}
				}
			case *ast.AssignStmt:
				for i, v := range x.Rhs {
					call, ok := v.(*ast.CallExpr)
					if !ok || len(call.Args) < 2 || i >= len(x.Lhs) {
						continue
					}
					if fn, ok := typeutilCallee(p.TypesInfo, call).(*types.Func); ok && fn.Pkg() != nil && fn.Pkg().Path() == "flag" && fn.Name() == "String" {
						nm, ok1 := strConst(call.Args[0])
						df, ok2 := strConst(call.Args[1])
						if o := objOf(x.Lhs[i]); ok1 && ok2 && o != nil {
							flags[o] = flagInfo{nm, df}
						}
					}
				}
			case *ast.CallExpr:
				if fn, ok := typeutilCallee(p.TypesInfo, x).(*types.Func); ok && fn.Pkg() != nil && fn.Pkg().Path() == "flag" && fn.Name() == "StringVar" && len(x.Args) >= 3 {
					if ue, ok := x.Args[0].(*ast.UnaryExpr); ok && ue.Op == token.AND {
						nm, ok1 := strConst(x.Args[1])
						df, ok2 := strConst(x.Args[2])
						if o := objOf(ue.X); ok1 && ok2 && o != nil {
							flags[o] = flagInfo{nm, df}
						}
					}
				}
			}
			return true
		})
	}
	n := 0
	for _, f := range p.Syntax {
		ast.Inspect(f, func(nd ast.Node) bool {
			call, ok := nd.(*ast.CallExpr)
			if !ok {
				return true
			}
			fn, ok := typeutilCallee(p.TypesInfo, call).(*types.Func)
			if !ok || fn.Pkg() == nil || fn.Pkg().Path() != genBase+"gen" {
				return true
			}
			byDef := map[string][]string{}
			for _, a := range call.Args {
				if st, ok := a.(*ast.StarExpr); ok {
					a = st.X
				}
				o := objOf(a)
				if o == nil {
					continue
				}
				if fi, ok := flags[o]; ok && fi.def != "" {
					byDef[fi.def] = append(byDef[fi.def], "-"+fi.name)
				}
			}
			total := 0
			for _, fl := range byDef {
				total += len(fl)
			}
			if total < 2 {
				return true // an entry point given at most one defaulted path
			}
			n++
			key := "gen." + fn.Name() + " default paths"
			var clash []string
			for d, fl := range byDef {
				if len(fl) > 1 {
					sort.Strings(fl)
					clash = append(clash, fmt.Sprintf("%v all default to %q", fl, d))
				}
			}
			sort.Strings(clash)
			pos := u.Fset.Position(call.Pos())
			ps := fmt.Sprintf("cmd/parquetgen/main.go:%d", pos.Line)
			if len(clash) > 0 {
				r.bad(rule, key, ps, fmt.Sprintf("%v: with the default flag values the files written by gen.%s are one and the same file, the later overwrites the earlier (the regenerated struct is lost)", clash, fn.Name()))
			} else {
				r.ok(rule, key, ps, "the defaulted file-name flags handed to this entry point have pairwise distinct defaults")
			}
			return true
		})
	}
	r.count(rule+"/entry-points", n)
	r.floor(rule+"/entry-points", 1, "main -> gen.FromParquet")
}

func typeutilCallee(info *types.Info, call *ast.CallExpr) types.Object {
	switch fun := call.Fun.(type) {
	case *ast.Ident:
		return info.Uses[fun]
	case *ast.SelectorExpr:
		return info.Uses[fun.Sel]
	}
	return nil
}

// laThriftLimits (C16, C04): page headers and the footer carry unbounded strings (statistics hold whole values, key/value
// metadata, schema names). A thrift decoder on a read path that is configured with a message / frame size limit refuses
// valid files beyond it. Reported: every store of a non-zero value into thrift.TConfiguration.MaxMessageSize /
// MaxFrameSize in the universe.
func laThriftLimits(c *Ctx, rule string) {
	r, u := c.R, c.U
	n := 0
	for _, f := range u.Funcs {
		if f.Synthetic != "" {
			continue
		}
		for _, b := range f.Blocks {
			for _, ins := range b.Instrs {
				st, ok := ins.(*ssa.Store)
				if !ok {
					continue
				}
				fl := fieldOf(st.Addr)
				if fl == nil || fl.Pkg() == nil || !strings.HasSuffix(fl.Pkg().Path(), "thrift/lib/go/thrift") {
					continue
				}
				if fl.Name() != "MaxMessageSize" && fl.Name() != "MaxFrameSize" {
					continue
				}
				if constIs(st.Val, 0) {
					continue
				}
				n++
				r.bad(rule, u.FnName(f)+" thrift "+fl.Name(), u.Pos(st.Pos()), "a thrift decoder is configured with "+fl.Name()+" = "+symExpr(st.Val, 0)+": page headers and the footer hold unbounded strings (statistics carry whole values), so valid files beyond that size are refused or not listed")
			}
		}
	}
	r.count(rule+"/thrift-limits", n)
}
