package main

// FG — feature gate (C18, DESIGN.md §4 FG): every function that obtains a page
// header from the source must, before it interprets the page, have compared
// each applicable selector of the header with the one value the reader
// implements, on every path; the failing side returns an error. Path
// exploration over the SSA CFG, with one level of helper summaries.

import (
	"fmt"
	"go/constant"
	"go/token"
	"go/types"
	"sort"
	"strings"

	"golang.org/x/tools/go/ssa"
)

func init() {
	register("C18", "other", LoadOpts{TC: true, SSA: true}, checkC18)
}

type selector struct {
	name   string
	owner  string // struct in package schema
	field  string
	konst  string // supported constant in package schema ("" = non-nil test)
	fld    *types.Var
	val    int64
	hasVal bool
}

type fgCtx struct {
	u    *Universe
	sels []*selector
	dph  *types.Var // PageHeader.DataPageHeader
	// helper summaries: selectors established when the helper returns a nil error, keyed by function
	helper map[*ssa.Function]map[string]bool
}

func (g *fgCtx) sel(name string) *selector {
	for _, s := range g.sels {
		if s.name == name {
			return s
		}
	}
	return nil
}

func newFG(c *Ctx) *fgCtx {
	u := c.U
	schPkg := u.Pkgs[rtPath].Imports[schPath]
	g := &fgCtx{u: u, helper: map[*ssa.Function]map[string]bool{}}
	g.sels = []*selector{
		{name: "page-type", owner: "PageHeader", field: "Type", konst: "PageType_DATA_PAGE"},
		{name: "data-header-present", owner: "PageHeader", field: "DataPageHeader"},
		{name: "value-encoding", owner: "DataPageHeader", field: "Encoding", konst: "Encoding_PLAIN"},
		{name: "def-level-encoding", owner: "DataPageHeader", field: "DefinitionLevelEncoding", konst: "Encoding_RLE"},
		{name: "rep-level-encoding", owner: "DataPageHeader", field: "RepetitionLevelEncoding", konst: "Encoding_RLE"},
	}
	for _, s := range g.sels {
		o := schPkg.Types.Scope().Lookup(s.owner)
		if o == nil {
			c.R.failf("schema.%s not found", s.owner)
			continue
		}
		st := o.Type().Underlying().(*types.Struct)
		for i := 0; i < st.NumFields(); i++ {
			if st.Field(i).Name() == s.field {
				s.fld = st.Field(i)
			}
		}
		if s.fld == nil {
			c.R.failf("schema.%s.%s not found", s.owner, s.field)
		}
		if s.konst != "" {
			k, ok := schPkg.Types.Scope().Lookup(s.konst).(*types.Const)
			if !ok {
				c.R.failf("schema.%s not found", s.konst)
				continue
			}
			s.val, _ = constant.Int64Val(k.Val())
			s.hasVal = true
		}
		if s.name == "data-header-present" {
			g.dph = s.fld
		}
	}
	return g
}

// establishes: which selector does taking this edge of the If establish?
func (g *fgCtx) establishes(cond ssa.Value, truth bool) string {
	bo, ok := cond.(*ssa.BinOp)
	if !ok || (bo.Op != token.EQL && bo.Op != token.NEQ) {
		return ""
	}
	eq := (bo.Op == token.EQL) == truth // on this edge the two operands are equal
	for _, pair := range [][2]ssa.Value{{bo.X, bo.Y}, {bo.Y, bo.X}} {
		f := fieldOfLoad(pair[0])
		if f == nil {
			continue
		}
		for _, s := range g.sels {
			if s.fld != f {
				continue
			}
			if s.hasVal {
				if c, ok := pair[1].(*ssa.Const); ok && c.Value != nil && c.Value.Kind() == constant.Int {
					if v, _ := constant.Int64Val(c.Value); v == s.val && eq {
						return s.name
					}
				}
			} else if isNilConst(pair[1]) && !eq {
				return s.name
			}
		}
	}
	return ""
}

type fgState struct {
	est      map[string]bool
	bools    map[*types.Var]bool // assumed truth of boolean receiver fields (correlates repeated tests)
	defsRead bool
	repsRead bool
	errNil   map[ssa.Value]map[string]bool // error values of helper calls -> selectors established when nil
}

func (s *fgState) clone() *fgState {
	n := &fgState{est: map[string]bool{}, bools: map[*types.Var]bool{}, defsRead: s.defsRead, repsRead: s.repsRead, errNil: s.errNil}
	for k, v := range s.est {
		n.est[k] = v
	}
	for k, v := range s.bools {
		n.bools[k] = v
	}
	return n
}

func (s *fgState) key() string {
	var p []string
	for k := range s.est {
		p = append(p, k)
	}
	for k, v := range s.bools {
		p = append(p, fmt.Sprintf("%s=%v", k.Name(), v))
	}
	sort.Strings(p)
	return fmt.Sprintf("%s|%v|%v", strings.Join(p, ","), s.defsRead, s.repsRead)
}

// flowsToField: does the call's (first) result reach a store into field name of some struct (through slices/appends)?
func flowsToField(v ssa.Value, name string, depth int) bool {
	if depth > 6 || v.Referrers() == nil {
		return false
	}
	for _, ref := range *v.Referrers() {
		switch x := ref.(type) {
		case *ssa.Extract:
			if x.Index == 0 && flowsToField(x, name, depth+1) {
				return true
			}
		case *ssa.Slice:
			if flowsToField(x, name, depth+1) {
				return true
			}
		case *ssa.Call:
			if b, ok := x.Call.Value.(*ssa.Builtin); ok && b.Name() == "append" && flowsToField(x, name, depth+1) {
				return true
			}
		case *ssa.Phi:
			if flowsToField(x, name, depth+1) {
				return true
			}
		case *ssa.Store:
			if f := fieldOf(x.Addr); f != nil && f.Name() == name {
				return true
			}
		}
	}
	return false
}

// helperSummary: selectors established on every path of fn that returns a nil error (fn takes the header, returns error).
func (g *fgCtx) helperSummary(fn *ssa.Function) map[string]bool {
	if s, ok := g.helper[fn]; ok {
		return s
	}
	g.helper[fn] = map[string]bool{} // recursion guard
	ri := errIndex(fn.Signature)
	if ri < 0 || fn.Blocks == nil {
		return g.helper[fn]
	}
	var result map[string]bool
	visited := map[string]bool{}
	var walk func(b *ssa.BasicBlock, st *fgState)
	walk = func(b *ssa.BasicBlock, st *fgState) {
		k := fmt.Sprintf("%d|%s", b.Index, st.key())
		if visited[k] {
			return
		}
		visited[k] = true
		switch t := lastInstr(b).(type) {
		case *ssa.If:
			for si, truth := range []bool{true, false} {
				ns := st.clone()
				if e := g.establishes(t.Cond, truth); e != "" {
					ns.est[e] = true
				}
				walk(b.Succs[si], ns)
			}
		case *ssa.Return:
			if isNilConst(t.Results[ri]) {
				if result == nil {
					result = map[string]bool{}
					for k := range st.est {
						result[k] = true
					}
				} else {
					for k := range result {
						if !st.est[k] {
							delete(result, k)
						}
					}
				}
			} else if _, isConst := t.Results[ri].(*ssa.Const); !isConst {
				// may be nil at run time (e.g. returns another call's error): nothing is guaranteed unless it is a fresh error
				if !freshError(t.Results[ri]) {
					result = map[string]bool{}
				}
			}
		default:
			for _, s := range b.Succs {
				walk(s, st)
			}
		}
	}
	walk(fn.Blocks[0], &fgState{est: map[string]bool{}, bools: map[*types.Var]bool{}})
	if result == nil {
		result = map[string]bool{}
	}
	g.helper[fn] = result
	return result
}

type fgFinding struct{ key, pos, why string }

// explore one header consumer starting after the PageHeader call.
func (g *fgCtx) explore(fn *ssa.Function, hdrCall *ssa.Call, hdr ssa.Value) (viol []fgFinding, needDef, needRep bool, iterations int) {
	u := g.u
	seenV := map[string]bool{}
	add := func(key, pos, why string) {
		if !seenV[key] {
			seenV[key] = true
			viol = append(viol, fgFinding{key, pos, why})
		}
	}
	visited := map[string]bool{}
	errNil := map[ssa.Value]map[string]bool{}
	requireAll := func(st *fgState, where, pos string) {
		need := []string{"page-type", "data-header-present", "value-encoding"}
		if st.defsRead {
			need = append(need, "def-level-encoding")
		}
		if st.repsRead {
			need = append(need, "rep-level-encoding")
		}
		for _, n := range need {
			if !st.est[n] {
				s := g.sel(n)
				want := s.konst
				if want == "" {
					want = "non-nil"
				}
				add(n, pos, fmt.Sprintf("a page can be consumed (%s at %s) without %s.%s having been compared with %s on that path: a file using an unsupported %s is decoded as if it were PLAIN v1 data instead of being refused", where, pos, s.owner, s.field, want, n))
			}
		}
	}
	var walk func(b *ssa.BasicBlock, from int, st *fgState)
	walk = func(b *ssa.BasicBlock, from int, st *fgState) {
		if from == 0 {
			k := fmt.Sprintf("%d|%s", b.Index, st.key())
			if visited[k] {
				return
			}
			visited[k] = true
		}
		for i := from; i < len(b.Instrs); i++ {
			ins := b.Instrs[i]
			if ins == ssa.Instruction(hdrCall) {
				iterations++
				requireAll(st, "next page header read", u.Pos(ins.Pos()))
				return
			}
			switch x := ins.(type) {
			case *ssa.FieldAddr:
				// dereference of the data page header
				if ld, ok := x.X.(*ssa.UnOp); ok && ld.Op == token.MUL && fieldOf(ld.X) == g.dph {
					for _, n := range []string{"page-type", "data-header-present"} {
						if !st.est[n] {
							s := g.sel(n)
							add(n, u.Pos(x.Pos()), fmt.Sprintf("DataPageHeader.%s is used at %s on a path where %s.%s was not checked: a dictionary/index/v2 page (DataPageHeader == nil) makes the reader panic or misread", fieldOf(x).Name(), u.Pos(x.Pos()), s.owner, s.field))
						}
					}
				}
			case *ssa.Call:
				if sc := x.Call.StaticCallee(); sc != nil {
					// level reads
					if flowsToField(x, "Defs", 0) && callsRLE(u, sc) {
						st.defsRead = true
					}
					if flowsToField(x, "Reps", 0) && callsRLE(u, sc) {
						st.repsRead = true
					}
					// validation helper taking the header
					takesHdr := false
					for _, a := range x.Call.Args {
						if a == hdr {
							takesHdr = true
						}
					}
					if takesHdr && u.InUniverse(sc) && errIndex(sc.Signature) >= 0 {
						sum := g.helperSummary(sc)
						if len(sum) > 0 {
							var ev ssa.Value = x
							if _, isT := x.Type().(*types.Tuple); isT {
								for _, ref := range *x.Referrers() {
									if ex, ok := ref.(*ssa.Extract); ok && ex.Index == errIndex(sc.Signature) {
										ev = ex
									}
								}
							}
							errNil[ev] = sum
						}
					}
				}
			case *ssa.If:
				cond := x.Cond
				// helper error test
				if bo, ok := cond.(*ssa.BinOp); ok && (bo.Op == token.NEQ || bo.Op == token.EQL) {
					var ev ssa.Value
					if isNilConst(bo.Y) {
						ev = bo.X
					} else if isNilConst(bo.X) {
						ev = bo.Y
					}
					if sum, ok := errNil[ev]; ok {
						for si, truth := range []bool{true, false} {
							ns := st.clone()
							if (bo.Op == token.EQL) == truth { // err == nil on this edge
								for k := range sum {
									ns.est[k] = true
								}
							}
							walk(b.Succs[si], 0, ns)
						}
						return
					}
				}
				// correlated boolean field of the receiver
				if f := fieldOfLoad(cond); f != nil {
					if bt, ok := f.Type().Underlying().(*types.Basic); ok && bt.Kind() == types.Bool {
						if v, known := st.bools[f]; known {
							if v {
								walk(b.Succs[0], 0, st)
							} else {
								walk(b.Succs[1], 0, st)
							}
							return
						}
						t, e := st.clone(), st.clone()
						t.bools[f], e.bools[f] = true, false
						walk(b.Succs[0], 0, t)
						walk(b.Succs[1], 0, e)
						return
					}
				}
				for si, truth := range []bool{true, false} {
					ns := st.clone()
					if e := g.establishes(cond, truth); e != "" {
						ns.est[e] = true
					}
					walk(b.Succs[si], 0, ns)
				}
				return
			case *ssa.Jump:
				walk(b.Succs[0], 0, st)
				return
			case *ssa.Return:
				ri := errIndex(fn.Signature)
				if ri >= 0 && isNilConst(x.Results[ri]) {
					iterations++
					requireAll(st, "successful return", u.Pos(x.Pos()))
				}
				return
			case *ssa.Panic:
				return
			}
		}
	}
	b := hdrCall.Block()
	idx := 0
	for i, ins := range b.Instrs {
		if ins == ssa.Instruction(hdrCall) {
			idx = i
		}
	}
	walk(b, idx+1, &fgState{est: map[string]bool{}, bools: map[*types.Var]bool{}})
	return
}

var rleMemo = map[*ssa.Function]bool{}

func callsRLE(u *Universe, f *ssa.Function) bool {
	if v, ok := rleMemo[f]; ok {
		return v
	}
	res := false
	for g := range u.reach([]*ssa.Function{f}) {
		if u.pkgPathOf(g) == rlePath && g.Name() == "Read" {
			res = true
		}
	}
	rleMemo[f] = res
	return res
}

// runFG walks every page-header consumer of the runtime. over=false: the refusal obligations of C18; over=true: the
// converse obligation of C04 (no refusal for a level encoding the column does not decode).
func runFG(c *Ctx, over bool) []*ssa.Function {
	r, u := c.R, c.U
	rule := "FG"
	if over {
		rule = "FG-over"
	}
	g := newFG(c)
	_, t, ops := srcAnalysis(c)
	// the header read: the thrift decoder of schema.PageHeader — whatever runtime function calls it (PageHeader(), or a
	// helper that decodes into a header object handed in by its caller)
	hdrFn := thriftHeaderRead(u)
	if hdrFn == nil {
		r.failf("(*schema.PageHeader).Read not found")
		return nil
	}
	// header consumers: functions of the runtime that obtain a page header from the source — by calling a function that
	// (transitively) decodes one — and go on to interpret a payload (hand a header, or a data page header, to a function
	// that reads from the source). The acquiring helper itself is walked as part of its caller.
	reachHdr := map[*ssa.Function]bool{}
	reachesHdr := func(f *ssa.Function) bool {
		if v, ok := reachHdr[f]; ok {
			return v
		}
		res := f == hdrFn || callsDirectly(f, hdrFn)
		for g2 := range u.reach([]*ssa.Function{f}) {
			if g2 == hdrFn || callsDirectly(g2, hdrFn) {
				res = true
			}
		}
		reachHdr[f] = res
		return res
	}
	isHeaderType := func(t types.Type) bool {
		ts := t.String()
		return strings.HasSuffix(ts, "schema.PageHeader") || strings.HasSuffix(ts, "schema.DataPageHeader")
	}
	returnsHeader := func(f *ssa.Function) bool {
		res := f.Signature.Results()
		return res.Len() >= 1 && isHeaderType(res.At(0).Type())
	}
	var consumers []*ssa.Function
	for _, f := range u.Funcs {
		if u.pkgPathOf(f) != rtPath || f.Synthetic != "" || returnsHeader(f) {
			continue
		}
		// only functions that interpret a payload (hand a header on to a function that reads from the source — themselves
		// or in a helper of the runtime they call) are readers; listing functions belong to C16
		interprets := false
		for _, g := range unitFns(u, f) {
			for _, b := range g.Blocks {
				for _, ins := range b.Instrs {
					if c2, ok := ins.(*ssa.Call); ok {
						if sc2 := c2.Call.StaticCallee(); sc2 != nil && u.InUniverse(sc2) && ops.intrinsic[sc2] && !reachesHdr(sc2) {
							for _, a := range c2.Call.Args {
								if isHeaderType(a.Type()) {
									interprets = true
								}
							}
						}
					}
				}
			}
		}
		if !interprets {
			continue
		}
		// the outermost such function is the consumer: a helper that reads and interprets one page on behalf of a caller
		// in the runtime that goes on with the page is walked as part of that caller
		inner := false
		for _, cs := range callersOf(f) {
			if p := cs.Parent(); p != nil && p != f && u.pkgPathOf(p) == rtPath && p.Synthetic == "" {
				inner = true
			}
		}
		if inner {
			continue
		}
		for _, b := range f.Blocks {
			for _, ins := range b.Instrs {
				call, ok := ins.(*ssa.Call)
				if !ok || !t.AnyArg(call) {
					continue
				}
				sc := call.Call.StaticCallee()
				if sc == nil || u.pkgPathOf(sc) != rtPath || !reachesHdr(sc) {
					continue
				}
				consumers = append(consumers, f)
				r.count(rule+"/header-consumers", 1)
				viol, iters := g.exploreInlined(hdrFn, f, call)
				key := u.FnName(f)
				pos := u.Pos(call.Pos())
				if iters == 0 {
					r.undecided(rule, key, pos, "no path from the header read to a page-consumed point was found")
					continue
				}
				bad := map[string]fgFinding{}
				for _, v := range viol {
					if _, dup := bad[v.key]; !dup {
						bad[v.key] = v
					}
				}
				if over {
					for _, n := range []string{"def-level-encoding", "rep-level-encoding"} {
						if v, isBad := bad["over:"+n]; isBad {
							r.bad("FG-over", key+" "+n, v.pos, v.why)
						} else {
							r.ok("FG-over", key+" "+n, pos, "a page is refused for its level encoding only on paths that decode such levels")
						}
					}
					continue
				}
				for _, s := range g.sels {
					if v, isBad := bad[s.name]; isBad {
						r.bad("FG", key+" "+s.name, v.pos, v.why)
					} else {
						r.ok("FG", key+" "+s.name, pos, "compared with the supported value (or not applicable) on every path before the page is consumed")
					}
				}
			}
		}
	}
	if consumers == nil {
		consumers = []*ssa.Function{}
	}
	return consumers
}

func checkC18(c *Ctx) {
	r, u := c.R, c.U
	r.Explanation = "Decides 'rejected with an error' for every unsupported page type, value encoding, level encoding (only where the column decodes such levels) and codec, at every page of every chunk: (FG) in every function that reads a page header from the source, on every CFG path from the header read to the point where the page counts as consumed (next header read or successful return) and before any dereference of DataPageHeader, the header's Type, DataPageHeader, Encoding and — on paths that decode definition/repetition levels — the level encodings have been compared with the one supported value, the other branch returning an error; pageData's codec dispatch returns an error for every other codec; (EP) every error of those functions reaches NewParquetReader's return or the sticky Error(). 'Does not panic' for other malformed content is not decided."
	consumers := runFG(c, false)
	_, _, ops := srcAnalysis(c)
	if consumers == nil {
		return
	}
	// codec gate: the function that switches over the chunk codec returns an error when no supported codec matches
	checkCodecGate(c)
	// EP: errors of the header consumers reach the API
	reachesConsumer := map[*ssa.Function]bool{}
	isConsumer := map[*ssa.Function]bool{}
	for _, f := range consumers {
		isConsumer[f] = true
	}
	memo := map[*ssa.Function]bool{}
	reaches := func(f *ssa.Function) bool {
		if v, ok := memo[f]; ok {
			return v
		}
		res := false
		for g2 := range u.reach([]*ssa.Function{f}) {
			if isConsumer[g2] {
				res = true
			}
		}
		memo[f] = res
		return res
	}
	_ = reachesConsumer
	runEP(u, r, "EP/refusal", ops, func(s *OpSite) bool {
		if s.Kind != Derived {
			return false
		}
		for _, cal := range u.Callees(s.Site) {
			if u.InUniverse(cal) && reaches(cal) {
				return true
			}
		}
		return false
	})
	r.floor("FG/header-consumers", 1, "RequiredField.DoRead, OptionalField.DoRead")
	r.floor("FG/codec-switch", 1, "pageData")
	r.floor("EP/refusal/derived", 1+2*len(u.TC), "generated Read methods -> DoRead, readRowGroup -> Field.Read, NewParquetReader/Next -> readRowGroup")
	r.assume("the header's fields are what thrift decoded from the file; files whose thrift structure is itself malformed are outside C18")
}

func checkCodecGate(c *Ctx) {
	r, u := c.R, c.U
	schPkg := u.Pkgs[rtPath].Imports[schPath]
	codecT := schPkg.Types.Scope().Lookup("CompressionCodec")
	if codecT == nil {
		r.failf("schema.CompressionCodec not found")
		return
	}
	supported := map[int64]string{}
	for _, n := range []string{"CompressionCodec_UNCOMPRESSED", "CompressionCodec_SNAPPY", "CompressionCodec_GZIP"} {
		if k, ok := schPkg.Types.Scope().Lookup(n).(*types.Const); ok {
			v, _ := constant.Int64Val(k.Val())
			supported[v] = n
		}
	}
	srcFns := map[*ssa.Function]bool{}
	roots := sourceRoots(c)
	for f := range u.reach(append(roots.reader, roots.intro...)) {
		srcFns[f] = true
	}
	for _, f := range u.Funcs {
		if !srcFns[f] || u.pkgPathOf(f) != rtPath {
			continue
		}
		// a function with >= 2 equality tests of a CompressionCodec value against constants
		var tests []*ssa.If
		for _, b := range f.Blocks {
			if iff, ok := lastInstr(b).(*ssa.If); ok {
				if bo, ok := iff.Cond.(*ssa.BinOp); ok && bo.Op == token.EQL && types.Identical(bo.X.Type(), codecT.Type()) {
					if _, isC := bo.Y.(*ssa.Const); isC {
						tests = append(tests, iff)
					}
				}
			}
		}
		if len(tests) < 2 {
			continue
		}
		r.count("FG/codec-switch", 1)
		key := u.FnName(f) + " codec"
		pos := u.Pos(f.Pos())
		// follow the all-false edges from the first test
		isTest := map[*ssa.If]bool{}
		for _, t := range tests {
			isTest[t] = true
			bo := t.Cond.(*ssa.BinOp)
			v, _ := constant.Int64Val(bo.Y.(*ssa.Const).Value)
			if _, ok := supported[v]; !ok {
				r.bad("FG", key+" case", u.Pos(t.Pos()), fmt.Sprintf("codec constant %d is dispatched but is not one of uncompressed/snappy/gzip", v))
			}
		}
		ri := errIndex(f.Signature)
		var bad []string
		seen := map[*ssa.BasicBlock]bool{}
		var walk func(b *ssa.BasicBlock)
		walk = func(b *ssa.BasicBlock) {
			if seen[b] {
				return
			}
			seen[b] = true
			switch t := lastInstr(b).(type) {
			case *ssa.If:
				if isTest[t] {
					walk(b.Succs[1])
					return
				}
				walk(b.Succs[0])
				walk(b.Succs[1])
			case *ssa.Return:
				if ri < 0 || isNilConst(t.Results[ri]) {
					bad = append(bad, u.Pos(t.Pos()))
				} else if _, isConst := t.Results[ri].(*ssa.Const); !isConst && !freshError(t.Results[ri]) {
					bad = append(bad, u.Pos(t.Pos())+" (error value not provably non-nil)")
				}
			default:
				for _, s := range b.Succs {
					walk(s)
				}
			}
		}
		walk(tests[0].Block())
		if len(bad) > 0 {
			r.bad("FG", key, pos, "when the chunk's codec is none of the supported ones the function returns without an error at "+strings.Join(bad, ", "))
		} else {
			r.ok("FG", key, pos, fmt.Sprintf("%d codec cases; every other codec value ends in an error return", len(tests)))
		}
	}
}

// callsDirectly: f contains a static call of callee.
func callsDirectly(f, callee *ssa.Function) bool {
	for _, b := range f.Blocks {
		for _, ins := range b.Instrs {
			if call, ok := ins.(ssa.CallInstruction); ok && call.Common().StaticCallee() == callee {
				return true
			}
		}
	}
	return false
}

// thriftHeaderRead: the thrift decoder of schema.PageHeader, (*PageHeader).Read.
func thriftHeaderRead(u *Universe) *ssa.Function {
	if schPkg := u.Pkgs[rtPath].Imports[schPath]; schPkg != nil {
		if obj := schPkg.Types.Scope().Lookup("PageHeader"); obj != nil {
			ms := u.Prog.MethodSets.MethodSet(types.NewPointer(obj.Type()))
			for i := 0; i < ms.Len(); i++ {
				if fn, ok := ms.At(i).Obj().(*types.Func); ok && fn.Name() == "Read" {
					return u.Prog.FuncValue(fn)
				}
			}
		}
	}
	return nil
}
