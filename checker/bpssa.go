package main

// An abstract interpreter over go/ssa in the bit-provenance domain (DESIGN.md §4 BP): integers are vectors of bits
// that are 0, 1, "bit b of input i", its negation, or unknown; loop counters and other data-independent values stay
// constant, so loops with data-independent bounds unroll by themselves. A branch on a data-dependent condition, an
// unknown shift count, or an unmodelled instruction makes the evaluation undecided. Used for the pack/unpack
// functions of internal/bitpack (C17, C07) and the bool unpacker (C01), whatever style they are written in
// (expression tables, word-at-a-time, loops, helpers).

import (
	"fmt"
	"go/constant"
	"go/token"
	"go/types"

	"golang.org/x/tools/go/ssa"
)

type acell struct{ v aval }

type aval interface{}

type aInt struct{ bits vec } // little-endian bit vector, len = width of the Go type

type aBool struct{ b bit } // k: 0 false, 1 true, 2 in(i,b), 4 not in(i,b), 3 unknown

type aSlice struct {
	cells []*acell
	cap   int
}

type aPtr struct{ cell *acell }

type aArr struct{ cells []*acell }

type aNilIface struct{}

type bpInterp struct {
	u     *Universe
	steps int
	depth int
}

type bpFail struct{ msg string }

func (i *bpInterp) fail(format string, a ...interface{}) { panic(bpFail{fmt.Sprintf(format, a...)}) }

func constOf(v aInt) (int64, bool) {
	var x uint64
	for i, b := range v.bits {
		switch b.k {
		case 0:
		case 1:
			if i < 64 {
				x |= 1 << uint(i)
			}
		default:
			return 0, false
		}
	}
	return int64(x), true
}

func mkConst(x int64, w int) aInt { return aInt{constVec(uint64(x), w)} }

func symInput(id, w int) aInt {
	out := make(vec, w)
	for b := range out {
		out[b] = bit{k: 2, i: id, b: b}
	}
	return aInt{out}
}

func (i *bpInterp) zero(t types.Type) aval {
	switch x := t.Underlying().(type) {
	case *types.Basic:
		if x.Kind() == types.Bool {
			return aBool{bit{}}
		}
		if w, _ := intWidth(t); w > 0 {
			return mkConst(0, w)
		}
	case *types.Array:
		cells := make([]*acell, x.Len())
		for k := range cells {
			cells[k] = &acell{i.zero(x.Elem())}
		}
		return aArr{cells}
	case *types.Slice:
		return aSlice{}
	case *types.Pointer:
		return aPtr{nil}
	case *types.Interface:
		return aNilIface{} // a nil interface value (a nil error result): carried, never inspected
	}
	i.fail("no abstract zero value for %s", t)
	return nil
}

// call interprets fn on the given abstract arguments and returns its results.
func (i *bpInterp) call(fn *ssa.Function, args []aval) []aval {
	if fn.Blocks == nil {
		i.fail("call of %s, which has no body here", fn)
	}
	i.depth++
	if i.depth > 6 {
		i.fail("call depth")
	}
	defer func() { i.depth-- }()
	env := map[ssa.Value]aval{}
	for k, p := range fn.Params {
		env[p] = args[k]
	}
	get := func(v ssa.Value) aval {
		if c, ok := v.(*ssa.Const); ok {
			if c.Value == nil {
				return i.zero(c.Type())
			}
			switch c.Value.Kind() {
			case constant.Bool:
				if constant.BoolVal(c.Value) {
					return aBool{bit{k: 1}}
				}
				return aBool{bit{}}
			case constant.Int:
				w, _ := intWidth(c.Type())
				if w == 0 {
					w = 64
				}
				if u64, ok := constant.Uint64Val(c.Value); ok {
					return aInt{constVec(u64, w)}
				}
				i64, _ := constant.Int64Val(c.Value)
				return aInt{constVec(uint64(i64), w)}
			}
			i.fail("constant %s", c)
		}
		a, ok := env[v]
		if !ok {
			i.fail("value %s (%T) used before it is computed", v.Name(), v)
		}
		return a
	}
	blk := fn.Blocks[0]
	var prev *ssa.BasicBlock
	for {
		// phis first, simultaneously
		upd := map[ssa.Value]aval{}
		for _, ins := range blk.Instrs {
			phi, ok := ins.(*ssa.Phi)
			if !ok {
				break
			}
			for k, p := range blk.Preds {
				if p == prev {
					upd[phi] = get(phi.Edges[k])
				}
			}
		}
		for k, v := range upd {
			env[k] = v
		}
		for _, ins := range blk.Instrs {
			i.steps++
			if i.steps > 50000 {
				i.fail("evaluation does not terminate within the step bound (data-dependent loop?)")
			}
			switch x := ins.(type) {
			case *ssa.Phi, *ssa.DebugRef:
			case *ssa.Alloc:
				env[x] = aPtr{&acell{i.zero(x.Type().(*types.Pointer).Elem())}}
			case *ssa.MakeSlice:
				n, ok := constOf(get(x.Len).(aInt))
				if !ok {
					i.fail("make with a data-dependent length")
				}
				c := n
				if x.Cap != nil {
					if cc, ok := constOf(get(x.Cap).(aInt)); ok {
						c = cc
					}
				}
				cells := make([]*acell, c)
				for k := range cells {
					cells[k] = &acell{i.zero(x.Type().Underlying().(*types.Slice).Elem())}
				}
				env[x] = aSlice{cells[:n], int(c)}
			case *ssa.IndexAddr:
				idx, ok := constOf(get(x.Index).(aInt))
				if !ok {
					i.fail("data-dependent index at %s", i.u.Pos(x.Pos()))
				}
				var cells []*acell
				switch b := get(x.X).(type) {
				case aSlice:
					cells = b.cells
				case aPtr:
					arr, ok := b.cell.v.(aArr)
					if !ok {
						i.fail("index of non-array pointer")
					}
					cells = arr.cells
				default:
					i.fail("index of %T", b)
				}
				if idx < 0 || int(idx) >= len(cells) {
					i.fail("index %d out of range [0,%d) at %s: the function would panic", idx, len(cells), i.u.Pos(x.Pos()))
				}
				env[x] = aPtr{cells[idx]}
			case *ssa.Index:
				idx, ok := constOf(get(x.Index).(aInt))
				arr, ok2 := get(x.X).(aArr)
				if !ok || !ok2 || idx < 0 || int(idx) >= len(arr.cells) {
					i.fail("array index")
				}
				env[x] = arr.cells[idx].v
			case *ssa.Store:
				p, ok := get(x.Addr).(aPtr)
				if !ok || p.cell == nil {
					i.fail("store through an unmodelled address")
				}
				p.cell.v = get(x.Val)
			case *ssa.UnOp:
				switch x.Op {
				case token.MUL:
					p, ok := get(x.X).(aPtr)
					if !ok || p.cell == nil {
						i.fail("load through an unmodelled address (%s)", x.X.Name())
					}
					env[x] = copyVal(p.cell.v)
				case token.NOT:
					b := get(x.X).(aBool).b
					switch b.k {
					case 0:
						b = bit{k: 1}
					case 1:
						b = bit{}
					case 2:
						b.k = 4
					case 4:
						b.k = 2
					}
					env[x] = aBool{b}
				case token.XOR:
					v := get(x.X).(aInt)
					out := make(vec, len(v.bits))
					for k, b := range v.bits {
						switch b.k {
						case 0:
							out[k] = bit{k: 1}
						case 1:
							out[k] = bit{}
						default:
							out[k] = bit{k: 3}
						}
					}
					env[x] = aInt{out}
				case token.SUB:
					if c, ok := constOf(get(x.X).(aInt)); ok {
						env[x] = mkConst(-c, len(get(x.X).(aInt).bits))
					} else {
						i.fail("negation of a data-dependent value")
					}
				default:
					i.fail("unary %s", x.Op)
				}
			case *ssa.BinOp:
				env[x] = i.binop(x, get(x.X), get(x.Y))
			case *ssa.Convert:
				src, ok := get(x.X).(aInt)
				w, _ := intWidth(x.Type())
				if !ok || w == 0 {
					i.fail("conversion %s -> %s", x.X.Type(), x.Type())
				}
				_, ssigned := intWidth(x.X.Type())
				out := make(vec, w)
				for k := 0; k < w; k++ {
					switch {
					case k < len(src.bits):
						out[k] = src.bits[k]
					case ssigned:
						out[k] = src.bits[len(src.bits)-1]
					}
				}
				env[x] = aInt{out}
			case *ssa.ChangeType:
				env[x] = get(x.X)
			case *ssa.Slice:
				lo, hi := int64(0), int64(-1)
				if x.Low != nil {
					v, ok := constOf(get(x.Low).(aInt))
					if !ok {
						i.fail("data-dependent slice bound")
					}
					lo = v
				}
				if x.High != nil {
					v, ok := constOf(get(x.High).(aInt))
					if !ok {
						i.fail("data-dependent slice bound")
					}
					hi = v
				}
				var cells []*acell
				capn := 0
				switch b := get(x.X).(type) {
				case aSlice:
					cells, capn = b.cells[:cap(b.cells)], cap(b.cells)
					if hi < 0 {
						hi = int64(len(b.cells))
					}
				case aPtr:
					arr, ok := b.cell.v.(aArr)
					if !ok {
						i.fail("slice of non-array pointer")
					}
					cells, capn = arr.cells, len(arr.cells)
					if hi < 0 {
						hi = int64(len(arr.cells))
					}
				default:
					i.fail("slice of %T", b)
				}
				if lo < 0 || hi < lo || int(hi) > capn {
					i.fail("slice bounds [%d:%d] out of range (capacity %d) at %s: the function would panic", lo, hi, capn, i.u.Pos(x.Pos()))
				}
				env[x] = aSlice{cells[lo:hi], capn - int(lo)}
			case *ssa.Call:
				env[x] = i.doCall(x, get)
			case *ssa.Extract:
				env[x] = get(x.Tuple).([]aval)[x.Index]
			case *ssa.If:
				c, ok := get(x.Cond).(aBool)
				if !ok || c.b.k > 1 {
					i.fail("branch on a data-dependent condition at %s", i.u.Pos(x.Pos()))
				}
				prev = blk
				if c.b.k == 1 {
					blk = blk.Succs[0]
				} else {
					blk = blk.Succs[1]
				}
			case *ssa.Jump:
				prev = blk
				blk = blk.Succs[0]
			case *ssa.Return:
				var out []aval
				for _, r := range x.Results {
					out = append(out, get(r))
				}
				return out
			case *ssa.Panic:
				i.fail("the function panics on this input at %s", i.u.Pos(x.Pos()))
			default:
				i.fail("unmodelled instruction %T at %s", ins, i.u.Pos(ins.Pos()))
			}
			if _, isJ := ins.(*ssa.Jump); isJ {
				break
			}
			if _, isI := ins.(*ssa.If); isI {
				break
			}
		}
	}
}

func copyVal(v aval) aval {
	switch x := v.(type) {
	case aInt:
		return aInt{append(vec{}, x.bits...)}
	case aArr:
		cells := make([]*acell, len(x.cells))
		for k, c := range x.cells {
			cells[k] = &acell{copyVal(c.v)}
		}
		return aArr{cells}
	}
	return v
}

func (i *bpInterp) doCall(x *ssa.Call, get func(ssa.Value) aval) aval {
	if bi, ok := x.Call.Value.(*ssa.Builtin); ok {
		switch bi.Name() {
		case "len":
			switch s := get(x.Call.Args[0]).(type) {
			case aSlice:
				return mkConst(int64(len(s.cells)), 64)
			case aArr:
				return mkConst(int64(len(s.cells)), 64)
			}
		case "cap":
			if s, ok := get(x.Call.Args[0]).(aSlice); ok {
				return mkConst(int64(cap(s.cells)), 64)
			}
		case "append":
			dst, ok := get(x.Call.Args[0]).(aSlice)
			if !ok {
				i.fail("append to %T", get(x.Call.Args[0]))
			}
			cells := append([]*acell{}, dst.cells...)
			if len(x.Call.Args) == 2 {
				src, ok := get(x.Call.Args[1]).(aSlice)
				if !ok {
					i.fail("append of %T", get(x.Call.Args[1]))
				}
				for _, c := range src.cells {
					cells = append(cells, &acell{copyVal(c.v)})
				}
			}
			return aSlice{cells, len(cells)}
		case "copy":
			dst, ok1 := get(x.Call.Args[0]).(aSlice)
			src, ok2 := get(x.Call.Args[1]).(aSlice)
			if !ok1 || !ok2 {
				i.fail("copy")
			}
			n := len(dst.cells)
			if len(src.cells) < n {
				n = len(src.cells)
			}
			for k := 0; k < n; k++ {
				dst.cells[k].v = copyVal(src.cells[k].v)
			}
			return mkConst(int64(n), 64)
		}
		i.fail("builtin %s", bi.Name())
	}
	sc := x.Call.StaticCallee()
	if sc == nil || !i.u.InUniverse(sc) {
		i.fail("call of %s at %s is outside the interpreted code", fullCalleeName(&x.Call), i.u.Pos(x.Pos()))
	}
	var args []aval
	for _, a := range callArgs(&x.Call) {
		args = append(args, get(a))
	}
	res := i.call(sc, args)
	if len(res) == 1 {
		return res[0]
	}
	return res
}

func (i *bpInterp) binop(x *ssa.BinOp, av, bv aval) aval {
	if ab, ok := av.(aBool); ok {
		bb := bv.(aBool)
		switch x.Op {
		case token.EQL, token.NEQ:
			if ab.b.k <= 1 && bb.b.k <= 1 {
				r := (ab.b.k == bb.b.k) == (x.Op == token.EQL)
				if r {
					return aBool{bit{k: 1}}
				}
				return aBool{bit{}}
			}
		}
		i.fail("boolean operator %s on data-dependent values", x.Op)
	}
	a, ok1 := av.(aInt)
	b, ok2 := bv.(aInt)
	if !ok1 || !ok2 {
		i.fail("operator %s on %T, %T", x.Op, av, bv)
	}
	ca, aok := constOf(a)
	cb, bok := constOf(b)
	w := len(a.bits)
	_, signed := intWidth(x.X.Type())
	sext := func(c int64, w int) int64 {
		if signed && w < 64 && c&(1<<uint(w-1)) != 0 {
			return c | ^((1 << uint(w)) - 1)
		}
		return c
	}
	boolC := func(r bool) aval {
		if r {
			return aBool{bit{k: 1}}
		}
		return aBool{bit{}}
	}
	switch x.Op {
	case token.AND, token.OR, token.XOR, token.AND_NOT:
		out := make(vec, w)
		for k := range out {
			out[k] = bitop(x.Op, a.bits[k], b.bits[k])
		}
		return aInt{out}
	case token.SHL, token.SHR:
		if !bok {
			i.fail("data-dependent shift count at %s", i.u.Pos(x.Pos()))
		}
		out := make(vec, w)
		for k := range out {
			j := k - int(cb)
			if x.Op == token.SHR {
				j = k + int(cb)
			}
			switch {
			case j >= 0 && j < w:
				out[k] = a.bits[j]
			case x.Op == token.SHR && signed:
				out[k] = a.bits[w-1]
			}
		}
		return aInt{out}
	case token.ADD:
		if aok && bok {
			return mkConst(ca+cb, w)
		}
		out := make(vec, w)
		for k := range out {
			if a.bits[k].k != 0 && b.bits[k].k != 0 {
				for j := k; j < w; j++ {
					out[j] = bit{k: 3}
				}
				return aInt{out}
			}
			out[k] = bitop(token.OR, a.bits[k], b.bits[k])
		}
		return aInt{out}
	case token.SUB, token.MUL, token.QUO, token.REM:
		if !aok || !bok {
			i.fail("arithmetic %s on data-dependent values at %s", x.Op, i.u.Pos(x.Pos()))
		}
		sa, sb := sext(ca, w), sext(cb, w)
		switch x.Op {
		case token.SUB:
			return mkConst(sa-sb, w)
		case token.MUL:
			return mkConst(sa*sb, w)
		case token.QUO:
			if sb == 0 {
				i.fail("division by zero")
			}
			return mkConst(sa/sb, w)
		default:
			if sb == 0 {
				i.fail("division by zero")
			}
			return mkConst(sa%sb, w)
		}
	case token.EQL, token.NEQ, token.LSS, token.LEQ, token.GTR, token.GEQ:
		if aok && bok {
			sa, sb := sext(ca, w), sext(cb, w)
			if !signed {
				ua, ub := uint64(ca), uint64(cb)
				switch x.Op {
				case token.LSS:
					return boolC(ua < ub)
				case token.LEQ:
					return boolC(ua <= ub)
				case token.GTR:
					return boolC(ua > ub)
				case token.GEQ:
					return boolC(ua >= ub)
				}
			}
			switch x.Op {
			case token.EQL:
				return boolC(sa == sb)
			case token.NEQ:
				return boolC(sa != sb)
			case token.LSS:
				return boolC(sa < sb)
			case token.LEQ:
				return boolC(sa <= sb)
			case token.GTR:
				return boolC(sa > sb)
			default:
				return boolC(sa >= sb)
			}
		}
		if x.Op == token.EQL || x.Op == token.NEQ {
			// equality with a constant when exactly one bit is data-dependent: the result is that bit (or its negation)
			sym, c := a, b
			if aok {
				sym, c = b, a
			}
			if _, ok := constOf(c); ok {
				var res *bit
				for k := range sym.bits {
					sb, cbit := sym.bits[k], c.bits[k]
					switch sb.k {
					case 0, 1:
						if sb.k != cbit.k {
							return boolC(x.Op == token.NEQ) // differs in a constant position
						}
					case 2, 4:
						if res != nil {
							return aBool{bit{k: 3}}
						}
						r := sb
						if (cbit.k == 0) != (sb.k == 4) {
							// equal to 0 means the bit is clear
							if r.k == 2 {
								r.k = 4
							} else {
								r.k = 2
							}
						}
						res = &r
					default:
						return aBool{bit{k: 3}}
					}
				}
				if res != nil {
					if x.Op == token.NEQ {
						if res.k == 2 {
							res.k = 4
						} else {
							res.k = 2
						}
					}
					return aBool{*res}
				}
			}
		}
		return aBool{bit{k: 3}}
	}
	i.fail("operator %s", x.Op)
	return nil
}

// bpRun interprets fn; err != "" when the evaluation is undecided.
func bpRun(u *Universe, fn *ssa.Function, args []aval) (res []aval, err string) {
	it := &bpInterp{u: u}
	defer func() {
		if p := recover(); p != nil {
			if f, ok := p.(bpFail); ok {
				err = f.msg
				return
			}
			if e, ok := p.(error); ok {
				err = "internal: " + e.Error()
				return
			}
			err = fmt.Sprintf("internal: %v", p)
		}
	}()
	return it.call(fn, args), ""
}

// symSlice: n symbolic bytes, input ids base..base+n-1.
func symSlice(n, w int) aSlice {
	cells := make([]*acell, n)
	for k := range cells {
		cells[k] = &acell{symInput(k, w)}
	}
	return aSlice{cells, n}
}

func sliceBits(v aval) (vec, int, string) {
	s, ok := v.(aSlice)
	if !ok {
		return nil, 0, fmt.Sprintf("result is %T, not a slice", v)
	}
	var out vec
	for _, c := range s.cells {
		iv, ok := c.v.(aInt)
		if !ok || len(iv.bits) != 8 {
			return nil, 0, "result elements are not bytes"
		}
		out = append(out, iv.bits...)
	}
	return out, len(s.cells), ""
}
