package main

// BP — bit provenance (DESIGN.md §4): an abstract interpretation of the
// mask/shift/or expressions of internal/bitpack in which every bit of a value
// is 0, 1, "bit b of input element i", or unknown. Decides C17 for all
// 2^8+4^8+8^8+16^8 groups exactly, without enumerating any of them.

import (
	"fmt"
	"go/ast"
	"go/constant"
	"go/token"
	"go/types"
	"strings"

	"golang.org/x/tools/go/packages"
	"golang.org/x/tools/go/ssa"
)

func init() {
	register("C17", "proof", LoadOpts{SSA: true}, checkC17)
}

type bit struct{ k, i, b int } // k: 0 zero, 1 one, 2 in(i,b), 3 unknown

func (x bit) String() string {
	switch x.k {
	case 0:
		return "0"
	case 1:
		return "1"
	case 2:
		return fmt.Sprintf("in(%d,%d)", x.i, x.b)
	case 4:
		return fmt.Sprintf("!in(%d,%d)", x.i, x.b)
	}
	return "⊤"
}

type vec []bit // LSB first

func constVec(v uint64, w int) vec {
	out := make(vec, w)
	for i := 0; i < w && i < 64; i++ {
		if v>>uint(i)&1 == 1 {
			out[i] = bit{k: 1}
		}
	}
	return out
}

func uwidth(t types.Type) int {
	b, ok := t.Underlying().(*types.Basic)
	if !ok {
		return 0
	}
	switch b.Kind() {
	case types.Uint8:
		return 8
	case types.Uint16:
		return 16
	case types.Uint32:
		return 32
	case types.Uint64, types.Uint, types.Uintptr:
		return 64
	case types.Int8:
		return -8
	case types.Int16:
		return -16
	case types.Int32:
		return -32
	case types.Int64, types.Int, types.UntypedInt:
		return -64
	}
	return 0
}

type bpEval struct {
	info    *types.Info
	input   types.Object          // the input slice parameter
	scalars map[types.Object]bool // identifiers denoting the (single) scalar input: bit b of it is in(0,b)
}

func (e *bpEval) eval(x ast.Expr) (vec, error) {
	tv := e.info.Types[x]
	w := uwidth(tv.Type)
	if tv.Value != nil && tv.Value.Kind() == constant.Int {
		u, ok := constant.Uint64Val(tv.Value)
		if !ok {
			return nil, fmt.Errorf("negative or oversized constant %s", tv.Value)
		}
		if w == 0 {
			w = 64
		}
		if w < 0 {
			w = -w
		}
		return constVec(u, w), nil
	}
	if w <= 0 {
		return nil, fmt.Errorf("expression of non-unsigned type %v", tv.Type)
	}
	switch n := x.(type) {
	case *ast.ParenExpr:
		return e.eval(n.X)
	case *ast.Ident:
		if e.scalars != nil && e.scalars[e.info.Uses[n]] {
			out := make(vec, w)
			for b := 0; b < w; b++ {
				out[b] = bit{k: 2, i: 0, b: b}
			}
			return out, nil
		}
		return nil, fmt.Errorf("identifier %s is not the input", n.Name)
	case *ast.IndexExpr:
		id, ok := n.X.(*ast.Ident)
		if !ok || e.info.Uses[id] != e.input {
			return nil, fmt.Errorf("index of something other than the input slice")
		}
		itv := e.info.Types[n.Index]
		if itv.Value == nil {
			return nil, fmt.Errorf("non-constant index")
		}
		i, _ := constant.Int64Val(itv.Value)
		out := make(vec, w)
		for b := 0; b < w; b++ {
			out[b] = bit{k: 2, i: int(i), b: b}
		}
		return out, nil
	case *ast.CallExpr:
		if len(n.Args) == 1 && e.info.Types[n.Fun].IsType() {
			a, err := e.eval(n.Args[0])
			if err != nil {
				return nil, err
			}
			out := make(vec, w)
			copy(out, a) // truncate or zero-extend (operand is unsigned or a non-negative constant)
			return out, nil
		}
		return nil, fmt.Errorf("function call in a bit expression")
	case *ast.BinaryExpr:
		switch n.Op {
		case token.SHL, token.SHR:
			a, err := e.eval(n.X)
			if err != nil {
				return nil, err
			}
			stv := e.info.Types[n.Y]
			if stv.Value == nil {
				return nil, fmt.Errorf("non-constant shift count")
			}
			s64, _ := constant.Int64Val(stv.Value)
			s := int(s64)
			out := make(vec, len(a))
			for i := range out {
				j := i - s
				if n.Op == token.SHR {
					j = i + s
				}
				if j >= 0 && j < len(a) {
					out[i] = a[j]
				}
			}
			return out, nil
		case token.AND, token.OR, token.XOR, token.AND_NOT:
			a, err := e.eval(n.X)
			if err != nil {
				return nil, err
			}
			b, err := e.eval(n.Y)
			if err != nil {
				return nil, err
			}
			if len(a) != len(b) {
				// an untyped constant operand takes the other operand's width
				if len(a) > len(b) && e.info.Types[n.Y].Value != nil {
					a = a[:len(b)]
				} else if len(b) > len(a) && e.info.Types[n.X].Value != nil {
					b = b[:len(a)]
				} else {
					return nil, fmt.Errorf("operand width mismatch")
				}
			}
			out := make(vec, len(a))
			for i := range a {
				out[i] = bitop(n.Op, a[i], b[i])
			}
			return out, nil
		}
		return nil, fmt.Errorf("operator %s is not a pure bit operation", n.Op)
	}
	return nil, fmt.Errorf("unsupported expression %T", x)
}

func bitop(o token.Token, a, b bit) bit {
	top := bit{k: 3}
	switch o {
	case token.AND:
		if a.k == 0 || b.k == 0 {
			return bit{}
		}
		if a.k == 1 {
			return b
		}
		if b.k == 1 {
			return a
		}
		if a == b {
			return a
		}
		return top
	case token.OR:
		if a.k == 1 || b.k == 1 {
			return bit{k: 1}
		}
		if a.k == 0 {
			return b
		}
		if b.k == 0 {
			return a
		}
		if a == b {
			return a
		}
		return top
	case token.XOR:
		if a.k == 0 {
			return b
		}
		if b.k == 0 {
			return a
		}
		return top
	case token.AND_NOT:
		if b.k == 0 {
			return a
		}
		if b.k == 1 || a.k == 0 {
			return bit{}
		}
		return top
	}
	return top
}

func findFuncDecl(p *packages.Package, name string) *ast.FuncDecl {
	for _, f := range p.Syntax {
		for _, d := range f.Decls {
			if fd, ok := d.(*ast.FuncDecl); ok && fd.Recv == nil && fd.Name.Name == name {
				return fd
			}
		}
	}
	return nil
}

func declOf(p *packages.Package, obj types.Object) *ast.FuncDecl {
	for _, f := range p.Syntax {
		for _, d := range f.Decls {
			if fd, ok := d.(*ast.FuncDecl); ok && p.TypesInfo.Defs[fd.Name] == obj {
				return fd
			}
		}
	}
	return nil
}

// dispatch reads `switch width { case W: return f(args) }` in Pack/Unpack.
func bpDispatch(c *Ctx, p *packages.Package, entry string) (map[int]*ast.FuncDecl, int) {
	r, u := c.R, c.U
	out := map[int]*ast.FuncDecl{}
	fd := findFuncDecl(p, entry)
	if fd == nil {
		r.failf("bitpack.%s not found", entry)
		return out, 0
	}
	var sw *ast.SwitchStmt
	for _, st := range fd.Body.List {
		if s, ok := st.(*ast.SwitchStmt); ok {
			sw = s
		}
	}
	if sw == nil || len(fd.Body.List) != 1 {
		r.undecided("BP/dispatch", entry, u.Pos(fd.Pos()), "body is not a single switch on the width")
		return out, 0
	}
	tag, _ := sw.Tag.(*ast.Ident)
	if tag == nil {
		r.undecided("BP/dispatch", entry, u.Pos(fd.Pos()), "switch tag is not the width parameter")
		return out, 0
	}
	cases := 0
	for _, cl := range sw.Body.List {
		cc := cl.(*ast.CaseClause)
		if cc.List == nil {
			continue // default: widths outside 1..4
		}
		for _, ce := range cc.List {
			cases++
			tv := p.TypesInfo.Types[ce]
			key := fmt.Sprintf("%s case %s", entry, types.ExprString(ce))
			if tv.Value == nil || len(cc.Body) != 1 {
				r.undecided("BP/dispatch", key, u.Pos(cc.Pos()), "case is not `case <const>: return f(...)`")
				continue
			}
			w64, _ := constant.Int64Val(tv.Value)
			ret, ok := cc.Body[0].(*ast.ReturnStmt)
			if !ok || len(ret.Results) != 1 {
				r.undecided("BP/dispatch", key, u.Pos(cc.Pos()), "case body is not a single return")
				continue
			}
			call, ok := ret.Results[0].(*ast.CallExpr)
			if !ok {
				r.undecided("BP/dispatch", key, u.Pos(cc.Pos()), "case does not return a call")
				continue
			}
			id, _ := call.Fun.(*ast.Ident)
			var callee *ast.FuncDecl
			if id != nil {
				callee = declOf(p, p.TypesInfo.Uses[id])
			}
			if callee == nil {
				r.undecided("BP/dispatch", key, u.Pos(cc.Pos()), "callee is not a package-level function")
				continue
			}
			// arguments must be the entry's own parameters, in order, minus the width
			var want []types.Object
			for _, f := range fd.Type.Params.List {
				for _, n := range f.Names {
					if p.TypesInfo.Defs[n] != p.TypesInfo.Uses[tag] {
						want = append(want, p.TypesInfo.Defs[n])
					}
				}
			}
			okArgs := len(call.Args) == len(want)
			for i := 0; okArgs && i < len(want); i++ {
				aid, _ := call.Args[i].(*ast.Ident)
				okArgs = aid != nil && p.TypesInfo.Uses[aid] == want[i]
			}
			if !okArgs {
				r.bad("BP/dispatch", key, u.Pos(cc.Pos()), "dispatch does not forward the entry's own buffer/values unchanged")
				continue
			}
			out[int(w64)] = callee
		}
	}
	return out, cases
}

func checkC17(c *Ctx) {
	c.R.Explanation = "Bit-provenance abstract interpretation of internal/bitpack over go/ssa (entry points Pack and Unpack interpreted for each width on fully symbolic inputs; loops and helpers are followed, data-dependent branches make the result undecided): every output bit is evaluated to 0, 1, 'bit b of input element i' or unknown; obligations: pack_W output bit 8j+k is exactly input bit (i,b) with i*W+b = 8j+k (LSB-first little-endian), depends on no bit >= W; unpack_W element i bit b<W is stream bit i*W+b, higher bits 0; the two maps are mutually inverse bijections; Pack/Unpack dispatch case W to the function proven for W; the call sites in rle pass an 8-element buffer and the same width on both sides."
	bpCore(c)
	// ... and the reader's call site hands every group of a bit-packed run to that unpacker
	laRLEDecoder(c, map[string]bool{"unpack-all": true})
	laNarrowIndex(c)
	c.R.Extra["checker_cmd"] = "/verif/bin/verif check C17"
	c.R.Extra["trusted_base"] = []string{"go/parser, go/types and go/constant (parsing, typing, constant evaluation of masks and shift counts)",
		"the abstract interpreter over go/ssa in /verif/checker/bpssa.go (about 550 lines: bit-level transfer functions for & | ^ &^ << >> + conversions, constant arithmetic for data-independent values, slices/arrays/append, calls, phis)",
		"go/ssa's translation of the package to SSA form"}
	c.R.assume("C17's statement about 8-value groups of width 1-4; width 0 and widths > 4 are dispatched to the default cases (no bytes / empty slice) and are outside the property")
}

// bpCore emits the BP obligations (shared by C17 and C07). The entry points Pack and Unpack are interpreted abstractly
// (bpssa.go) for each width on fully symbolic inputs, so the verdict does not depend on how the package is written.
func bpCore(c *Ctx) {
	r, u := c.R, c.U
	pack := u.Func(bitpackPath, "Pack")
	unpack := u.Func(bitpackPath, "Unpack")
	if pack == nil || unpack == nil || len(pack.Params) != 3 || len(unpack.Params) != 2 {
		r.failf("bitpack.Pack(b, width, vals) / bitpack.Unpack(width, vals) not found")
		return
	}
	packMap := map[int]vec{}
	unpackMap := map[int]vec{}
	for w := 1; w <= 4; w++ {
		// Pack(nil, w, vals[0..7])
		res, err := bpRun(u, pack, []aval{aSlice{}, mkConst(int64(w), 64), symSlice(8, 8)})
		key := fmt.Sprintf("Pack width %d", w)
		pos := u.Pos(pack.Pos())
		if err != "" {
			r.undecided("BP/shape", key, pos, "abstract interpretation of Pack is undecided: "+err)
		} else {
			stream, n, e2 := sliceBits(res[0])
			r.count("BP/functions", 1)
			switch {
			case e2 != "":
				r.undecided("BP/shape", key, pos, e2)
			default:
				if n != w {
					r.bad("BP/len", key, pos, fmt.Sprintf("appends %d bytes, a width-%d group is %d bytes", n, w, w))
				} else {
					r.ok("BP/len", key, pos, fmt.Sprintf("appends %d bytes", n))
				}
				for p := 0; p < 8*w; p++ {
					k := fmt.Sprintf("Pack width %d stream bit %d", w, p)
					want := bit{k: 2, i: p / w, b: p % w}
					got := bit{k: 3}
					if p < len(stream) {
						got = stream[p]
					}
					r.count("BP/bits", 1)
					if got != want {
						r.bad("BP/bit", k, pos, fmt.Sprintf("is %s, must be %s (bit %d of value %d)", got, want, p%w, p/w))
					} else {
						r.ok("BP/bit", k, pos, "is "+got.String())
					}
				}
				packMap[w] = stream
			}
		}
		// Unpack(w, bytes[0..w-1])
		res, err = bpRun(u, unpack, []aval{mkConst(int64(w), 64), symSlice(w, 8)})
		key = fmt.Sprintf("Unpack width %d", w)
		pos = u.Pos(unpack.Pos())
		if err != "" {
			r.undecided("BP/shape", key, pos, "abstract interpretation of Unpack is undecided: "+err)
			continue
		}
		stream, n, e2 := sliceBits(res[0])
		r.count("BP/functions", 1)
		if e2 != "" {
			r.undecided("BP/shape", key, pos, e2)
			continue
		}
		if n != 8 {
			r.bad("BP/len", key, pos, fmt.Sprintf("returns %d elements, a group has 8", n))
		} else {
			r.ok("BP/len", key, pos, "returns 8 elements")
		}
		for i := 0; i < 8; i++ {
			for b := 0; b < 8; b++ {
				k := fmt.Sprintf("Unpack width %d element %d bit %d", w, i, b)
				var want bit
				if b < w {
					sp := i*w + b
					want = bit{k: 2, i: sp / 8, b: sp % 8}
				}
				got := bit{k: 3}
				if i*8+b < len(stream) {
					got = stream[i*8+b]
				}
				r.count("BP/bits", 1)
				if got != want {
					r.bad("BP/bit", k, pos, fmt.Sprintf("is %s, must be %s", got, want))
				} else {
					r.ok("BP/bit", k, pos, "is "+got.String())
				}
			}
		}
		unpackMap[w] = stream
		// inverse check, from the two computed maps (not assumed)
		pk, up := packMap[w], unpackMap[w]
		if len(pk) == 8*w && len(up) == 64 {
			okInv, why := true, ""
			for i := 0; i < 8 && okInv; i++ {
				for b := 0; b < w; b++ {
					s := up[i*8+b]
					if s.k != 2 || s.i*8+s.b >= len(pk) {
						okInv, why = false, fmt.Sprintf("element %d bit %d does not come from the stream", i, b)
						break
					}
					if src := pk[s.i*8+s.b]; src != (bit{k: 2, i: i, b: b}) {
						okInv, why = false, fmt.Sprintf("unpack(pack(v))[%d] bit %d is %s", i, b, src)
						break
					}
				}
			}
			for p := 0; p < 8*w && okInv; p++ {
				s := pk[p]
				if s.k != 2 {
					okInv, why = false, fmt.Sprintf("stream bit %d is not an input bit", p)
					break
				}
				if src := up[s.i*8+s.b]; src != (bit{k: 2, i: p / 8, b: p % 8}) {
					okInv, why = false, fmt.Sprintf("pack(unpack(bytes)) bit %d is %s", p, src)
				}
			}
			if okInv {
				r.ok("BP/inverse", fmt.Sprintf("width %d", w), "", "unpack∘pack = id on W-bit values and pack∘unpack = id on W-byte groups")
			} else {
				r.bad("BP/inverse", fmt.Sprintf("width %d", w), "", why)
			}
		}
	}
	bpCallSitesSSA(c)
	r.floor("BP/bits", 336, "80 pack stream bits + 256 unpack element bits")
	r.floor("BP/functions", 8, "Pack and Unpack for widths 1..4")
	r.floor("BP/callsites", 2, "Pack in the encoder, Unpack in the decoder")
}

// bpCallSitesSSA: the encoder hands Pack an 8-element value buffer and its configured width; the decoder hands Unpack
// exactly `width` bytes and the same configured width (the same field of the RLE object on both sides).
func bpCallSitesSSA(c *Ctx) {
	r, u := c.R, c.U
	// rootField: the struct field a width value is read from, looking through conversions, locals and — for a
	// parameter — the arguments at every call site of the function
	var rootField func(v ssa.Value, depth int) (*types.Var, string)
	rootField = func(v ssa.Value, depth int) (*types.Var, string) {
		if depth > 6 {
			return nil, "too deep"
		}
		switch x := v.(type) {
		case *ssa.Convert:
			return rootField(x.X, depth+1)
		case *ssa.UnOp:
			if f := fieldOfLoad(x); f != nil {
				return f, ""
			}
		case *ssa.Parameter:
			fn := x.Parent()
			idx := -1
			for i, p := range fn.Params {
				if p == x {
					idx = i
				}
			}
			var fld *types.Var
			n := 0
			for _, cs := range callersOf(fn) {
				f2, why := rootField(callArgs(cs.Common())[idx], depth+1)
				if f2 == nil {
					return nil, why
				}
				if fld != nil && fld != f2 {
					return nil, "callers pass different fields"
				}
				fld = f2
				n++
			}
			if n == 0 {
				return nil, "no call site of " + fn.Name()
			}
			return fld, ""
		case *ssa.Phi:
			var fld *types.Var
			for _, e := range x.Edges {
				f2, why := rootField(e, depth+1)
				if f2 == nil {
					return nil, why
				}
				if fld != nil && fld != f2 {
					return nil, "phi of different fields"
				}
				fld = f2
			}
			return fld, ""
		}
		return nil, "width is " + symExpr(v, 0)
	}
	var encW, decW *types.Var
	for _, f := range rleFuncs(u) {
		for _, call := range callsTo(f, bitpackPackName) {
			r.count("BP/callsites", 1)
			key := "rle." + f.Name() + " -> bitpack.Pack"
			pos := u.Pos(call.Pos())
			fw, why := rootField(call.Call.Args[1], 0)
			if fw == nil {
				r.bad("BP/callsite", key+" width", pos, "the width handed to Pack is not the encoder's configured bit width: "+why)
			} else {
				encW = fw
				r.ok("BP/callsite", key+" width", pos, "width = field "+fw.Name()+" of the encoder")
			}
			fb := fieldOfLoad(call.Call.Args[2])
			if fb == nil {
				r.undecided("BP/callsite", key+" values", pos, "values argument is not a field of the encoder: "+symExpr(call.Call.Args[2], 0))
				continue
			}
			ctor, other := storesTo(u, fb)
			bad := ""
			n := -1
			for _, st := range ctor {
				n = fixedBufLen(st.Val)
			}
			if len(other) > 0 {
				bad = "the value buffer field is reassigned at " + u.Pos(other[0].Pos())
			}
			for _, g := range rleFuncs(u) {
				for _, b := range g.Blocks {
					for _, ins := range b.Instrs {
						if sl, ok := ins.(*ssa.Slice); ok && fieldOfLoad(sl.X) == fb && (sl.Low != nil || sl.High != nil) {
							bad = "the value buffer field is resliced at " + u.Pos(sl.Pos())
						}
					}
				}
			}
			switch {
			case bad != "":
				r.bad("BP/callsite", key+" values", pos, bad)
			case n != 8:
				r.bad("BP/callsite", key+" values", pos, fmt.Sprintf("the value buffer has %d elements, a group has 8", n))
			default:
				r.ok("BP/callsite", key+" values", pos, "field "+fb.Name()+" = make([]uint8, 8), never reassigned or resliced")
			}
		}
		for _, call := range callsTo(f, bitpackUnpackName) {
			r.count("BP/callsites", 1)
			key := "rle." + f.Name() + " -> bitpack.Unpack"
			pos := u.Pos(call.Pos())
			sl, _ := call.Call.Args[1].(*ssa.Slice)
			same := false
			if sl != nil && sl.High != nil {
				lowZero := sl.Low == nil || constIs(sl.Low, 0)
				same = lowZero && stripConvert(sl.High) == stripConvert(call.Call.Args[0])
				if !same && lowZero {
					// both are conversions of the same width value through different locals
					same = symExpr(stripConvert(sl.High), 0) == symExpr(stripConvert(call.Call.Args[0]), 0)
				}
			}
			if !same && sl != nil && sl.High != nil && sl.Low != nil {
				// buf[off : off+width]: the length is what counts
				if hi, ok := stripConvert(sl.High).(*ssa.BinOp); ok && hi.Op == token.ADD {
					wsym := symExpr(stripConvert(call.Call.Args[0]), 0)
					lo := stripConvert(sl.Low)
					if (hi.X == lo && symExpr(stripConvert(hi.Y), 0) == wsym) || (hi.Y == lo && symExpr(stripConvert(hi.X), 0) == wsym) {
						same = true
					}
				}
			}
			if !same {
				r.bad("BP/callsite", key+" bytes", pos, "Unpack must receive buf[:width] with the same width it is told")
			} else {
				r.ok("BP/callsite", key+" bytes", pos, "Unpack(width, buf[:width])")
			}
			fw, why := rootField(call.Call.Args[0], 0)
			if fw == nil {
				r.bad("BP/callsite", key+" width", pos, "the width handed to Unpack is not the decoder's configured bit width: "+why)
			} else {
				decW = fw
				r.ok("BP/callsite", key+" width", pos, "width = field "+fw.Name()+" of the decoder")
			}
		}
	}
	if encW != nil && decW != nil {
		if encW == decW {
			r.ok("BP/callsite", "same width field on both sides", "", "encoder and decoder take the width from the same field "+encW.Name())
		} else {
			r.bad("BP/callsite", "same width field on both sides", "", "encoder width comes from "+encW.Name()+", decoder width from "+decW.Name())
		}
	}
}

// bpStream evaluates the single return statement of a pack/unpack function.
func bpStream(p *packages.Package, fd *ast.FuncDecl, isPack bool) (vec, int, error) {
	if len(fd.Body.List) != 1 {
		return nil, 0, fmt.Errorf("body is not a single return statement")
	}
	ret, ok := fd.Body.List[0].(*ast.ReturnStmt)
	if !ok || len(ret.Results) != 1 {
		return nil, 0, fmt.Errorf("body is not a single return statement")
	}
	var params []types.Object
	for _, f := range fd.Type.Params.List {
		for _, n := range f.Names {
			params = append(params, p.TypesInfo.Defs[n])
		}
	}
	var elems []ast.Expr
	e := &bpEval{info: p.TypesInfo}
	if isPack {
		call, ok := ret.Results[0].(*ast.CallExpr)
		if !ok {
			return nil, 0, fmt.Errorf("pack function does not return append(b, …)")
		}
		id, _ := call.Fun.(*ast.Ident)
		if id == nil || id.Name != "append" || p.TypesInfo.Uses[id] != types.Universe.Lookup("append") || len(call.Args) < 1 || len(params) != 2 {
			return nil, 0, fmt.Errorf("pack function does not return append(b, …)")
		}
		dst, _ := call.Args[0].(*ast.Ident)
		if dst == nil || p.TypesInfo.Uses[dst] != params[0] || call.Ellipsis.IsValid() {
			return nil, 0, fmt.Errorf("pack function must append to its buffer parameter")
		}
		e.input = params[1]
		elems = call.Args[1:]
	} else {
		lit, ok := ret.Results[0].(*ast.CompositeLit)
		if !ok || len(params) != 1 {
			return nil, 0, fmt.Errorf("unpack function does not return a slice literal")
		}
		if _, isSlice := p.TypesInfo.Types[lit].Type.Underlying().(*types.Slice); !isSlice {
			return nil, 0, fmt.Errorf("unpack function does not return a slice literal")
		}
		e.input = params[0]
		for _, el := range lit.Elts {
			if _, kv := el.(*ast.KeyValueExpr); kv {
				return nil, 0, fmt.Errorf("keyed slice literal")
			}
		}
		elems = lit.Elts
	}
	var stream vec
	for i, el := range elems {
		v, err := e.eval(el)
		if err != nil {
			return nil, 0, fmt.Errorf("element %d: %v", i, err)
		}
		if len(v) != 8 {
			return nil, 0, fmt.Errorf("element %d has width %d, want 8", i, len(v))
		}
		stream = append(stream, v...)
	}
	return stream, len(elems), nil
}

func stripConv(info *types.Info, x ast.Expr) ast.Expr {
	for {
		switch n := x.(type) {
		case *ast.ParenExpr:
			x = n.X
			continue
		case *ast.CallExpr:
			if len(n.Args) == 1 && info.Types[n.Fun].IsType() {
				x = n.Args[0]
				continue
			}
		}
		return x
	}
}

// bpCallSites: Pack gets the 8-element value buffer and the encoder's width;
// Unpack gets exactly `width` bytes and the same width (DESIGN.md BP obligation 5).
func bpCallSites(c *Ctx, rl, bp *packages.Package) {
	r, u := c.R, c.U
	info := rl.TypesInfo
	packObj := bp.Types.Scope().Lookup("Pack")
	unpackObj := bp.Types.Scope().Lookup("Unpack")
	isBitWidthField := func(x ast.Expr) bool {
		sel, ok := stripConv(info, x).(*ast.SelectorExpr)
		if !ok {
			return false
		}
		v, ok := info.Uses[sel.Sel].(*types.Var)
		return ok && v.IsField() && v.Name() == "bitWidth"
	}
	for _, f := range rl.Syntax {
		for _, d := range f.Decls {
			fd, ok := d.(*ast.FuncDecl)
			if !ok || fd.Body == nil {
				continue
			}
			ast.Inspect(fd.Body, func(n ast.Node) bool {
				call, ok := n.(*ast.CallExpr)
				if !ok {
					return true
				}
				sel, ok := call.Fun.(*ast.SelectorExpr)
				if !ok {
					return true
				}
				obj := info.Uses[sel.Sel]
				switch obj {
				case packObj:
					r.count("BP/callsites", 1)
					key := "rle." + fd.Name.Name + " -> bitpack.Pack"
					pos := u.Pos(call.Pos())
					if len(call.Args) != 3 || !isBitWidthField(call.Args[1]) {
						r.bad("BP/callsite", key+" width", pos, "width argument is not the encoder's bitWidth field")
					} else {
						r.ok("BP/callsite", key+" width", pos, "width = "+types.ExprString(call.Args[1]))
					}
					// values buffer: a field allocated once with make([]uint8, 8) and never resliced or reassigned
					vsel, ok := call.Args[2].(*ast.SelectorExpr)
					var fld *types.Var
					if ok {
						fld, _ = info.Uses[vsel.Sel].(*types.Var)
					}
					if fld == nil || !fld.IsField() {
						r.undecided("BP/callsite", key+" values", pos, "values argument is not a struct field")
						return true
					}
					n8, bad := bufferFieldLen(rl, fld)
					if bad != "" {
						r.bad("BP/callsite", key+" values", pos, bad)
					} else if n8 != 8 {
						r.bad("BP/callsite", key+" values", pos, fmt.Sprintf("value buffer has %d elements, a group has 8", n8))
					} else {
						r.ok("BP/callsite", key+" values", pos, "field "+fld.Name()+" = make([]uint8, 8), never reassigned or resliced")
					}
				case unpackObj:
					r.count("BP/callsites", 1)
					key := "rle." + fd.Name.Name + " -> bitpack.Unpack"
					pos := u.Pos(call.Pos())
					if len(call.Args) != 2 {
						r.bad("BP/callsite", key, pos, "unexpected arity")
						return true
					}
					w1, _ := stripConv(info, call.Args[0]).(*ast.Ident)
					sl, _ := call.Args[1].(*ast.SliceExpr)
					var w2 *ast.Ident
					if sl != nil && sl.Low == nil && sl.High != nil && sl.Max == nil {
						w2, _ = stripConv(info, sl.High).(*ast.Ident)
					}
					if w1 == nil || w2 == nil || info.Uses[w1] != info.Uses[w2] {
						r.bad("BP/callsite", key+" bytes", pos, "Unpack must receive buf[:width] with the same width it is told")
					} else {
						r.ok("BP/callsite", key+" bytes", pos, "Unpack(width, buf[:width])")
					}
					// the width parameter must be fed from the decoder's bitWidth field at every call of this function
					if w1 != nil {
						wobj := info.Uses[w1]
						idx := -1
						k := 0
						for _, pf := range fd.Type.Params.List {
							for _, pn := range pf.Names {
								if info.Defs[pn] == wobj {
									idx = k
								}
								k++
							}
						}
						if idx < 0 {
							r.undecided("BP/callsite", key+" width", pos, "width is not a parameter of the enclosing function")
							return true
						}
						fobj := info.Defs[fd.Name]
						nCalls, okAll := 0, true
						for _, f2 := range rl.Syntax {
							ast.Inspect(f2, func(m ast.Node) bool {
								c2, ok := m.(*ast.CallExpr)
								if !ok {
									return true
								}
								if id, ok := c2.Fun.(*ast.Ident); ok && info.Uses[id] == fobj {
									nCalls++
									if idx >= len(c2.Args) || !isBitWidthField(c2.Args[idx]) {
										okAll = false
									}
								}
								return true
							})
						}
						if nCalls == 0 || !okAll {
							r.bad("BP/callsite", key+" width", pos, "decoder width does not come from the bitWidth field at every call of "+fd.Name.Name)
						} else {
							r.ok("BP/callsite", key+" width", pos, fmt.Sprintf("width parameter fed from bitWidth at %d call site(s)", nCalls))
						}
					}
				}
				return true
			})
		}
	}
}

// bufferFieldLen: the field is assigned only in composite literals as make([]T, N) with constant N,
// and is never resliced, appended to or reassigned. Returns N.
func bufferFieldLen(p *packages.Package, fld *types.Var) (int, string) {
	info := p.TypesInfo
	n := -1
	bad := ""
	for _, f := range p.Syntax {
		ast.Inspect(f, func(node ast.Node) bool {
			switch x := node.(type) {
			case *ast.KeyValueExpr:
				if id, ok := x.Key.(*ast.Ident); ok && info.Uses[id] == fld {
					call, ok := x.Value.(*ast.CallExpr)
					mk, _ := func() (*ast.Ident, bool) {
						if !ok {
							return nil, false
						}
						id, ok := call.Fun.(*ast.Ident)
						return id, ok
					}()
					if mk == nil || mk.Name != "make" || len(call.Args) != 2 || info.Types[call.Args[1]].Value == nil {
						bad = "buffer field initialised by something other than make([]T, <const>)"
						return true
					}
					v, _ := constant.Int64Val(info.Types[call.Args[1]].Value)
					n = int(v)
				}
			case *ast.AssignStmt:
				for _, l := range x.Lhs {
					if sel, ok := l.(*ast.SelectorExpr); ok && info.Uses[sel.Sel] == fld {
						bad = "buffer field is reassigned at " + strings.TrimSpace(p.Fset.Position(x.Pos()).String())
					}
				}
			case *ast.SliceExpr:
				if sel, ok := x.X.(*ast.SelectorExpr); ok && info.Uses[sel.Sel] == fld {
					bad = "buffer field is resliced"
				}
			}
			return true
		})
	}
	if n < 0 && bad == "" {
		bad = "buffer field allocation not found"
	}
	return n, bad
}
