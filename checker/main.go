package main

import (
	"encoding/json"
	"fmt"
	"os"
	"runtime/debug"
	"sort"
	"strconv"
)

type Ctx struct {
	Prop string
	Tier string
	Seed int64
	R    *Report
	U    *Universe
}

type checkDef struct {
	level string
	load  LoadOpts
	run   func(c *Ctx)
}

var checks = map[string]checkDef{}

func register(id, level string, load LoadOpts, run func(c *Ctx)) {
	checks[id] = checkDef{level, load, run}
}

func usage() {
	fmt.Fprintln(os.Stderr, "usage: verif check <Cnn> [--tier quick|thorough] | verif explain <violation.json> | verif list")
	os.Exit(2)
}

func main() {
	if len(os.Args) < 2 {
		usage()
	}
	switch os.Args[1] {
	case "list":
		var ids []string
		for id := range checks {
			ids = append(ids, id)
		}
		sort.Strings(ids)
		for _, id := range ids {
			fmt.Println(id, checks[id].level)
		}
	case "check":
		if len(os.Args) < 3 {
			usage()
		}
		id := os.Args[2]
		tier := os.Getenv("VERIF_TIER")
		for i := 3; i < len(os.Args); i++ {
			if os.Args[i] == "--tier" && i+1 < len(os.Args) {
				tier = os.Args[i+1]
				i++
			}
		}
		if tier != "thorough" {
			tier = "quick"
		}
		os.Exit(runCheck(id, tier))
	case "explain":
		if len(os.Args) < 3 {
			usage()
		}
		os.Exit(explain(os.Args[2]))
	case "corpus":
		os.Exit(corpusCmd(os.Args[2:]))
	default:
		usage()
	}
}

func runCheck(id, tier string) (code int) {
	def, ok := checks[id]
	if !ok {
		fmt.Fprintf(os.Stderr, "no check for %s\n", id)
		return 2
	}
	seed, _ := strconv.ParseInt(os.Getenv("VERIF_SEED"), 10, 64)
	r := newReport(id, tier, seed, def.level)
	c := &Ctx{Prop: id, Tier: tier, Seed: seed, R: r}
	verif := verifDir()
	defer func() {
		if p := recover(); p != nil {
			r.failf("analyser panic: %v\n%s", p, debug.Stack())
			code = r.finish(verif)
		}
		if c.U != nil {
			c.U.Close()
		}
	}()
	u, err := loadUniverse(def.load)
	if err != nil {
		r.failf("universe: %v", err)
		return r.finish(verif)
	}
	c.U = u
	r.Analysed["packages"] = len(u.uni)
	r.Analysed["functions"] = len(u.Funcs)
	r.Extra["load_s"] = u.LoadSecs
	def.run(c)
	return r.finish(verif)
}

// explain re-derives the obligation stored in a violation record and prints it.
func explain(path string) int {
	b, err := os.ReadFile(path)
	if err != nil {
		fmt.Fprintln(os.Stderr, err)
		return 2
	}
	var rec struct {
		Property string          `json:"property"`
		Tier     string          `json:"tier"`
		Kind     string          `json:"kind"`
		Record   json.RawMessage `json:"record"`
	}
	if err := json.Unmarshal(b, &rec); err != nil {
		fmt.Fprintln(os.Stderr, err)
		return 2
	}
	fmt.Printf("stored record (%s, %s tier, %s):\n%s\n\nre-running the check on the current tree:\n", rec.Property, rec.Tier, rec.Kind, rec.Record)
	return runCheck(rec.Property, rec.Tier)
}
