package main

// LA-structs (C15): the depth-first reconstruction of nested struct types from the footer's schema list
// (structs.getStruct). The schema is a pre-order list in which each group says how many children it has; the
// reconstruction keeps two counters — children of this group seen (i) and elements consumed by nested groups (j).
// Necessary conditions decided here, for every schema list: the k-th child is taken at offset i+j, a nested group
// recurses on the list right behind itself (offset i+j+1), its consumption is added to j, i advances by one per child,
// the loop runs over num_children children and the function reports i+j elements consumed.

import (
	"fmt"
	"go/constant"
	"go/token"
	"strings"

	"golang.org/x/tools/go/ssa"
)

// linIJ: v as a*i + b*j + k over the two counters (integer conversions transparent).
func linIJ(v ssa.Value, i, j ssa.Value, depth int) (a, b, k int64, ok bool) {
	if depth > 8 {
		return 0, 0, 0, false
	}
	v = stripConvert(v)
	switch {
	case v == i:
		return 1, 0, 0, true
	case v == j:
		return 0, 1, 0, true
	}
	switch x := v.(type) {
	case *ssa.Const:
		if x.Value != nil && x.Value.Kind() == constant.Int {
			kv, _ := constant.Int64Val(x.Value)
			return 0, 0, kv, true
		}
	case *ssa.BinOp:
		a1, b1, k1, ok1 := linIJ(x.X, i, j, depth+1)
		a2, b2, k2, ok2 := linIJ(x.Y, i, j, depth+1)
		if ok1 && ok2 {
			switch x.Op {
			case token.ADD:
				return a1 + a2, b1 + b2, k1 + k2, true
			case token.SUB:
				return a1 - a2, b1 - b2, k1 - k2, true
			}
		}
	}
	return 0, 0, 0, false
}

func laStructs(c *Ctx, rule string) {
	r, u := c.R, c.U
	pkgPath := genBase + "structs"
	sp := u.SSAPkgs[pkgPath]
	if sp == nil {
		r.failf("%s: generator package structs not built", rule)
		return
	}
	// the recursive reconstruction: the function of the package that calls itself with a tail of its slice parameter
	var fn *ssa.Function
	var rec *ssa.Call
	for _, m := range sp.Members {
		f, ok := m.(*ssa.Function)
		if !ok || f.Blocks == nil {
			continue
		}
		for _, b := range f.Blocks {
			for _, ins := range b.Instrs {
				if call, ok := ins.(*ssa.Call); ok && call.Call.StaticCallee() == f {
					fn, rec = f, call
				}
			}
		}
	}
	key := "structs.getStruct"
	if fn == nil {
		r.undecided(rule, key, "", "no self-recursive reconstruction function found in package structs")
		return
	}
	key = "structs." + fn.Name()
	pos := u.Pos(fn.Pos())
	r.count(rule+"/reconstruction", 1)
	var parent, children *ssa.Parameter
	for _, p := range fn.Params {
		if _, isSl := p.Type().Underlying().(interface{ Elem() interface{} }); isSl {
			_ = isSl
		}
		switch p.Type().String() {
		default:
			if strings.HasPrefix(p.Type().String(), "[]") {
				children = p
			} else if strings.HasPrefix(p.Type().String(), "*") {
				parent = p
			}
		}
	}
	if parent == nil || children == nil {
		r.undecided(rule, key, pos, "unexpected signature")
		return
	}
	// the loop: test `i < int(*parent.NumChildren)`
	var iPhi, jPhi *ssa.Phi
	var loopIf *ssa.If
	var bad []string
	for _, b := range fn.Blocks {
		iff, ok := lastInstr(b).(*ssa.If)
		if !ok {
			continue
		}
		bo, ok := iff.Cond.(*ssa.BinOp)
		if !ok {
			continue
		}
		phi, ok := bo.X.(*ssa.Phi)
		if !ok || phi.Block() != b {
			continue
		}
		bound := stripConvert(bo.Y)
		isNC := false
		if ld, ok := bound.(*ssa.UnOp); ok && ld.Op == token.MUL {
			if f := fieldOfLoad(ld.X); f != nil && f.Name() == "NumChildren" {
				if fa, ok := ld.X.(*ssa.UnOp).X.(*ssa.FieldAddr); ok && fa.X == ssa.Value(parent) {
					isNC = true
				}
			}
		}
		if !isNC {
			continue
		}
		iPhi, loopIf = phi, iff
		if bo.Op != token.LSS {
			bad = append(bad, "the loop over the children runs while i "+bo.Op.String()+" num_children, want i < num_children")
		}
		for _, ins := range b.Instrs {
			if p2, ok := ins.(*ssa.Phi); ok && p2 != phi && p2.Type() == phi.Type() {
				jPhi = p2
			}
		}
	}
	if iPhi == nil || jPhi == nil {
		r.undecided(rule, key, pos, "the loop over parent.num_children children with two counters was not recognised")
		return
	}
	lin := func(v ssa.Value) (int64, int64, int64, bool) { return linIJ(v, iPhi, jPhi, 0) }
	show := func(v ssa.Value) string {
		if a, b, k, ok := lin(v); ok {
			return fmt.Sprintf("%d*i + %d*j + %d", a, b, k)
		}
		return symExpr(v, 0)
	}
	// (1) the child taken
	taken := false
	for _, b := range fn.Blocks {
		for _, ins := range b.Instrs {
			ia, ok := ins.(*ssa.IndexAddr)
			if !ok || ia.X != ssa.Value(children) {
				continue
			}
			taken = true
			if a, bb, k, ok := lin(ia.Index); !ok || a != 1 || bb != 1 || k != 0 {
				bad = append(bad, "the next child is taken at offset "+show(ia.Index)+" of the list, want i+j (children seen + elements consumed by nested groups)")
			}
		}
	}
	if !taken {
		bad = append(bad, "no element of the list is taken")
	}
	// (2) the recursion
	if len(rec.Call.Args) == 2 {
		sl, ok := rec.Call.Args[1].(*ssa.Slice)
		if !ok || sl.X != ssa.Value(children) || sl.High != nil {
			bad = append(bad, "a nested group does not recurse on a tail of the list")
		} else if a, bb, k, ok := lin(sl.Low); !ok || a != 1 || bb != 1 || k != 1 {
			bad = append(bad, "a nested group recurses on the list from offset "+show(sl.Low)+", want i+j+1 (right behind the group's own element)")
		}
		// on the group itself
		if ld, ok := rec.Call.Args[0].(*ssa.UnOp); !ok || ld.Op != token.MUL {
			bad = append(bad, "the recursion is not on the child just taken")
		} else if ia, ok := ld.X.(*ssa.IndexAddr); !ok || ia.X != ssa.Value(children) {
			bad = append(bad, "the recursion is not on the child just taken")
		}
		// only for groups: num_children != nil && > 0
		gs := guardConds(rec.Block())
		hasNil, hasPos := false, false
		for _, g := range gs {
			if strings.Contains(g, "NumChildren") && strings.Contains(g, "nil") {
				hasNil = true
			}
			if strings.Contains(g, "NumChildren") && (strings.HasPrefix(g, "true:") && strings.Contains(g, "> 0") || strings.HasPrefix(g, "false:") && strings.Contains(g, "<= 0") || strings.HasPrefix(g, "true:") && strings.Contains(g, "!= 0") || strings.HasPrefix(g, "true:") && strings.Contains(g, ">= 1")) {
				hasPos = true
			}
		}
		if !hasNil || !hasPos {
			// or by a helper predicate on the child that makes those two tests
			viaHelper := false
			for d := rec.Block(); d != nil && !viaHelper; d = d.Idom() {
				id := d.Idom()
				if id == nil {
					break
				}
				iff, isIf := lastInstr(id).(*ssa.If)
				if !isIf {
					continue
				}
				cond, wantTruth := iff.Cond, true
				if not, isNot := cond.(*ssa.UnOp); isNot && not.Op == token.NOT {
					cond, wantTruth = not.X, false
				}
				call, isCall := cond.(*ssa.Call)
				if !isCall || call.Call.StaticCallee() == nil || call.Call.StaticCallee().Blocks == nil || len(call.Call.Args) != 1 {
					continue
				}
				succ := id.Succs[0]
				if !wantTruth {
					succ = id.Succs[1]
				}
				if !(succ == rec.Block() || succ.Dominates(rec.Block())) || len(succ.Preds) != 1 {
					continue
				}
				if groupPredicate(call.Call.StaticCallee()) {
					viaHelper = true
				}
			}
			if !viaHelper {
				bad = append(bad, "the recursion is not guarded by `child.num_children != nil && > 0`")
			}
		}
	} else {
		bad = append(bad, "unexpected recursion arity")
	}
	// (3) the counters on the back edge
	n := extractOf(rec, 0)
	for pi, pred := range iPhi.Block().Preds {
		if !iPhi.Block().Dominates(pred) {
			// entry edge: both start at 0
			if !constIs(iPhi.Edges[pi], 0) || !constIs(jPhi.Edges[pi], 0) {
				bad = append(bad, "the counters do not start at 0")
			}
			continue
		}
		if a, bb, k, ok := lin(iPhi.Edges[pi]); !ok || a != 1 || bb != 0 || k != 1 {
			bad = append(bad, "i is advanced to "+show(iPhi.Edges[pi])+" per child, want i+1")
		}
		// j: unchanged for leaves, j + consumed for nested groups
		var check func(v ssa.Value, depth int)
		check = func(v ssa.Value, depth int) {
			if depth > 4 {
				return
			}
			if phi, ok := v.(*ssa.Phi); ok && phi != jPhi {
				for _, e := range phi.Edges {
					check(e, depth+1)
				}
				return
			}
			if v == ssa.Value(jPhi) {
				return
			}
			if bo, ok := v.(*ssa.BinOp); ok && bo.Op == token.ADD && n != nil {
				if (bo.X == ssa.Value(jPhi) && bo.Y == n) || (bo.Y == ssa.Value(jPhi) && bo.X == n) {
					if !dominatesInstr(rec, bo) {
						bad = append(bad, "j is advanced outside the nested-group branch")
					}
					return
				}
			}
			bad = append(bad, "after a child, j becomes "+symExpr(v, 0)+", want j (leaf) or j + <elements the nested group consumed>")
		}
		check(jPhi.Edges[pi], 0)
	}
	// (4) the result
	for _, b := range fn.Blocks {
		if ret, ok := lastInstr(b).(*ssa.Return); ok && len(ret.Results) == 2 {
			if a, bb, k, ok := lin(ret.Results[0]); !ok || a != 1 || bb != 1 || k != 0 {
				bad = append(bad, "the function reports "+show(ret.Results[0])+" elements consumed, want i+j")
			}
		}
	}
	_ = loopIf
	if len(bad) > 0 {
		r.bad(rule, key, pos, strings.Join(bad, "; ")+": a struct with a nested group followed by further fields (or a second nested group) is reconstructed with the wrong fields")
	} else {
		r.ok(rule, key, pos, "child k at i+j; nested group recurses from i+j+1 and adds its consumption to j; i+1 per child; i < num_children; returns i+j")
	}
	// field(): the Go field is named Title(name), tagged with the column's own name
	fld := sp.Func("field")
	k2 := "structs.field"
	if fld == nil {
		r.undecided(rule, k2, "", "structs.field not found")
	} else {
		var fb []string
		for _, b := range fld.Blocks {
			ret, ok := lastInstr(b).(*ssa.Return)
			if !ok {
				continue
			}
			call, ok := ret.Results[0].(*ssa.Call)
			if !ok || fullCalleeName(&call.Call) != "fmt.Sprintf" {
				fb = append(fb, "the field text is not produced by one fmt.Sprintf")
				continue
			}
			format, _ := call.Call.Args[0].(*ssa.Const)
			args := appendedValuesOfVariadic(call.Call.Args[1])
			if format == nil || format.Value == nil || format.Value.Kind() != constant.String {
				fb = append(fb, "the field format is not a constant")
				continue
			}
			fs := constant.StringVal(format.Value)
			// the verb inside parquet:"…" is the last one; it must print elem.Name itself
			idx := strings.Count(fs[:strings.Index(fs+"parquet:", "parquet:")], "%s")
			if !strings.Contains(fs, "parquet:") || idx >= len(args) {
				fb = append(fb, "the field text carries no parquet tag")
				continue
			}
			tag := args[idx]
			if mi, ok := tag.(*ssa.MakeInterface); ok {
				tag = mi.X
			}
			if f := fieldOfLoad(tag); f == nil || f.Name() != "Name" {
				fb = append(fb, "the parquet tag is "+symExpr(tag, 0)+", want the schema element's own name (the regenerated reader looks columns up by it)")
			}
		}
		if len(fb) > 0 {
			r.bad(rule, k2, u.Pos(fld.Pos()), strings.Join(fb, "; "))
		} else {
			r.ok(rule, k2, u.Pos(fld.Pos()), "tag = elem.Name")
		}
	}
	r.floor(rule+"/reconstruction", 1, "getStruct")
}

// appendedValuesOfVariadic: the elements of a variadic argument slice built from a local array.
func appendedValuesOfVariadic(v ssa.Value) []ssa.Value {
	sl, ok := v.(*ssa.Slice)
	if !ok {
		return nil
	}
	al, ok := sl.X.(*ssa.Alloc)
	if !ok {
		return nil
	}
	out := map[int64]ssa.Value{}
	max := int64(-1)
	for _, ref := range *al.Referrers() {
		ia, ok := ref.(*ssa.IndexAddr)
		if !ok {
			continue
		}
		k, ok := ia.Index.(*ssa.Const)
		if !ok {
			continue
		}
		kv, _ := constant.Int64Val(k.Value)
		for _, r2 := range *ia.Referrers() {
			if st, ok := r2.(*ssa.Store); ok && st.Addr == ssa.Value(ia) {
				out[kv] = st.Val
				if kv > max {
					max = kv
				}
			}
		}
	}
	var res []ssa.Value
	for i := int64(0); i <= max; i++ {
		res = append(res, out[i])
	}
	return res
}

// groupPredicate: h(elem) is true exactly when elem.NumChildren != nil && *elem.NumChildren > 0: every `true`-capable
// return is a positivity test of the loaded child count, reached only past a nil test of the pointer.
func groupPredicate(h *ssa.Function) bool {
	if len(h.Params) != 1 {
		return false
	}
	isNC := func(v ssa.Value) bool { f := fieldOfLoad(v); return f != nil && f.Name() == "NumChildren" }
	var positive func(v ssa.Value, d int) bool
	positive = func(v ssa.Value, d int) bool {
		if d > 4 {
			return false
		}
		switch x := v.(type) {
		case *ssa.BinOp:
			inner := stripConvert(x.X)
			ld, ok := inner.(*ssa.UnOp)
			if !ok || ld.Op != token.MUL || !isNC(ld.X) {
				return false
			}
			return (x.Op == token.GTR && constIs(x.Y, 0)) || (x.Op == token.GEQ && constIs(x.Y, 1)) || (x.Op == token.NEQ && constIs(x.Y, 0))
		case *ssa.Phi:
			some := false
			for _, e := range x.Edges {
				if constBool(e, false) {
					continue
				}
				if !positive(e, d+1) {
					return false
				}
				some = true
			}
			return some
		}
		return false
	}
	nilTest := false
	for _, b := range h.Blocks {
		if iff, ok := lastInstr(b).(*ssa.If); ok {
			if bo, ok := iff.Cond.(*ssa.BinOp); ok && (bo.Op == token.EQL || bo.Op == token.NEQ) && isNilConst(bo.Y) && isNC(bo.X) {
				nilTest = true
			}
		}
	}
	some := false
	for _, b := range h.Blocks {
		if ret, ok := lastInstr(b).(*ssa.Return); ok && len(ret.Results) == 1 {
			if constBool(ret.Results[0], false) {
				continue
			}
			if !positive(ret.Results[0], 0) {
				return false
			}
			some = true
		}
	}
	return some && nilTest
}
