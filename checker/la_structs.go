package main

// LA-structs (C15): the depth-first reconstruction of nested struct types from the footer's schema list
// (structs.getStruct). The schema is a pre-order list in which each group says how many children it has; the
// reconstruction keeps two counters — children of this group seen (i) and elements consumed by nested groups (j).
// Necessary conditions decided here, for every schema list: the k-th child is taken at offset i+j, a nested group
// recurses on the list right behind itself (offset i+j+1), its consumption is added to j, i advances by one per child,
// the loop runs over num_children children and the function reports i+j elements consumed.

import (
	"fmt"
	"go/constant"
	"go/token"
	"go/types"
	"sort"
	"strings"

	"golang.org/x/tools/go/ssa"
)

// linIJ: v as a*i + b*j + k over the two counters (integer conversions transparent).
func linIJ(v ssa.Value, i, j ssa.Value, depth int) (a, b, k int64, ok bool) {
	if depth > 8 {
		return 0, 0, 0, false
	}
	v = stripConvert(v)
	switch {
	case v == i:
		return 1, 0, 0, true
	case v == j:
		return 0, 1, 0, true
	}
	switch x := v.(type) {
	case *ssa.Const:
		if x.Value != nil && x.Value.Kind() == constant.Int {
			kv, _ := constant.Int64Val(x.Value)
			return 0, 0, kv, true
		}
	case *ssa.BinOp:
		a1, b1, k1, ok1 := linIJ(x.X, i, j, depth+1)
		a2, b2, k2, ok2 := linIJ(x.Y, i, j, depth+1)
		if ok1 && ok2 {
			switch x.Op {
			case token.ADD:
				return a1 + a2, b1 + b2, k1 + k2, true
			case token.SUB:
				return a1 - a2, b1 - b2, k1 - k2, true
			}
		}
	}
	return 0, 0, 0, false
}

func laStructs(c *Ctx, rule string) {
	r, u := c.R, c.U
	pkgPath := genBase + "structs"
	sp := u.SSAPkgs[pkgPath]
	if sp == nil {
		r.failf("%s: generator package structs not built", rule)
		return
	}
	// the recursive reconstruction: the function of the package that calls itself with a tail of its slice parameter
	var fn *ssa.Function
	var rec *ssa.Call
	for _, m := range sp.Members {
		f, ok := m.(*ssa.Function)
		if !ok || f.Blocks == nil {
			continue
		}
		for _, b := range f.Blocks {
			for _, ins := range b.Instrs {
				if call, ok := ins.(*ssa.Call); ok && call.Call.StaticCallee() == f {
					fn, rec = f, call
				}
			}
		}
	}
	key := "structs.getStruct"
	if fn == nil {
		r.undecided(rule, key, "", "no self-recursive reconstruction function found in package structs")
		return
	}
	key = "structs." + fn.Name()
	pos := u.Pos(fn.Pos())
	r.count(rule+"/reconstruction", 1)
	var parent, children *ssa.Parameter
	for _, p := range fn.Params {
		if _, isSl := p.Type().Underlying().(interface{ Elem() interface{} }); isSl {
			_ = isSl
		}
		switch p.Type().String() {
		default:
			if strings.HasPrefix(p.Type().String(), "[]") {
				children = p
			} else if strings.HasPrefix(p.Type().String(), "*") {
				parent = p
			}
		}
	}
	if parent == nil || children == nil {
		r.undecided(rule, key, pos, "unexpected signature")
		return
	}
	// the loop over the children: a counter c with `c < int(*parent.NumChildren)`, c' = c + 1
	var cPhi *ssa.Phi
	var bad []string
	for _, b := range fn.Blocks {
		iff, ok := lastInstr(b).(*ssa.If)
		if !ok {
			continue
		}
		bo, ok := iff.Cond.(*ssa.BinOp)
		if !ok {
			continue
		}
		phi, ok := bo.X.(*ssa.Phi)
		if !ok || phi.Block() != b {
			continue
		}
		bound := stripConvert(bo.Y)
		isNC := false
		if ld, ok := bound.(*ssa.UnOp); ok && ld.Op == token.MUL {
			if f := fieldOfLoad(ld.X); f != nil && f.Name() == "NumChildren" {
				if fa, ok := ld.X.(*ssa.UnOp).X.(*ssa.FieldAddr); ok && fa.X == ssa.Value(parent) {
					isNC = true
				}
			}
		}
		if !isNC {
			continue
		}
		cPhi = phi
		if bo.Op != token.LSS {
			bad = append(bad, "the loop over the children runs while i "+bo.Op.String()+" num_children, want i < num_children")
		}
	}
	if cPhi == nil {
		r.undecided(rule, key, pos, "the loop over parent.num_children children was not recognised")
		return
	}
	header := cPhi.Block()
	// loop-carried integer variables (i, j / pos): the phis of the loop header
	var carried []*ssa.Phi
	for _, ins := range header.Instrs {
		if p2, ok := ins.(*ssa.Phi); ok && types.Identical(p2.Type(), cPhi.Type()) {
			carried = append(carried, p2)
		}
	}
	n := extractOf(rec, 0)
	// linear forms over the carried variables and n (the consumption of the nested group)
	type form struct {
		co map[ssa.Value]int64
		k  int64
		ok bool
	}
	var lin func(v ssa.Value, group bool, d int) form
	lin = func(v ssa.Value, group bool, d int) form {
		out := form{co: map[ssa.Value]int64{}, ok: true}
		if d > 10 {
			out.ok = false
			return out
		}
		v = stripConvert(v)
		for _, c := range carried {
			if v == ssa.Value(c) {
				out.co[c] = 1
				return out
			}
		}
		if n != nil && v == n {
			out.co[n] = 1
			return out
		}
		switch x := v.(type) {
		case *ssa.Const:
			if x.Value != nil && x.Value.Kind() == constant.Int {
				out.k, _ = constant.Int64Val(x.Value)
				return out
			}
		case *ssa.BinOp:
			if x.Op == token.ADD || x.Op == token.SUB {
				a, b := lin(x.X, group, d+1), lin(x.Y, group, d+1)
				if a.ok && b.ok {
					sg := int64(1)
					if x.Op == token.SUB {
						sg = -1
					}
					for k2, c2 := range a.co {
						out.co[k2] += c2
					}
					for k2, c2 := range b.co {
						out.co[k2] += sg * c2
					}
					out.k = a.k + sg*b.k
					return out
				}
			}
		case *ssa.Phi:
			// a merge inside the body: the edge that comes from the nested-group branch, or the others
			var pick *form
			for i, e := range x.Edges {
				pred := x.Block().Preds[i]
				fromGroup := pred == rec.Block() || rec.Block().Dominates(pred)
				if fromGroup != group {
					continue
				}
				f := lin(e, group, d+1)
				if !f.ok {
					out.ok = false
					return out
				}
				if pick != nil && fmt.Sprint(pick.co, pick.k) != fmt.Sprint(f.co, f.k) {
					out.ok = false
					return out
				}
				pick = &f
			}
			if pick != nil {
				return *pick
			}
		}
		out.ok = false
		return out
	}
	minus := func(a, b form) form {
		out := form{co: map[ssa.Value]int64{}, ok: a.ok && b.ok, k: a.k - b.k}
		for k2, c2 := range a.co {
			out.co[k2] += c2
		}
		for k2, c2 := range b.co {
			out.co[k2] -= c2
		}
		for k2, c2 := range out.co {
			if c2 == 0 {
				delete(out.co, k2)
			}
		}
		return out
	}
	subst := func(f form, group bool) form {
		// f with every carried variable replaced by its value after one iteration
		out := form{co: map[ssa.Value]int64{}, ok: f.ok, k: f.k}
		for v, c2 := range f.co {
			phi, isPhi := v.(*ssa.Phi)
			if !isPhi {
				out.co[v] += c2
				continue
			}
			var next ssa.Value
			for i, pred := range phi.Block().Preds {
				if phi.Block().Dominates(pred) {
					next = phi.Edges[i]
				}
			}
			if next == nil {
				out.ok = false
				return out
			}
			nf := lin(next, group, 0)
			if !nf.ok {
				out.ok = false
				return out
			}
			for k2, c3 := range nf.co {
				out.co[k2] += c2 * c3
			}
			out.k += c2 * nf.k
		}
		return out
	}
	isConstForm := func(f form, k int64, withN bool) bool {
		if !f.ok || f.k != k {
			return false
		}
		want := 0
		if withN {
			want = 1
			if f.co[n] != 1 {
				return false
			}
		}
		cnt := 0
		for _, c2 := range f.co {
			if c2 != 0 {
				cnt++
			}
		}
		return cnt == want
	}
	show := func(f form) string {
		if !f.ok {
			return "?"
		}
		var parts []string
		for v, c2 := range f.co {
			if c2 != 0 {
				parts = append(parts, fmt.Sprintf("%d*%s", c2, v.Name()))
			}
		}
		sort.Strings(parts)
		return strings.Join(append(parts, fmt.Sprint(f.k)), " + ")
	}
	// the counters start at 0
	for _, c := range carried {
		for i, pred := range header.Preds {
			if !header.Dominates(pred) && !constIs(c.Edges[i], 0) {
				bad = append(bad, "a counter does not start at 0")
			}
		}
	}
	// the loop counter advances by one per child on both paths
	for _, g := range []bool{false, true} {
		if d := minus(subst(form{co: map[ssa.Value]int64{cPhi: 1}, ok: true}, g), form{co: map[ssa.Value]int64{cPhi: 1}, ok: true}); !isConstForm(d, 1, false) {
			bad = append(bad, "the child counter is not advanced by exactly one per child")
		}
	}
	// (1) the position P of the child taken; after a leaf P' = P + 1, after a nested group P' = P + 1 + consumed
	var P form
	taken := false
	for _, b := range fn.Blocks {
		for _, ins := range b.Instrs {
			ia, ok := ins.(*ssa.IndexAddr)
			if !ok || ia.X != ssa.Value(children) {
				continue
			}
			taken = true
			P = lin(ia.Index, false, 0)
		}
	}
	if !taken || !P.ok {
		bad = append(bad, "the position of the child taken is not a sum of the loop's counters")
	} else {
		if d := minus(subst(P, false), P); !isConstForm(d, 1, false) {
			bad = append(bad, "after a leaf child the next child is taken "+show(d)+" elements further, want 1")
		}
		if d := minus(subst(P, true), P); !isConstForm(d, 1, true) {
			bad = append(bad, "after a nested group the next child is taken "+show(d)+" elements further, want 1 + the elements the group consumed")
		}
		// at the start P = 0 (all counters start at 0): P has no constant part
		if P.k != 0 {
			bad = append(bad, fmt.Sprintf("the first child is taken at offset %d, want 0", P.k))
		}
	}
	// (2) the recursion
	if len(rec.Call.Args) == 2 {
		sl, ok := rec.Call.Args[1].(*ssa.Slice)
		if !ok || sl.X != ssa.Value(children) || sl.High != nil {
			bad = append(bad, "a nested group does not recurse on a tail of the list")
		} else if d := minus(lin(sl.Low, true, 0), P); !isConstForm(d, 1, false) {
			bad = append(bad, "a nested group recurses on the list from "+show(d)+" behind the group's own element, want 1 (right behind it)")
		}
		if ld, ok := rec.Call.Args[0].(*ssa.UnOp); !ok || ld.Op != token.MUL {
			bad = append(bad, "the recursion is not on the child just taken")
		} else if ia, ok := ld.X.(*ssa.IndexAddr); !ok || ia.X != ssa.Value(children) {
			bad = append(bad, "the recursion is not on the child just taken")
		}
		gs := guardConds(rec.Block())
		hasNil, hasPos := false, false
		for _, g := range gs {
			if strings.Contains(g, "NumChildren") && strings.Contains(g, "nil") {
				hasNil = true
			}
			if strings.Contains(g, "NumChildren") && (strings.HasPrefix(g, "true:") && strings.Contains(g, "> 0") || strings.HasPrefix(g, "false:") && strings.Contains(g, "<= 0") || strings.HasPrefix(g, "true:") && strings.Contains(g, "!= 0") || strings.HasPrefix(g, "true:") && strings.Contains(g, ">= 1")) {
				hasPos = true
			}
		}
		if !hasNil || !hasPos {
			// or by a helper predicate on the child that makes those two tests
			viaHelper := false
			for d := rec.Block(); d != nil && !viaHelper; d = d.Idom() {
				id := d.Idom()
				if id == nil {
					break
				}
				iff, isIf := lastInstr(id).(*ssa.If)
				if !isIf {
					continue
				}
				cond, wantTruth := iff.Cond, true
				if not, isNot := cond.(*ssa.UnOp); isNot && not.Op == token.NOT {
					cond, wantTruth = not.X, false
				}
				call, isCall := cond.(*ssa.Call)
				if !isCall || call.Call.StaticCallee() == nil || call.Call.StaticCallee().Blocks == nil || len(call.Call.Args) != 1 {
					continue
				}
				succ := id.Succs[0]
				if !wantTruth {
					succ = id.Succs[1]
				}
				if !(succ == rec.Block() || succ.Dominates(rec.Block())) || len(succ.Preds) != 1 {
					continue
				}
				if groupPredicate(call.Call.StaticCallee()) {
					viaHelper = true
				}
			}
			if !viaHelper {
				bad = append(bad, "the recursion is not guarded by `child.num_children != nil && > 0`")
			}
		}
	} else {
		bad = append(bad, "unexpected recursion arity")
	}
	// (3) the result: the position behind the last child = the number of elements consumed
	for _, b := range fn.Blocks {
		if ret, ok := lastInstr(b).(*ssa.Return); ok && len(ret.Results) == 2 {
			if d := minus(lin(ret.Results[0], false, 0), P); !P.ok || !isConstForm(d, 0, false) {
				bad = append(bad, "the function reports "+show(lin(ret.Results[0], false, 0))+" elements consumed, want the position behind its last child ("+show(P)+")")
			}
		}
	}
	if len(bad) > 0 {
		r.bad(rule, key, pos, strings.Join(bad, "; ")+": a struct with a nested group followed by further fields (or a second nested group) is reconstructed with the wrong fields")
	} else {
		r.ok(rule, key, pos, "child k at position P (a sum of the loop's counters, 0 at the start); P+1 after a leaf, P+1+consumed after a nested group, which recurses from P+1; child counter +1 per child, < num_children; returns P")
	}
	// field(): the Go field is named Title(name), tagged with the column's own name
	fld := roleFunc(u, pkgPath, "structField")
	k2 := "structs.field"
	if fld == nil {
		r.undecided(rule, k2, "", "structs.field not found")
	} else {
		var fb []string
		for _, b := range fld.Blocks {
			ret, ok := lastInstr(b).(*ssa.Return)
			if !ok {
				continue
			}
			call, ok := ret.Results[0].(*ssa.Call)
			if !ok || fullCalleeName(&call.Call) != "fmt.Sprintf" {
				fb = append(fb, "the field text is not produced by one fmt.Sprintf")
				continue
			}
			format, _ := call.Call.Args[0].(*ssa.Const)
			args := appendedValuesOfVariadic(call.Call.Args[1])
			if format == nil || format.Value == nil || format.Value.Kind() != constant.String {
				fb = append(fb, "the field format is not a constant")
				continue
			}
			fs := constant.StringVal(format.Value)
			// the verb inside parquet:"…" is the last one; it must print elem.Name itself
			idx := strings.Count(fs[:strings.Index(fs+"parquet:", "parquet:")], "%s")
			if !strings.Contains(fs, "parquet:") || idx >= len(args) {
				fb = append(fb, "the field text carries no parquet tag")
				continue
			}
			tag := args[idx]
			if mi, ok := tag.(*ssa.MakeInterface); ok {
				tag = mi.X
			}
			if f := fieldOfLoad(tag); f == nil || f.Name() != "Name" {
				fb = append(fb, "the parquet tag is "+symExpr(tag, 0)+", want the schema element's own name (the regenerated reader looks columns up by it)")
			}
		}
		if len(fb) > 0 {
			r.bad(rule, k2, u.Pos(fld.Pos()), strings.Join(fb, "; "))
		} else {
			r.ok(rule, k2, u.Pos(fld.Pos()), "tag = elem.Name")
		}
	}
	r.floor(rule+"/reconstruction", 1, "getStruct")
}

// appendedValuesOfVariadic: the elements of a variadic argument slice built from a local array.
func appendedValuesOfVariadic(v ssa.Value) []ssa.Value {
	sl, ok := v.(*ssa.Slice)
	if !ok {
		return nil
	}
	al, ok := sl.X.(*ssa.Alloc)
	if !ok {
		return nil
	}
	out := map[int64]ssa.Value{}
	max := int64(-1)
	for _, ref := range *al.Referrers() {
		ia, ok := ref.(*ssa.IndexAddr)
		if !ok {
			continue
		}
		k, ok := ia.Index.(*ssa.Const)
		if !ok {
			continue
		}
		kv, _ := constant.Int64Val(k.Value)
		for _, r2 := range *ia.Referrers() {
			if st, ok := r2.(*ssa.Store); ok && st.Addr == ssa.Value(ia) {
				out[kv] = st.Val
				if kv > max {
					max = kv
				}
			}
		}
	}
	var res []ssa.Value
	for i := int64(0); i <= max; i++ {
		res = append(res, out[i])
	}
	return res
}

// groupPredicate: h(elem) is true exactly when elem.NumChildren != nil && *elem.NumChildren > 0: every `true`-capable
// return is a positivity test of the loaded child count, reached only past a nil test of the pointer.
func groupPredicate(h *ssa.Function) bool {
	if len(h.Params) != 1 {
		return false
	}
	isNC := func(v ssa.Value) bool { f := fieldOfLoad(v); return f != nil && f.Name() == "NumChildren" }
	var positive func(v ssa.Value, d int) bool
	positive = func(v ssa.Value, d int) bool {
		if d > 4 {
			return false
		}
		switch x := v.(type) {
		case *ssa.BinOp:
			inner := stripConvert(x.X)
			ld, ok := inner.(*ssa.UnOp)
			if !ok || ld.Op != token.MUL || !isNC(ld.X) {
				return false
			}
			return (x.Op == token.GTR && constIs(x.Y, 0)) || (x.Op == token.GEQ && constIs(x.Y, 1)) || (x.Op == token.NEQ && constIs(x.Y, 0))
		case *ssa.Phi:
			some := false
			for _, e := range x.Edges {
				if constBool(e, false) {
					continue
				}
				if !positive(e, d+1) {
					return false
				}
				some = true
			}
			return some
		}
		return false
	}
	nilTest := false
	for _, b := range h.Blocks {
		if iff, ok := lastInstr(b).(*ssa.If); ok {
			if bo, ok := iff.Cond.(*ssa.BinOp); ok && (bo.Op == token.EQL || bo.Op == token.NEQ) && isNilConst(bo.Y) && isNC(bo.X) {
				nilTest = true
			}
		}
	}
	some := false
	for _, b := range h.Blocks {
		if ret, ok := lastInstr(b).(*ssa.Return); ok && len(ret.Results) == 1 {
			if constBool(ret.Results[0], false) {
				continue
			}
			if !positive(ret.Results[0], 0) {
				return false
			}
			some = true
		}
	}
	return some && nilTest
}
