package main

import (
	"fmt"
	"go/ast"
	"go/token"
	"go/types"
	"strings"
)

// checkAsm validates write<Col>.
func (tv *tvChecker) checkAsm(c *column, fd *ast.FuncDecl) ([]string, int) {
	a := &asmCheck{tv: tv, c: c, params: map[string]types.Object{}}
	// parameters by position: the record, the values, the definition levels, the repetition levels
	var plist []types.Object
	for _, f := range fd.Type.Params.List {
		for _, n := range f.Names {
			plist = append(plist, tv.info.Defs[n])
		}
	}
	for i, role := range []string{"x", "vals", "defs", "reps"} {
		if i < len(plist) {
			a.params[role] = plist[i]
		}
	}
	if c.maxDef() == 0 {
		// x.A.B = vals[0]
		if len(fd.Body.List) == 1 {
			if as, ok := fd.Body.List[0].(*ast.AssignStmt); ok && len(as.Lhs) == 1 {
				t := a.lhs(as.Lhs[0])
				if t.err == "" && t.node == len(c.steps) && a.isVals(as.Rhs[0], false) {
					return nil, 1
				}
				return []string{"required write: " + t.err}, 1
			}
		}
		return []string{"undecided: required write form"}, 1
	}
	cases := map[[2]int]ast.Stmt{} // (d, r) -> stmt ; r=-1 any
	counts := map[int]bool{}       // d -> advances value
	loop := c.maxRep() > 0
	if err := a.driver(fd, loop); err != "" {
		return []string{err}, 1
	}
	if err := a.extract(fd, loop, cases, counts); err != "" {
		return []string{"undecided: " + err}, 1
	}
	ncases := 0
	md := c.maxDef()
	for d := 0; d <= md; d++ {
		D := c.D(d)
		maxr := c.repDepth(D)
		if !loop {
			maxr = 0
		}
		for r := 0; r <= maxr; r++ {
			// feasibility: r>0 needs r-th rep node defined at level d: repPos(r) <= D
			stmt := cases[[2]int{d, r}]
			if stmt == nil {
				stmt = cases[[2]int{d, -1}]
			}
			ncases++
			a.checkCase(d, r, stmt, loop)
		}
		if counts[d] != (d == md) {
			a.bad("def %d: value counter advance = %v", d, counts[d])
		}
	}
	// cases for infeasible defs
	for k := range cases {
		if k[0] > md || k[0] < 0 {
			a.bad("case for impossible def %d", k[0])
		}
	}
	return a.viol, ncases
}

type asmCheck struct {
	tv     *tvChecker
	c      *column
	params map[string]types.Object // by role: x, vals, defs, reps, def, rep, nVals, nLevels, ind, i
	viol   []string
}

// driver validates the fixed part of an assembler around its case analysis and resolves the local variables by the
// role they play (not by name): a non-repeated column reads one level, `d := defs[0]`, and returns (values, 1);
// a repeated column walks the levels of one record:
//
//	for i := range defs { d := defs[i]; r := reps[i]; if i > 0 && r == 0 { break }; levels++; ind.rep(r); switch d {…} }
//	return values, levels
func (a *asmCheck) driver(fd *ast.FuncDecl, loop bool) string {
	info := a.tv.info
	isParamIndex := func(e ast.Expr, role string) (ast.Expr, bool) {
		ix, ok := e.(*ast.IndexExpr)
		if !ok {
			return nil, false
		}
		id, ok := ix.X.(*ast.Ident)
		if !ok || a.obj(id) != a.params[role] {
			return nil, false
		}
		return ix.Index, true
	}
	define := func(st ast.Stmt) (*ast.Ident, ast.Expr) {
		as, ok := st.(*ast.AssignStmt)
		if !ok || as.Tok != token.DEFINE || len(as.Lhs) != 1 || len(as.Rhs) != 1 {
			return nil, nil
		}
		id, _ := as.Lhs[0].(*ast.Ident)
		return id, as.Rhs[0]
	}
	if !loop {
		if len(fd.Body.List) < 2 {
			return "undecided: assembler body too short"
		}
		id, rhs := define(fd.Body.List[0])
		idx, ok := isParamIndex(rhs, "defs")
		if id == nil || !ok {
			return "undecided: driver: the assembler does not start by reading its definition level"
		}
		if n, isC := a.tv.constInt(idx); !isC || n != 0 {
			return "driver: the definition level is not the first entry (defs[0])"
		}
		a.params["def"] = info.Defs[id]
		// the fall-through return: no value, one level
		ret, ok := fd.Body.List[len(fd.Body.List)-1].(*ast.ReturnStmt)
		if !ok || len(ret.Results) != 2 {
			return "undecided: driver: no final return"
		}
		v, ok1 := a.tv.constInt(ret.Results[0])
		l, ok2 := a.tv.constInt(ret.Results[1])
		if !ok1 || !ok2 || v != 0 || l != 1 {
			return "driver: when no case applies the assembler must report 0 values and 1 level consumed"
		}
		return ""
	}
	var rng *ast.RangeStmt
	for _, st := range fd.Body.List {
		switch x := st.(type) {
		case *ast.DeclStmt:
		case *ast.AssignStmt:
			// ind := make(indices, N)
			id, rhs := define(x)
			if call, ok := rhs.(*ast.CallExpr); ok && id != nil {
				if f, ok := call.Fun.(*ast.Ident); ok && f.Name == "make" && len(call.Args) == 2 {
					n, isC := a.tv.constInt(call.Args[1])
					if !isC || n < a.c.maxRep() {
						return fmt.Sprintf("driver: the index vector has %d entries, the column has %d repeated levels (indexing it panics)", n, a.c.maxRep())
					}
					a.params["ind"] = info.Defs[id]
				}
			}
		case *ast.RangeStmt:
			rng = x
		}
	}
	if rng == nil {
		return "undecided: driver: no loop over the levels"
	}
	if id, ok := rng.X.(*ast.Ident); !ok || a.obj(id) != a.params["defs"] || rng.Value != nil {
		return "driver: the loop does not run over the definition levels by index"
	}
	ki, _ := rng.Key.(*ast.Ident)
	if ki == nil {
		return "undecided: driver: loop without index"
	}
	a.params["i"] = info.Defs[ki]
	isI := func(e ast.Expr) bool { id, ok := e.(*ast.Ident); return ok && a.obj(id) == a.params["i"] }
	stage := 0
	for _, st := range rng.Body.List {
		switch x := st.(type) {
		case *ast.AssignStmt:
			id, rhs := define(x)
			if id == nil {
				return "undecided: driver: unexpected assignment in the level loop"
			}
			if idx, ok := isParamIndex(rhs, "defs"); ok && isI(idx) {
				a.params["def"] = info.Defs[id]
			} else if idx, ok := isParamIndex(rhs, "reps"); ok && isI(idx) {
				a.params["rep"] = info.Defs[id]
			} else {
				return "driver: a level is read from somewhere other than defs[i] / reps[i]"
			}
		case *ast.IfStmt:
			// if i > 0 && rep == 0 { break }
			if stage != 0 || a.params["rep"] == nil {
				return "undecided: driver: unexpected if in the level loop"
			}
			be, ok := x.Cond.(*ast.BinaryExpr)
			okCond := false
			if ok && be.Op == token.LAND {
				l, lok := be.X.(*ast.BinaryExpr)
				r, rok := be.Y.(*ast.BinaryExpr)
				if lok && rok {
					for _, pr := range [][2]*ast.BinaryExpr{{l, r}, {r, l}} {
						n0, c0 := a.tv.constInt(pr[0].Y)
						n1, c1 := a.tv.constInt(pr[1].Y)
						rid, isR := pr[1].X.(*ast.Ident)
						if isI(pr[0].X) && c0 && ((pr[0].Op == token.GTR && n0 == 0) || (pr[0].Op == token.GEQ && n0 == 1) || (pr[0].Op == token.NEQ && n0 == 0)) &&
							isR && a.obj(rid) == a.params["rep"] && c1 && pr[1].Op == token.EQL && n1 == 0 {
							okCond = true
						}
					}
				}
			}
			brk := len(x.Body.List) == 1 && x.Else == nil
			if brk {
				b, ok := x.Body.List[0].(*ast.BranchStmt)
				brk = ok && b.Tok == token.BREAK
			}
			if !okCond || !brk {
				return "driver: a record's levels must end exactly before the next entry with repetition level 0 (`if i > 0 && rep == 0 { break }`)"
			}
			stage = 1
		case *ast.IncDecStmt:
			id, ok := x.X.(*ast.Ident)
			if !ok || x.Tok != token.INC || stage != 1 {
				return "driver: the consumed-level counter is not advanced once per entry, after the end-of-record test"
			}
			a.params["nLevels"] = a.obj(id)
			stage = 2
		case *ast.ExprStmt:
			call, ok := x.X.(*ast.CallExpr)
			sel, ok2 := func() (*ast.SelectorExpr, bool) {
				if !ok {
					return nil, false
				}
				s, ok := call.Fun.(*ast.SelectorExpr)
				return s, ok
			}()
			if !ok2 || stage != 2 || len(call.Args) != 1 {
				return "undecided: driver: unexpected call in the level loop"
			}
			recv, _ := sel.X.(*ast.Ident)
			arg, _ := call.Args[0].(*ast.Ident)
			if recv == nil || a.obj(recv) != a.params["ind"] || sel.Sel.Name != "rep" || arg == nil || a.obj(arg) != a.params["rep"] {
				return "driver: the index vector is not advanced with this entry's repetition level"
			}
			stage = 3
		case *ast.SwitchStmt:
			if stage != 3 {
				return "driver: the case analysis runs before the entry has been counted and the indices advanced"
			}
			stage = 4
		default:
			return fmt.Sprintf("undecided: driver: statement %T in the level loop", st)
		}
	}
	if a.params["def"] == nil || a.params["rep"] == nil || stage != 4 {
		return "driver: the level loop does not read defs[i] and reps[i], test for the end of the record, count the entry, advance the indices and then analyse the case"
	}
	ret, ok := fd.Body.List[len(fd.Body.List)-1].(*ast.ReturnStmt)
	if !ok || len(ret.Results) != 2 {
		return "undecided: driver: no final return"
	}
	v, _ := ret.Results[0].(*ast.Ident)
	l, _ := ret.Results[1].(*ast.Ident)
	if v == nil || l == nil || a.obj(l) != a.params["nLevels"] {
		return "driver: the assembler does not return (values consumed, levels consumed)"
	}
	a.params["nVals"] = a.obj(v)
	return ""
}

func (a *asmCheck) bad(f string, x ...interface{}) { a.viol = append(a.viol, fmt.Sprintf(f, x...)) }

func (a *asmCheck) obj(id *ast.Ident) types.Object {
	if o := a.tv.info.Uses[id]; o != nil {
		return o
	}
	return a.tv.info.Defs[id]
}

func (a *asmCheck) extract(fd *ast.FuncDecl, loop bool, cases map[[2]int]ast.Stmt, counts map[int]bool) string {
	var sw *ast.SwitchStmt
	ast.Inspect(fd.Body, func(n ast.Node) bool {
		if s, ok := n.(*ast.SwitchStmt); ok && sw == nil {
			if id, ok := s.Tag.(*ast.Ident); ok && a.obj(id) == a.params["def"] {
				sw = s
				return false
			}
		}
		return true
	})
	if sw == nil {
		return "no switch def"
	}
	for _, cc := range sw.Body.List {
		cl := cc.(*ast.CaseClause)
		if cl.List == nil {
			return "default in def switch"
		}
		for _, e := range cl.List {
			d, ok := a.tv.constInt(e)
			if !ok {
				return "non-const def case"
			}
			for _, st := range cl.Body {
				switch x := st.(type) {
				case *ast.AssignStmt:
					if _, dup := cases[[2]int{d, -1}]; dup {
						return "two statements in case"
					}
					cases[[2]int{d, -1}] = x
				case *ast.SwitchStmt:
					id, ok := x.Tag.(*ast.Ident)
					if !ok || a.obj(id) != a.params["rep"] {
						return "inner switch not on rep"
					}
					for _, rc := range x.Body.List {
						rcl := rc.(*ast.CaseClause)
						if rcl.List == nil {
							return "default in rep switch"
						}
						if len(rcl.Body) != 1 {
							return "rep case body"
						}
						for _, re := range rcl.List {
							r, ok := a.tv.constInt(re)
							if !ok {
								return "non-const rep"
							}
							cases[[2]int{d, r}] = rcl.Body[0]
						}
					}
				case *ast.IncDecStmt:
					if id, ok := x.X.(*ast.Ident); ok && a.obj(id) == a.params["nVals"] && x.Tok == token.INC {
						counts[d] = true
					} else {
						return "incdec"
					}
				case *ast.ReturnStmt:
					if len(x.Results) == 2 {
						n, _ := a.tv.constInt(x.Results[0])
						counts[d] = n == 1
					}
				default:
					return fmt.Sprintf("stmt %T in case", st)
				}
			}
		}
	}
	return ""
}

type target struct {
	node    int         // node whose container is assigned (1-based)
	derefs  []int       // opt nodes traversed
	indexed map[int]int // rep node pos -> ind index used
	err     string
}

// lhs walks x.A[ind[0]].B ... returning the node assigned.
func (a *asmCheck) lhs(e ast.Expr) target {
	t := target{indexed: map[int]int{}}
	pos, form := a.walk(e, &t)
	if t.err != "" {
		return t
	}
	_ = form
	t.node = pos
	return t
}

// walk returns (pos, form) where form in struct|ptr|slice|val
func (a *asmCheck) walk(e ast.Expr, t *target) (int, string) {
	switch x := e.(type) {
	case *ast.Ident:
		if a.obj(x) == a.params["x"] {
			return 0, "struct"
		}
		t.err = "unknown ident " + x.Name
		return 0, "bad"
	case *ast.SelectorExpr:
		pos, form := a.walk(x.X, t)
		if t.err != "" {
			return 0, "bad"
		}
		if form == "ptr" {
			t.derefs = append(t.derefs, pos)
			form = "struct"
		}
		if form == "elem" {
			form = "struct"
		}
		if form != "struct" {
			t.err = "select on " + form
			return 0, "bad"
		}
		sel := a.tv.info.Selections[x]
		if sel == nil || pos >= len(a.c.steps) || sel.Obj() != a.c.steps[pos].field {
			t.err = fmt.Sprintf("selector %s off path at %d", x.Sel.Name, pos)
			return 0, "bad"
		}
		s := a.c.steps[pos]
		switch {
		case s.kind == Opt:
			return pos + 1, "ptr"
		case s.kind == Rep:
			return pos + 1, "slice"
		case s.leaf:
			return pos + 1, "val"
		default:
			return pos + 1, "struct"
		}
	case *ast.IndexExpr:
		pos, form := a.walk(x.X, t)
		if t.err != "" {
			return 0, "bad"
		}
		if form != "slice" {
			t.err = "index on " + form
			return 0, "bad"
		}
		ix, ok := x.Index.(*ast.IndexExpr)
		if !ok {
			t.err = "index expr not ind[k]"
			return 0, "bad"
		}
		if id, ok := ix.X.(*ast.Ident); !ok || a.obj(id) != a.params["ind"] {
			t.err = "index expr not ind[k]"
			return 0, "bad"
		}
		k, ok := a.tv.constInt(ix.Index)
		if !ok {
			t.err = "ind index not const"
			return 0, "bad"
		}
		t.indexed[pos] = k
		if a.c.steps[pos-1].leaf {
			return pos, "val"
		}
		return pos, "elem"
	}
	t.err = fmt.Sprintf("lhs expr %T", e)
	return 0, "bad"
}

func (a *asmCheck) isVals(e ast.Expr, loop bool) bool {
	ix, ok := e.(*ast.IndexExpr)
	if !ok {
		return false
	}
	id, ok := ix.X.(*ast.Ident)
	if !ok || a.obj(id) != a.params["vals"] {
		return false
	}
	if loop {
		j, ok := ix.Index.(*ast.Ident)
		return ok && a.obj(j) == a.params["nVals"]
	}
	n, ok := a.tv.constInt(ix.Index)
	return ok && n == 0
}

// created evaluates an expression that is to be stored into node `pos`'s container
// (or, if elem is true, an element of the repeated node pos). Returns deepest node created and whether leaf value set.
func (a *asmCheck) created(e ast.Expr, pos int, elem bool, loop bool) (deep int, leafSet bool, err string) {
	c := a.c
	s := c.steps[pos-1]
	if pe, ok := e.(*ast.ParenExpr); ok {
		e = pe.X
	}
	if s.leaf && (elem || s.kind == Req) {
		if a.isVals(e, loop) {
			return pos, true, ""
		}
		return 0, false, "leaf value expr"
	}
	if s.leaf && s.kind == Opt {
		call, ok := e.(*ast.CallExpr)
		if ok && len(call.Args) == 1 {
			if id, ok := call.Fun.(*ast.Ident); ok && id.Name == "p"+c.elem && a.isVals(call.Args[0], loop) {
				return pos, true, ""
			}
		}
		return 0, false, "optional leaf expr"
	}
	if s.kind == Rep && !elem {
		// []T{elem}
		cl, ok := e.(*ast.CompositeLit)
		if !ok {
			return 0, false, "repeated node: not a slice literal"
		}
		if _, ok := cl.Type.(*ast.ArrayType); !ok {
			return 0, false, "repeated node: not a slice literal"
		}
		if len(cl.Elts) != 1 {
			return 0, false, fmt.Sprintf("slice literal with %d elements", len(cl.Elts))
		}
		return a.created(cl.Elts[0], pos, true, loop)
	}
	// struct-valued: group (Req value, Opt &T{}, Rep elem T{})
	if s.kind == Opt && !elem {
		u, ok := e.(*ast.UnaryExpr)
		if !ok || u.Op != token.AND {
			return 0, false, "optional group: not &T{}"
		}
		e = u.X
	}
	cl, ok := e.(*ast.CompositeLit)
	if !ok {
		return 0, false, fmt.Sprintf("group expr %T", e)
	}
	if len(cl.Elts) == 0 {
		return pos, false, ""
	}
	if len(cl.Elts) != 1 {
		return 0, false, "literal sets more than one field"
	}
	kv, ok := cl.Elts[0].(*ast.KeyValueExpr)
	if !ok {
		// positional literal: only for single-field structs
		if pos < len(c.steps) {
			if tvv, ok := a.tv.info.Types[cl]; ok {
				if st, ok := tvv.Type.Underlying().(*types.Struct); ok && st.NumFields() == 1 && st.Field(0) == c.steps[pos].field {
					return a.created(cl.Elts[0], pos+1, false, loop)
				}
			}
		}
		return 0, false, "positional literal off the column path"
	}
	key, ok := kv.Key.(*ast.Ident)
	if !ok || pos >= len(c.steps) || a.obj(key) != c.steps[pos].field {
		return 0, false, "literal sets a field off the column path"
	}
	return a.created(kv.Value, pos+1, false, loop)
}

func (a *asmCheck) checkCase(d, r int, stmt ast.Stmt, loop bool) {
	c := a.c
	D := c.D(d)
	kr := c.repPos(r)
	if r > 0 && kr > D {
		return // infeasible
	}
	sp := c.s
	if sp > D {
		sp = D
	}
	tag := fmt.Sprintf("def%d/rep%d", d, r)
	appendMode := r > 0 && kr > c.s
	exist := sp
	if kr > exist {
		exist = kr
	}
	for !appendMode && exist < D && c.steps[exist].kind == Req && !c.steps[exist].leaf {
		exist++
	}
	if !appendMode && exist >= D {
		if stmt != nil {
			a.bad("%s: statement present but nothing to create (existing depth %d, defined depth %d)", tag, exist, D)
		}
		return
	}
	if stmt == nil {
		a.bad("%s: no statement but nodes %d..%d must be created", tag, exist+1, D)
		return
	}
	as, ok := stmt.(*ast.AssignStmt)
	if !ok || len(as.Lhs) != 1 || len(as.Rhs) != 1 {
		a.bad("%s: undecided statement form", tag)
		return
	}
	t := a.lhs(as.Lhs[0])
	if t.err != "" {
		a.bad("%s: lhs %s", tag, t.err)
		return
	}
	// nodes traversed
	for _, p := range t.derefs {
		if p > exist {
			a.bad("%s: dereferences node %d which does not exist yet (existing depth %d)", tag, p, exist)
		}
	}
	for p, k := range t.indexed {
		if p > exist {
			a.bad("%s: indexes node %d which has no such element yet", tag, p)
		}
		if k != c.repDepth(p)-1 {
			a.bad("%s: node %d indexed by ind[%d], want ind[%d]", tag, p, k, c.repDepth(p)-1)
		}
	}
	// every rep node strictly above target must be indexed (type system enforces), fine.
	rhs := as.Rhs[0]
	// append form?
	if call, ok := rhs.(*ast.CallExpr); ok {
		if id, ok := call.Fun.(*ast.Ident); ok && id.Name == "append" && len(call.Args) == 2 {
			if c.steps[t.node-1].kind != Rep {
				a.bad("%s: append to non-repeated node %d", tag, t.node)
				return
			}
			if !sameExpr(call.Args[0], as.Lhs[0]) {
				a.bad("%s: append source differs from target", tag)
				return
			}
			if _, idx := t.indexed[t.node]; idx {
				a.bad("%s: target is an element, not the list", tag)
				return
			}
			if appendMode {
				if t.node != kr {
					a.bad("%s: appends to node %d, want the list at node %d", tag, t.node, kr)
					return
				}
			} else {
				// append onto a list that must be absent: t.node > exist, and intermediate nodes exist+1..t.node-1 must be required structs
				if t.node <= exist {
					a.bad("%s: appends to existing list at node %d (elements already materialised; existing depth %d) -> duplicates", tag, t.node, exist)
					return
				}
				for p := exist + 1; p < t.node; p++ {
					if c.steps[p-1].kind != Req {
						a.bad("%s: target node %d lies below node %d which does not exist", tag, t.node, p)
						return
					}
				}
			}
			deep, leaf, err := a.created(call.Args[1], t.node, true, loop)
			a.finish(tag, d, D, deep, leaf, err)
			return
		}
	}
	if appendMode {
		a.bad("%s: must append a new element to the list at node %d, got plain assignment to node %d", tag, kr, t.node)
		return
	}
	if _, idx := t.indexed[t.node]; idx {
		a.bad("%s: assigns to an element", tag)
		return
	}
	if t.node <= exist {
		a.bad("%s: CLOBBER: assigns node %d which already exists (existing depth %d)", tag, t.node, exist)
		return
	}
	for p := exist + 1; p < t.node; p++ {
		if c.steps[p-1].kind != Req {
			a.bad("%s: target node %d lies below node %d which does not exist", tag, t.node, p)
			return
		}
	}
	deep, leaf, err := a.created(rhs, t.node, false, loop)
	a.finish(tag, d, D, deep, leaf, err)
}

func (a *asmCheck) finish(tag string, d, D, deep int, leaf bool, err string) {
	if err != "" {
		a.bad("%s: rhs %s", tag, err)
		return
	}
	// trailing required group nodes below `deep` exist implicitly
	for deep < D && a.c.steps[deep].kind == Req && !a.c.steps[deep].leaf {
		deep++
	}
	wantLeaf := d == a.c.maxDef()
	if wantLeaf != leaf {
		a.bad("%s: leaf value set=%v want %v", tag, leaf, wantLeaf)
	}
	if !wantLeaf && deep != D {
		a.bad("%s: creates down to node %d, want %d", tag, deep, D)
	}
	if wantLeaf && deep != len(a.c.steps) {
		a.bad("%s: creates down to node %d, want leaf %d", tag, deep, len(a.c.steps))
	}
}

func sameExpr(x, y ast.Expr) bool {
	return exprString(x) == exprString(y)
}

func exprString(e ast.Expr) string {
	var b strings.Builder
	var w func(e ast.Expr)
	w = func(e ast.Expr) {
		switch x := e.(type) {
		case *ast.Ident:
			b.WriteString(x.Name)
		case *ast.SelectorExpr:
			w(x.X)
			b.WriteString("." + x.Sel.Name)
		case *ast.IndexExpr:
			w(x.X)
			b.WriteString("[")
			w(x.Index)
			b.WriteString("]")
		case *ast.BasicLit:
			b.WriteString(x.Value)
		default:
			b.WriteString(fmt.Sprintf("<%T>", e))
		}
	}
	w(e)
	return b.String()
}
