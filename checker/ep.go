package main

// EP — error propagation (DESIGN.md §4): for every call site that can touch a
// tagged resource and yields an error, on every control-flow path on which that
// error is non-nil the enclosing function must return a non-nil error (the
// error itself, a wrap of it, or a freshly made one), or record it in a sticky
// error field that the API reports (H3). Path exploration is over the SSA CFG,
// branch-sensitive only on comparisons of that error with nil.

import (
	"fmt"
	"go/constant"
	"go/token"
	"go/types"
	"sort"
	"strings"

	"golang.org/x/tools/go/ssa"
)

type epWalk struct {
	u       *Universe
	e       ssa.Value
	site    ssa.Instruction
	fn      *ssa.Function
	visited map[string]bool
	forms   map[string]bool
	h3      map[*types.Var]bool
	bad     []string
	und     []string
	steps   int
	// error cells a deferred closure overwrote on this walk (-> position of the overwriting store)
	clobbered map[*ssa.Alloc]string
}

type pstate struct {
	env    map[ssa.Value]ssa.Value
	cells  map[*ssa.Alloc]ssa.Value
	fields map[*types.Var]ssa.Value
}

func (s *pstate) clone() *pstate {
	n := &pstate{env: map[ssa.Value]ssa.Value{}, cells: map[*ssa.Alloc]ssa.Value{}, fields: map[*types.Var]ssa.Value{}}
	for k, v := range s.env {
		n.env[k] = v
	}
	for k, v := range s.cells {
		n.cells[k] = v
	}
	for k, v := range s.fields {
		n.fields[k] = v
	}
	return n
}

func (s *pstate) fingerprint() string {
	var parts []string
	for k, v := range s.env {
		parts = append(parts, k.Name()+"="+v.Name())
	}
	for k, v := range s.cells {
		parts = append(parts, k.Name()+":"+v.Name())
	}
	for k, v := range s.fields {
		parts = append(parts, k.Name()+"."+v.Name())
	}
	sort.Strings(parts)
	return strings.Join(parts, ",")
}

func (s *pstate) resolve(v ssa.Value) ssa.Value {
	for i := 0; i < 20; i++ {
		switch x := v.(type) {
		case *ssa.Phi:
			if n, ok := s.env[x]; ok {
				v = n
				continue
			}
		case *ssa.UnOp:
			if x.Op == token.MUL {
				if al, ok := x.X.(*ssa.Alloc); ok {
					if n, ok := s.cells[al]; ok {
						v = n
						continue
					}
				}
				if fv := fieldOf(x.X); fv != nil {
					if n, ok := s.fields[fv]; ok {
						v = n
						continue
					}
				}
			}
		case *ssa.ChangeInterface:
			if isErr(x.X.Type()) {
				v = x.X
				continue
			}
		}
		return v
	}
	return v
}

func isNilConst(v ssa.Value) bool {
	c, ok := v.(*ssa.Const)
	return ok && c.IsNil()
}

// derivedFrom: v is e, or a value computed from e (a wrap such as fmt.Errorf("…%s", err)).
func (w *epWalk) derivedFrom(s *pstate, v ssa.Value, depth int) bool {
	v = s.resolve(v)
	if v == w.e {
		return true
	}
	if depth > 6 {
		return false
	}
	switch x := v.(type) {
	case *ssa.MakeInterface:
		return w.derivedFrom(s, x.X, depth+1)
	case *ssa.ChangeInterface:
		return w.derivedFrom(s, x.X, depth+1)
	case *ssa.Call:
		for _, a := range x.Call.Args {
			if w.derivedFrom(s, a, depth+1) {
				return true
			}
			if sl, ok := a.(*ssa.Slice); ok {
				if al, ok := sl.X.(*ssa.Alloc); ok {
					for _, ref := range *al.Referrers() {
						if ia, ok := ref.(*ssa.IndexAddr); ok {
							for _, r2 := range *ia.Referrers() {
								if st, ok := r2.(*ssa.Store); ok && st.Addr == ia && w.derivedFrom(s, st.Val, depth+1) {
									return true
								}
							}
						}
					}
				}
			}
		}
	}
	return false
}

func freshError(v ssa.Value) bool {
	c, ok := v.(*ssa.Call)
	if !ok {
		return false
	}
	sc := c.Call.StaticCallee()
	if sc == nil || sc.Pkg == nil {
		return false
	}
	n := sc.Pkg.Pkg.Path() + "." + sc.Name()
	return n == "fmt.Errorf" || n == "errors.New"
}

func (w *epWalk) walk(b *ssa.BasicBlock, from int, pred *ssa.BasicBlock, s *pstate) {
	w.steps++
	if w.steps > 20000 {
		w.und = append(w.und, "path exploration bound exceeded")
		return
	}
	if from == 0 {
		pi := -1
		for i, p := range b.Preds {
			if p == pred {
				pi = i
			}
		}
		if pi >= 0 {
			// resolve phis simultaneously
			upd := map[ssa.Value]ssa.Value{}
			for _, ins := range b.Instrs {
				phi, ok := ins.(*ssa.Phi)
				if !ok {
					break
				}
				upd[phi] = s.resolve(phi.Edges[pi])
			}
			for k, v := range upd {
				s.env[k] = v
			}
		}
		key := fmt.Sprintf("%d<%d|%s", b.Index, pi, s.fingerprint())
		if w.visited[key] {
			return
		}
		w.visited[key] = true
	}
	for i := from; i < len(b.Instrs); i++ {
		ins := b.Instrs[i]
		if ins == w.site {
			// reached the producing call again with the old (non-nil) error still pending
			if !w.visited["again"] {
				w.visited["again"] = true
				w.bad = append(w.bad, "the error is overwritten by a later execution of the same call (loop) without having been returned")
			}
			return
		}
		switch x := ins.(type) {
		case *ssa.Store:
			val := s.resolve(x.Val)
			if al, ok := x.Addr.(*ssa.Alloc); ok {
				s.cells[al] = val
			} else if fv := fieldOf(x.Addr); fv != nil && isErr(fv.Type()) {
				s.fields[fv] = val
				if val == w.e {
					w.h3[fv] = true
				}
			}
		case *ssa.If:
			cond := x.Cond
			if bo, ok := cond.(*ssa.BinOp); ok && (bo.Op == token.NEQ || bo.Op == token.EQL) {
				l, r := s.resolve(bo.X), s.resolve(bo.Y)
				isE := (l == w.e && isNilConst(r)) || (r == w.e && isNilConst(l))
				if isE {
					w.forms["nil-test"] = true
					if bo.Op == token.NEQ {
						w.walk(b.Succs[0], 0, b, s)
					} else {
						w.walk(b.Succs[1], 0, b, s)
					}
					return
				}
			}
			w.walk(b.Succs[0], 0, b, s.clone())
			w.walk(b.Succs[1], 0, b, s)
			return
		case *ssa.RunDefers:
			// a deferred closure that assigns a captured error variable without testing that it is still nil replaces
			// whatever the function was about to return
			for al, dc := range deferClobbers(w.fn) {
				where := dc.store
				// only a defer statement that has been executed on this path runs
				if dc.deferAt.Block() != b && !dc.deferAt.Block().Dominates(b) {
					continue
				}
				if cur, ok := s.cells[al]; ok && (cur == w.e || w.derivedFrom(s, cur, 0)) {
					delete(s.cells, al)
					if w.clobbered == nil {
						w.clobbered = map[*ssa.Alloc]string{}
					}
					w.clobbered[al] = w.u.Pos(where)
				}
			}
		case *ssa.Jump:
			w.walk(b.Succs[0], 0, b, s)
			return
		case *ssa.Return:
			w.ret(x, s)
			return
		case *ssa.Panic:
			w.forms["panic"] = true
			return
		}
	}
}

func (w *epWalk) ret(r *ssa.Return, s *pstate) {
	sig := w.fn.Signature
	ri := errIndex(sig)
	pos := w.u.Pos(r.Pos())
	if ri < 0 {
		for fv := range w.h3 {
			if s.fields[fv] == w.e {
				if sig.Results().Len() == 1 && types.Identical(sig.Results().At(0).Type(), types.Typ[types.Bool]) {
					if c, ok := s.resolve(r.Results[0]).(*ssa.Const); ok && c.Value != nil && c.Value.Kind() == constant.Bool && !constant.BoolVal(c.Value) {
						w.forms["H3:"+fv.Name()] = true
						return
					}
					w.bad = append(w.bad, fmt.Sprintf("error recorded in field %s but the function can return true at %s", fv.Name(), pos))
					return
				}
				w.forms["H3:"+fv.Name()] = true
				return
			}
		}
		w.bad = append(w.bad, fmt.Sprintf("enclosing function has no error result and the error is not recorded anywhere (return at %s)", pos))
		return
	}
	R := s.resolve(r.Results[ri])
	switch {
	case R == w.e:
		w.forms["H1"] = true
	case w.derivedFrom(s, R, 0):
		w.forms["H2-wrap"] = true
	case isNilConst(R):
		w.bad = append(w.bad, fmt.Sprintf("returns a nil error at %s on a path where the resource error is non-nil", pos))
	case freshError(R):
		w.forms["H2-fresh"] = true
	default:
		if ld, ok := R.(*ssa.UnOp); ok && ld.Op == token.MUL {
			if al, ok := ld.X.(*ssa.Alloc); ok {
				if where, ok := w.clobbered[al]; ok {
					w.bad = append(w.bad, fmt.Sprintf("the error is in the result variable when the function returns at %s, but a deferred function assigns that variable at %s without testing that it is still nil: when the deferred call succeeds the failure is turned into a nil error", pos, where))
					return
				}
			}
		}
		// the error value of ANOTHER call that ran before the failing one (typically the outer variable of a shadowed
		// `err :=`): whatever it holds, it is not the resource error of this path
		if oc := errorOrigin(R); oc != nil && w.e != nil {
			if ec := errorOrigin(w.e); ec != nil && oc != ec && (oc.Block() != ec.Block() && oc.Block().Dominates(ec.Block()) || oc.Block() == ec.Block() && instrIndex(oc) < instrIndex(ec)) {
				w.bad = append(w.bad, fmt.Sprintf("returns at %s the error value of the earlier call at %s, not the resource error of this path (a shadowed error variable?): the failure is reported only if that other value happens to be non-nil", pos, w.u.Pos(oc.Pos())))
				return
			}
		}
		w.und = append(w.und, fmt.Sprintf("return at %s yields %s (%T), not recognisably the error", pos, R.Name(), R))
	}
}

// errorOrigin: the call whose error result v is (directly or as a tuple component).
func errorOrigin(v ssa.Value) *ssa.Call {
	switch x := v.(type) {
	case *ssa.Call:
		return x
	case *ssa.Extract:
		if c, ok := x.Tuple.(*ssa.Call); ok {
			return c
		}
	}
	return nil
}

func instrIndex(ins ssa.Instruction) int {
	for i, x := range ins.Block().Instrs {
		if x == ins {
			return i
		}
	}
	return -1
}

// checkErrorHandled decides one EP obligation.
func checkErrorHandled(u *Universe, s *OpSite) (status, why string, h3 []*types.Var) {
	if _, ok := s.Site.(*ssa.Defer); ok {
		return Violated, "error dropped: call is deferred, its error result is discarded", nil
	}
	if _, ok := s.Site.(*ssa.Go); ok {
		return Violated, "error dropped: call runs in a new goroutine, its error result is discarded", nil
	}
	call := s.Site.(*ssa.Call)
	var e ssa.Value
	if _, isTuple := call.Type().(*types.Tuple); isTuple {
		for _, ref := range *call.Referrers() {
			if ex, ok := ref.(*ssa.Extract); ok && ex.Index == s.ErrIdx {
				e = ex
			}
		}
		if e == nil {
			return Violated, "error dropped: the error component of the result is never extracted (assigned to _ or ignored)", nil
		}
	} else {
		e = call
	}
	n := 0
	for _, ref := range *e.Referrers() {
		if _, ok := ref.(*ssa.DebugRef); !ok {
			n++
		}
	}
	if n == 0 {
		return Violated, "error dropped: the error value has no use (ignored or overwritten before being looked at)", nil
	}
	w := &epWalk{u: u, e: e, site: call, fn: s.Fn, visited: map[string]bool{}, forms: map[string]bool{}, h3: map[*types.Var]bool{}}
	b := call.Block()
	idx := 0
	for i, ins := range b.Instrs {
		if ins == ssa.Instruction(call) {
			idx = i
		}
	}
	w.walk(b, idx+1, nil, &pstate{env: map[ssa.Value]ssa.Value{}, cells: map[*ssa.Alloc]ssa.Value{}, fields: map[*types.Var]ssa.Value{}})
	var forms []string
	for f := range w.forms {
		forms = append(forms, f)
	}
	sort.Strings(forms)
	for fv := range w.h3 {
		h3 = append(h3, fv)
	}
	if len(w.bad) > 0 {
		return Violated, strings.Join(w.bad, "; "), h3
	}
	if len(w.und) > 0 {
		return Undecided, strings.Join(w.und, "; "), h3
	}
	if len(forms) == 0 {
		return Undecided, "no return reached from the call", h3
	}
	return Discharged, "handled: " + strings.Join(forms, ","), h3
}

// checkSticky verifies the H3 side conditions for a sticky error field:
// an exported method returns it, and Scan does nothing once it is set.
func checkSticky(u *Universe, r *Report, rule string, fv *types.Var) {
	// find the named struct type owning fv
	var owner *types.Named
	var ownerPkg string
	for path, sp := range u.SSAPkgs {
		if !u.uni[path] {
			continue
		}
		for _, m := range sp.Members {
			tn, ok := m.(*ssa.Type)
			if !ok {
				continue
			}
			named, ok := tn.Type().(*types.Named)
			if !ok {
				continue
			}
			st, ok := named.Underlying().(*types.Struct)
			if !ok {
				continue
			}
			for i := 0; i < st.NumFields(); i++ {
				if st.Field(i) == fv {
					owner, ownerPkg = named, path
				}
			}
		}
	}
	key := fmt.Sprintf("field %s", fv.Name())
	if owner == nil {
		r.undecided(rule+"/H3", key, u.Pos(fv.Pos()), "owner type of sticky error field not found")
		return
	}
	key = strings.ReplaceAll(ownerPkg, "uni/tc/", "tc/") + "." + owner.Obj().Name() + "." + fv.Name()
	ms := u.Prog.MethodSets.MethodSet(types.NewPointer(owner))
	reported, scanOK, scanSeen := "", false, false
	for i := 0; i < ms.Len(); i++ {
		fn := u.Prog.MethodValue(ms.At(i))
		if fn == nil || fn.Blocks == nil {
			continue
		}
		// reporter: exported, returns error, every return yields a load of the field
		if fn.Object() != nil && fn.Object().Exported() && errIndex(fn.Signature) == 0 && fn.Signature.Results().Len() == 1 && fn.Signature.Params().Len() == 0 {
			all := true
			for _, b := range fn.Blocks {
				if ret, ok := b.Instrs[len(b.Instrs)-1].(*ssa.Return); ok {
					ld, ok := ret.Results[0].(*ssa.UnOp)
					if !ok || ld.Op != token.MUL || fieldOf(ld.X) != fv {
						all = false
					}
				}
			}
			if all {
				reported = fn.Name()
			}
		}
		if fn.Name() == "Scan" {
			scanSeen = true
			// entry block must test field != nil and return at once when set, before any call
			eb := fn.Blocks[0]
			okShape := false
			if iff, ok := eb.Instrs[len(eb.Instrs)-1].(*ssa.If); ok {
				if bo, ok := iff.Cond.(*ssa.BinOp); ok && (bo.Op == token.NEQ || bo.Op == token.EQL) {
					var ld ssa.Value
					if isNilConst(bo.Y) {
						ld = bo.X
					} else if isNilConst(bo.X) {
						ld = bo.Y
					}
					if un, ok := ld.(*ssa.UnOp); ok && un.Op == token.MUL && fieldOf(un.X) == fv {
						tgt := eb.Succs[0]
						if bo.Op == token.EQL {
							tgt = eb.Succs[1]
						}
						_, isRet := tgt.Instrs[len(tgt.Instrs)-1].(*ssa.Return)
						calls := false
						for _, ins := range append(append([]ssa.Instruction{}, eb.Instrs...), tgt.Instrs...) {
							if _, ok := ins.(ssa.CallInstruction); ok {
								calls = true
							}
						}
						okShape = isRet && !calls
					}
				}
			}
			scanOK = okShape
		}
	}
	pos := u.Pos(fv.Pos())
	if reported == "" {
		r.bad(rule+"/H3", key+" reported", pos, "sticky error field is not returned by any exported niladic method of its type")
	} else {
		r.ok(rule+"/H3", key+" reported", pos, "returned by "+reported+"()")
	}
	if !scanSeen {
		r.undecided(rule+"/H3", key+" scan-guard", pos, "no Scan method found on the type holding the sticky error")
	} else if !scanOK {
		r.bad(rule+"/H3", key+" scan-guard", pos, "Scan is not a no-op once the sticky error is set (no leading `if err != nil { return }`)")
	} else {
		r.ok(rule+"/H3", key+" scan-guard", pos, "Scan returns before doing anything when the sticky error is set")
	}
}

// runEP emits one obligation per resource-operation site (optionally filtered).
func runEP(u *Universe, r *Report, rule string, ops *Ops, keep func(*OpSite) bool) {
	sticky := map[*types.Var]bool{}
	for _, s := range ops.Sites {
		if keep != nil && !keep(s) {
			continue
		}
		kind := map[SiteKind]string{Primitive: "primitive", Derived: "derived", ParamDyn: "param-dynamic"}[s.Kind]
		r.count(rule+"/"+kind, 1)
		key := fmt.Sprintf("%s -> %s #%d", u.FnName(s.Fn), s.Callee, s.Ord)
		pos := u.Pos(s.Site.Pos())
		if s.ErrIdx < 0 {
			r.count(rule+"/no-error-result", 1)
			continue
		}
		st, why, h3 := checkErrorHandled(u, s)
		if s.Note != "" {
			why += " [" + s.Note + "]"
		}
		r.add(rule, key, st, pos, kind+": "+why)
		for _, fv := range h3 {
			sticky[fv] = true
		}
	}
	var fvs []*types.Var
	for fv := range sticky {
		fvs = append(fvs, fv)
	}
	sort.Slice(fvs, func(i, j int) bool { return fvs[i].Pos() < fvs[j].Pos() })
	for _, fv := range fvs {
		checkSticky(u, r, rule, fv)
	}
}

type deferClobber struct {
	deferAt *ssa.Defer
	store   token.Pos
}

var deferClobberMemo = map[*ssa.Function]map[*ssa.Alloc]deferClobber{}

// deferClobbers: the error-typed local variables (allocs captured by reference) of fn that a deferred closure of fn
// stores to on a path that has not established `variable == nil`.
func deferClobbers(fn *ssa.Function) map[*ssa.Alloc]deferClobber {
	if m, ok := deferClobberMemo[fn]; ok {
		return m
	}
	out := map[*ssa.Alloc]deferClobber{}
	deferClobberMemo[fn] = out
	for _, b := range fn.Blocks {
		for _, ins := range b.Instrs {
			d, ok := ins.(*ssa.Defer)
			if !ok {
				continue
			}
			mc, ok := d.Call.Value.(*ssa.MakeClosure)
			if !ok {
				continue
			}
			cl, ok := mc.Fn.(*ssa.Function)
			if !ok {
				continue
			}
			for i, bnd := range mc.Bindings {
				al, ok := bnd.(*ssa.Alloc)
				if !ok || i >= len(cl.FreeVars) {
					continue
				}
				pt, ok := al.Type().(*types.Pointer)
				if !ok || !isErr(pt.Elem()) {
					continue
				}
				fv := cl.FreeVars[i]
				for _, cb := range cl.Blocks {
					for _, ci := range cb.Instrs {
						st, ok := ci.(*ssa.Store)
						if !ok || st.Addr != ssa.Value(fv) {
							continue
						}
						if isNilConst(st.Val) {
							continue
						}
						stillNil := guarded(cb, func(iff *ssa.If, truth bool) bool {
							bo, ok := iff.Cond.(*ssa.BinOp)
							if !ok {
								return false
							}
							ld, ok := bo.X.(*ssa.UnOp)
							if !ok || ld.Op != token.MUL || ld.X != ssa.Value(fv) || !isNilConst(bo.Y) {
								return false
							}
							return (bo.Op == token.EQL && truth) || (bo.Op == token.NEQ && !truth)
						}, 0)
						if !stillNil {
							out[al] = deferClobber{d, st.Pos()}
						}
					}
				}
			}
		}
	}
	return out
}
