package main

// Positive / negative controls (DESIGN.md §7): tiny packages under checker/controls/<rule>/ whose functions and
// variables named Bad* must be reported by the rule and those named Good* must not. They are loaded into the
// universe of every check that uses the rule and analysed on every run; a control that misbehaves fails the check
// ("checker broken"). This keeps zero-count rules honest.

import (
	"fmt"
	"go/types"
	"sort"
	"strings"

	"golang.org/x/tools/go/ssa"
)

func (u *Universe) isCtl(f *ssa.Function) bool {
	return strings.HasPrefix(u.pkgPathOf(f), "uni/ctl/")
}

func (u *Universe) ctlFuncs(name string) []*ssa.Function {
	var out []*ssa.Function
	for _, f := range u.Funcs {
		if u.pkgPathOf(f) == "uni/ctl/"+name && f.Synthetic == "" && f.Parent() == nil && f.Name() != "init" {
			out = append(out, f)
		}
	}
	return out
}

// control records one control outcome: flagged must equal (name starts with "Bad").
func (c *Ctx) control(rule, name string, flagged bool, detail string) {
	short := name
	if i := strings.LastIndex(short, "."); i >= 0 {
		short = short[i+1:]
	}
	short = strings.TrimPrefix(short, "(")
	wantBad := strings.HasPrefix(short, "Bad")
	wantGood := strings.HasPrefix(short, "Good")
	if !wantBad && !wantGood {
		return
	}
	switch {
	case wantBad && flagged:
		c.R.Controls = append(c.R.Controls, fmt.Sprintf("%s: %s reported as expected", rule, name))
	case wantGood && !flagged:
		c.R.Controls = append(c.R.Controls, fmt.Sprintf("%s: %s silent as expected", rule, name))
	case wantBad:
		c.R.failf("control failed: rule %s does not report the seeded violation in %s — checker broken", rule, name)
	default:
		c.R.failf("control failed: rule %s raises a false alarm on %s (%s) — checker broken", rule, name, detail)
	}
	c.R.count("controls/"+rule, 1)
}

func firstParamOfType(f *ssa.Function, want string) ssa.Value {
	for _, p := range f.Params {
		if types.TypeString(p.Type(), nil) == want {
			return p
		}
	}
	return nil
}

func (c *Ctx) controlsEP() {
	u := c.U
	fns := u.ctlFuncs("ep")
	if len(fns) == 0 {
		c.R.failf("EP controls not loaded")
		return
	}
	var seeds []ssa.Value
	for _, f := range fns {
		if p := firstParamOfType(f, "io.Writer"); p != nil {
			seeds = append(seeds, p)
		}
	}
	t := u.NewTaint(seeds...)
	ops := BuildOps(u, t)
	flagged := map[*ssa.Function]string{}
	seen := map[*ssa.Function]bool{}
	for _, s := range ops.Sites {
		if !u.isCtl(s.Fn) || s.ErrIdx < 0 {
			continue
		}
		seen[s.Fn] = true
		st, why, _ := checkErrorHandled(u, s)
		if st != Discharged {
			flagged[s.Fn] = why
		}
	}
	for _, f := range fns {
		if !seen[f] {
			c.R.failf("control failed: EP found no resource operation in %s", f.Name())
			continue
		}
		_, bad := flagged[f]
		c.control("EP", u.FnName(f), bad, flagged[f])
	}
	c.R.floor("controls/EP", 8, "5 bad + 4 good EP control functions")
}

func (c *Ctx) controlsSR() {
	u := c.U
	fns := u.ctlFuncs("sr")
	if len(fns) == 0 {
		c.R.failf("SR controls not loaded")
		return
	}
	var seeds []ssa.Value
	for _, f := range fns {
		if p := firstParamOfType(f, "io.Reader"); p != nil {
			seeds = append(seeds, p)
		}
	}
	t := u.NewTaint(seeds...)
	tmp := newReport("ctl", "quick", 0, "other")
	runSR(u, tmp, t, func(f *ssa.Function) bool { return u.isCtl(f) })
	for _, f := range u.Funcs {
		if u.pkgPathOf(f) != "uni/ctl/sr" || f.Synthetic != "" || f.Name() == "init" {
			continue
		}
		name := u.FnName(f)
		flagged, detail, any := false, "", false
		for _, o := range tmp.Obs {
			if strings.HasPrefix(o.Key, name+" -> ") {
				any = true
				if o.Status != Discharged {
					flagged, detail = true, o.Why
				}
			}
		}
		short := f.Name()
		if short == "Read" {
			short = "GoodForward"
		}
		if !any && strings.HasPrefix(short, "Bad") {
			c.R.failf("control failed: SR found no consumption of the source in %s", name)
			continue
		}
		c.control("SR", "ctl/sr."+short, flagged, detail)
	}
	c.R.floor("controls/SR", 3, "1 bad + 3 good SR controls")
}

func (c *Ctx) controlsND() {
	u := c.U
	fns := u.ctlFuncs("nd")
	if len(fns) == 0 {
		c.R.failf("ND controls not loaded")
		return
	}
	for _, f := range fns {
		found := ndScanFn(u, f)
		c.control("ND", u.FnName(f), len(found) > 0, strings.Join(found, "; "))
	}
	c.R.floor("controls/ND", 6, "5 bad + 1 good ND controls")
}

func (c *Ctx) controlsGL() {
	u := c.U
	sp := u.SSAPkgs["uni/ctl/gl"]
	if sp == nil {
		c.R.failf("GL controls not loaded")
		return
	}
	var names []string
	for n, m := range sp.Members {
		if _, ok := m.(*ssa.Global); ok && !strings.HasPrefix(n, "init$") {
			names = append(names, n)
		}
	}
	sort.Strings(names)
	for _, n := range names {
		g := sp.Members[n].(*ssa.Global)
		elem := g.Type().(*types.Pointer).Elem()
		flagged, detail := false, ""
		if !concurrencySafeTypes[elem.String()] {
			bad, und := globalMutations(u, g)
			flagged = len(bad)+len(und) > 0
			detail = strings.Join(append(bad, und...), "; ")
		}
		c.control("GL", "ctl/gl."+n, flagged, detail)
	}
	c.R.floor("controls/GL", 5, "3 bad + 2 good GL controls")
}

func (c *Ctx) controlsPO() {
	u := c.U
	fns := u.ctlFuncs("po")
	if len(fns) == 0 {
		c.R.failf("PO controls not loaded")
		return
	}
	p := &poAn{u: u, memo: map[string]*poSummary{}}
	for _, f := range fns {
		tmp := newReport("ctl", "quick", 0, "other")
		poFunction(u, p, tmp, f)
		flagged, detail := false, ""
		for _, o := range tmp.Obs {
			if o.Status != Discharged {
				flagged, detail = true, o.Rule+": "+o.Why
			}
		}
		if len(tmp.Obs) == 0 {
			c.R.failf("control failed: PO found no pool Get in %s", f.Name())
			continue
		}
		c.control("PO", u.FnName(f), flagged, detail)
	}
	c.R.floor("controls/PO", 5, "4 bad + 1 good PO controls")
}
