package main

// TV-reuse (C05): the shape grammar of the corpus gives every group its own struct type. A struct type may just as well
// be used for several fields (`Home Address; Work *Address`): a handful of such structs are run through the same
// translation validation as the corpus (TV-compile, TV-fields, TV-shred, TV-asm against the reference computed from
// go/types) — each use of the type must yield its own columns. Only structs that the pinned generator handles are
// listed (the case analysis for deeper shapes is known finding D6).

import (
	"fmt"
	"sort"
)

func typeReuseSources() map[string]string {
	a := "type A struct {\n\tX int32 `parquet:\"x\"`\n\tY *int32 `parquet:\"y\"`\n}\n\n"
	mk := func(fields string) string {
		return "package s\n\n" + a + "type Rec struct {\n" + fields + "}\n"
	}
	return map[string]string{
		"reuse R{q:A,o:A}":   mk("\tN0 A `parquet:\"n0\"`\n\tN1 *A `parquet:\"n1\"`\n"),
		"reuse R{q:A,q:A}":   mk("\tN0 A `parquet:\"n0\"`\n\tN1 A `parquet:\"n1\"`\n"),
		"reuse R{o:A,o:A}":   mk("\tN0 *A `parquet:\"n0\"`\n\tN1 *A `parquet:\"n1\"`\n"),
		"reuse R{q:A,q,r:A}": mk("\tN0 A `parquet:\"n0\"`\n\tN1 int32 `parquet:\"n1\"`\n\tN2 []A `parquet:\"n2\"`\n"),
	}
}

func runTypeReuse(c *Ctx) {
	r := c.R
	cp, err := newCorpus(c.U)
	if err != nil {
		r.failf("corpus: %v", err)
		return
	}
	srcs := typeReuseSources()
	var keys []string
	for k := range srcs {
		keys = append(keys, k)
	}
	sort.Strings(keys)
	var items []corpusItem
	for _, k := range keys {
		items = append(items, corpusItem{key: k, src: srcs[k]})
	}
	res := cp.runAll(items, false)
	for _, sr := range res {
		r.count("TV-reuse/structs", 1)
		key := sr.item.key
		switch {
		case sr.text == nil:
			r.bad("TV-reuse", key+" generate", "", "parquetgen fails on a struct that uses one struct type for two fields: "+oneLine(sr.genOut))
		case len(sr.errFuncs) > 0 || len(sr.typeErrs) > 0:
			msg := ""
			if len(sr.typeErrs) > 0 {
				msg = sr.typeErrs[0]
			}
			r.bad("TV-reuse", key+" compile", "", "the program generated for a struct that uses one struct type for two fields does not type-check: "+msg)
		case len(sr.viol) > 0:
			f := sr.viol[0]
			r.bad("TV-reuse", key+" col "+f.col, "", fmt.Sprintf("%s: %s (a struct type used for two fields: every use must yield its own columns; got columns %v)", f.rule, f.msg, sr.colNames))
		default:
			r.ok("TV-reuse", key, "", fmt.Sprintf("columns %v, shredders and assemblers match the reference", sr.colNames))
		}
	}
	r.floor("TV-reuse/structs", 3, "hand-written structs with a reused type")
}
