package main

// Shape corpus (DESIGN.md §2 C_shape): exhaustive enumerator of the bounded struct grammar of C05.

import (
	"fmt"
	"strings"
)

type Kind int

const (
	Req Kind = iota
	Opt
	Rep
)

func (k Kind) L() string { return [...]string{"q", "o", "r"}[k] }
func (k Kind) Prefix() string {
	return [...]string{"", "*", "[]"}[k]
}

type Node struct {
	Kind     Kind
	Leaf     bool
	Elem     string // leaf element type, "" = int32
	Children []*Node
}

func (n *Node) elem() string {
	if n.Elem == "" {
		return "int32"
	}
	return n.Elem
}

func (n *Node) String() string {
	if n.Leaf {
		if n.Elem != "" {
			return n.Kind.L() + ":" + n.Elem
		}
		return n.Kind.L()
	}
	var cs []string
	for _, c := range n.Children {
		cs = append(cs, c.String())
	}
	return n.Kind.L() + "{" + strings.Join(cs, ",") + "}"
}

func leaves() []*Node {
	return []*Node{{Kind: Req, Leaf: true}, {Kind: Opt, Leaf: true}, {Kind: Rep, Leaf: true}}
}

func groups(opts []*Node, maxch int) []*Node {
	var out []*Node
	for k := Req; k <= Rep; k++ {
		for n := 1; n <= maxch; n++ {
			idx := make([]int, n)
			for {
				ch := make([]*Node, n)
				for i, j := range idx {
					ch[i] = opts[j]
				}
				out = append(out, &Node{Kind: k, Children: ch})
				p := n - 1
				for p >= 0 {
					idx[p]++
					if idx[p] < len(opts) {
						break
					}
					idx[p] = 0
					p--
				}
				if p < 0 {
					break
				}
			}
		}
	}
	return out
}

// Shape is the root's children.
type Shape []*Node

func (s Shape) String() string {
	var cs []string
	for _, c := range s {
		cs = append(cs, c.String())
	}
	return "R{" + strings.Join(cs, ",") + "}"
}

func allShapes() []Shape {
	L := leaves()
	G3 := groups(L, 1)
	N2 := append(append([]*Node{}, L...), G3...)
	G2 := groups(N2, 2)
	rootch := append(append([]*Node{}, L...), G2...)
	var out []Shape
	for _, c := range rootch { // G1: 471
		out = append(out, Shape{c})
	}
	// G2: pairs of small nodes: leaf | group with one child (leaf | one-leaf group)
	G2s := groups(N2, 1)
	small := append(append([]*Node{}, L...), G2s...)
	for _, a := range small {
		for _, b := range small {
			out = append(out, Shape{a, b})
		}
	}
	return out
}

func (s Shape) Source(pkg string) string {
	var types []string
	ctr := 0
	var mk func(children []*Node, name string)
	mk = func(children []*Node, name string) {
		var fields []string
		for _, c := range children {
			fn := fmt.Sprintf("N%d", ctr)
			ctr++
			if c.Leaf {
				fields = append(fields, fmt.Sprintf("\t%s %s%s `parquet:\"%s\"`", fn, c.Kind.Prefix(), c.elem(), strings.ToLower(fn)))
			} else {
				tn := name + fn
				mk(c.Children, tn)
				fields = append(fields, fmt.Sprintf("\t%s %s%s `parquet:\"%s\"`", fn, c.Kind.Prefix(), tn, strings.ToLower(fn)))
			}
		}
		types = append(types, fmt.Sprintf("type %s struct {\n%s\n}\n", name, strings.Join(fields, "\n")))
	}
	mk(s, "Rec")
	return "package " + pkg + "\n\n// shape: " + s.String() + "\n\n" + strings.Join(types, "\n")
}

// SourceDeco derives a decorated variant of the shape (C14): mode 1 = excluded fields (unexported, and exported but
// tagged "-", of assorted Go types) inserted at every position; mode 2 = the struct's whole field run moved into an
// embedded struct (mode 12: embedded through a pointer); mode 3 = every leaf column is declared together with an unexported field of the same type
// (`N0, hidden0 int32`). level -1 decorates every struct, otherwise only structs at that nesting depth (0 = root).
func (s Shape) SourceDeco(pkg string, mode, level int) string {
	var types []string
	ctr := 0
	var mk func(children []*Node, name string, depth int)
	mk = func(children []*Node, name string, depth int) {
		on := level < 0 || level == depth
		var fields []string
		excl := func(i int) {
			if mode == 1 && on {
				fields = append(fields, fmt.Sprintf("\tpriv%d map[string]*%s", i, name))
				fields = append(fields, fmt.Sprintf("\tSkip%d []chan int `parquet:\"-\"`", i))
				// the exclusion among other keys, separated the way hand-written tags sometimes are (comma, tab)
				fields = append(fields, fmt.Sprintf("\tSkipc%d int32 `json:\"j%d,omitempty\",parquet:\"-\"`", i, i))
				fields = append(fields, fmt.Sprintf("\tSkipt%d *string `db:\"c%d\"\tparquet:\"-\"`", i, i))
			}
		}
		excl(0)
		if mode == 7 && on {
			// excluded EMBEDDED structs: one tagged "-", one of an unexported type; their exported fields must not become columns
			k := len(types)
			types = append(types, fmt.Sprintf("type SkipEmb%d struct {\n\tGhost%d int32 `parquet:\"ghost%d\"`\n\tC%d chan int\n}\n", k, k, k, k))
			types = append(types, fmt.Sprintf("type hiddenEmb%d struct {\n\tPhantom%d *string `parquet:\"phantom%d\"`\n}\n", k, k, k))
			fields = append(fields, fmt.Sprintf("\tSkipEmb%d `parquet:\"-\"`", k))
			fields = append(fields, fmt.Sprintf("\thiddenEmb%d", k))
		}
		for i, c := range children {
			fn := fmt.Sprintf("N%d", ctr)
			ctr++
			if c.Leaf {
				names := fn
				if mode == 3 && on {
					// an unexported field declared together with a column: `N0, hidden0 int32`
					names = fmt.Sprintf("%s, hidden%d", fn, ctr-1)
				}
				if mode == 11 && on {
					// … with the unexported name first: `hidden0, N0 int32`
					names = fmt.Sprintf("hidden%d, %s", ctr-1, fn)
				}
				fields = append(fields, fmt.Sprintf("\t%s %s%s%s", names, c.Kind.Prefix(), c.elem(), tagFor(mode, fn, ctr)))
			} else {
				tn := name + fn
				mk(c.Children, tn, depth+1)
				fields = append(fields, fmt.Sprintf("\t%s %s%s%s", fn, c.Kind.Prefix(), tn, tagFor(mode, fn, ctr)))
			}
			excl(i + 1)
		}
		if (mode == 2 || mode == 12) && on {
			// mode 12: embedded through a pointer (`*RecEmb`)
			star := ""
			if mode == 12 {
				star = "*"
			}
			types = append(types, fmt.Sprintf("type %sEmb struct {\n%s\n}\n", name, strings.Join(fields, "\n")))
			types = append(types, fmt.Sprintf("type %s struct {\n\t%s%sEmb\n}\n", name, star, name))
		} else {
			types = append(types, fmt.Sprintf("type %s struct {\n%s\n}\n", name, strings.Join(fields, "\n")))
		}
	}
	mk(s, "Rec", 0)
	hdr := "package " + pkg + "\n\n// shape: " + s.String() + fmt.Sprintf(" deco mode %d level %d", mode, level) + "\n\n"
	switch mode {
	case 8, 9:
		// source-form variants: the root struct declared first (9), all types in one grouped declaration, root first (8)
		rev := make([]string, 0, len(types))
		for i := len(types) - 1; i >= 0; i-- {
			rev = append(rev, types[i])
		}
		if mode == 9 {
			return hdr + strings.Join(rev, "\n")
		}
		var specs []string
		for _, t := range rev {
			specs = append(specs, "\t"+strings.Replace(strings.TrimSuffix(strings.TrimPrefix(t, "type "), "\n"), "\n", "\n\t", -1))
		}
		return hdr + "type (\n" + strings.Join(specs, "\n\n") + "\n)\n"
	}
	return hdr + strings.Join(types, "\n")
}

// tagFor: the struct tag of a field. Modes 4-6 vary only the tag: 4 = the parquet key between other keys (inert),
// 5 = no tag at all (the column is named after the field), 6 = a parquet tag spelling out the field name (= mode 5),
// 13/14 = a column name containing a hyphen / the same name with a marker instead of the hyphen.
const hyphenMarker = "QHYQ"

func tagFor(mode int, fn string, n int) string {
	switch mode {
	case 4:
		return fmt.Sprintf(" `json:\"j%d,omitempty\" parquet:\"%s\" db:\"-\"`", n, strings.ToLower(fn))
	case 5:
		return ""
	case 6:
		return fmt.Sprintf(" `parquet:\"%s\"`", fn)
	case 13:
		// a column name containing a hyphen (only the tag "-" alone excludes a field)
		return fmt.Sprintf(" `parquet:\"%s-col\"`", strings.ToLower(fn))
	case 14:
		// the same with a marker in place of the hyphen: the two programs must agree up to the marker
		return fmt.Sprintf(" `parquet:\"%s%scol\"`", strings.ToLower(fn), hyphenMarker)
	}
	return fmt.Sprintf(" `parquet:\"%s\"`", strings.ToLower(fn))
}

func (s Shape) depth() int {
	var d func(n []*Node) int
	d = func(ns []*Node) int {
		m := 0
		for _, n := range ns {
			if !n.Leaf {
				if x := 1 + d(n.Children); x > m {
					m = x
				}
			}
		}
		return m
	}
	return d(s)
}

// typeShapes: one top-level leaf per primitive type and kind (template code per element type).
func typeShapes() []Shape {
	var out []Shape
	for _, t := range []string{"int32", "uint32", "int64", "uint64", "float32", "float64", "bool", "string"} {
		for k := Req; k <= Rep; k++ {
			if t == "int32" {
				continue // covered by G1
			}
			out = append(out, Shape{{Kind: k, Leaf: true, Elem: t}})
		}
	}
	return out
}

// g1Count: number of single-child roots produced first by allShapes.
func g1Count() int {
	L := leaves()
	G3 := groups(L, 1)
	N2 := append(append([]*Node{}, L...), G3...)
	return len(L) + len(groups(N2, 2))
}
