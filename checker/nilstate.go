package main

// NS — state of the other role (C09, C10 "does not panic"): a Metadata / column object serves a writer or a reader. A
// pointer-, map- or interface-typed field that is only ever stored by code of ONE role is nil in every instance of the
// other role; code reachable from the other role's API must not dereference it (the typical slip: an error message on
// the write path that calls a reader-side accessor such as Rows()). Dereferences guarded by a nil test of the same
// field are accepted.

import (
	"fmt"
	"go/token"
	"go/types"
	"sort"
	"strings"

	"golang.org/x/tools/go/ssa"
)

func writerRoots(c *Ctx) []*ssa.Function {
	var out []*ssa.Function
	for _, p := range c.U.TC {
		for _, m := range []string{"NewParquetWriter", "ParquetWriter.Add", "ParquetWriter.Write", "ParquetWriter.Close"} {
			if f := c.U.Func(p, m); f != nil {
				out = append(out, f)
			}
		}
	}
	return out
}

// runNilState: side = "writer" checks writer-reachable code against reader-only state; side = "reader" the converse.
func runNilState(c *Ctx, rule, side string) {
	r, u := c.R, c.U
	roots := sourceRoots(c)
	wr := u.reach(writerRoots(c))
	rd := u.reach(append(append([]*ssa.Function{}, roots.reader...), roots.intro...))
	mine, other := wr, rd
	if side == "reader" {
		mine, other = rd, wr
	}
	nilable := func(t types.Type) bool {
		switch t.Underlying().(type) {
		case *types.Pointer, *types.Map, *types.Interface:
			return true
		}
		return false
	}
	// stores per field, over the whole universe
	storedIn := map[*types.Var][]*ssa.Function{}
	for _, f := range u.Funcs {
		if f.Synthetic != "" {
			continue
		}
		for _, b := range f.Blocks {
			for _, ins := range b.Instrs {
				if st, ok := ins.(*ssa.Store); ok {
					if fl := fieldOf(st.Addr); fl != nil && nilable(fl.Type()) && fl.Pkg() != nil && fl.Pkg().Path() == rtPath {
						if !isNilConst(st.Val) {
							storedIn[fl] = append(storedIn[fl], f)
						}
					}
				}
			}
		}
	}
	var foreign []*types.Var // stored only by the other role
	for fl, fns := range storedIn {
		only := true
		for _, f := range fns {
			if mine[f] || !other[f] {
				only = false
			}
		}
		if only {
			foreign = append(foreign, fl)
		}
	}
	sort.Slice(foreign, func(i, j int) bool { return foreign[i].Name() < foreign[j].Name() })
	isForeign := map[*types.Var]bool{}
	for _, fl := range foreign {
		isForeign[fl] = true
	}
	r.count(rule+"/"+side+"-foreign-fields", len(foreign))
	r.floor(rule+"/"+side+"-foreign-fields", 1, "Metadata.metadata is set by ReadFooter only / the serializer by New's writer half")
	var fns []*ssa.Function
	for f := range mine {
		if f.Synthetic == "" {
			fns = append(fns, f)
		}
	}
	sort.Slice(fns, func(i, j int) bool { return fns[i].Pos() < fns[j].Pos() })
	n := 0
	for _, f := range fns {
		for _, b := range f.Blocks {
			for _, ins := range b.Instrs {
				var base ssa.Value
				switch x := ins.(type) {
				case *ssa.FieldAddr:
					base = x.X
				case *ssa.IndexAddr:
					base = x.X
				case *ssa.UnOp:
					if x.Op == token.MUL {
						base = x.X
					}
				case *ssa.Call:
					if x.Call.IsInvoke() {
						base = x.Call.Value
					}
				}
				if base == nil {
					continue
				}
				fl := fieldOfLoad(base)
				if fl == nil || !isForeign[fl] {
					continue
				}
				n++
				key := fmt.Sprintf("%s uses %s", u.FnName(f), fl.Name())
				guardedNil := false
				for _, g := range controlling(b) {
					if bo, ok := g.iff.Cond.(*ssa.BinOp); ok && fieldOfLoad(bo.X) == fl && isNilConst(bo.Y) {
						if (bo.Op == token.NEQ && g.truth) || (bo.Op == token.EQL && !g.truth) {
							guardedNil = true
						}
					}
				}
				var setters []string
				for _, s := range storedIn[fl] {
					setters = append(setters, u.FnName(s))
				}
				sort.Strings(setters)
				if guardedNil {
					r.ok(rule, key, u.Pos(ins.Pos()), "under a nil test of the field")
				} else {
					r.bad(rule, key, u.Pos(ins.Pos()), fmt.Sprintf("%s is reachable from the %s API and dereferences %s, which only %s-side code sets (%s): on a %s it is nil and the call panics instead of returning", u.FnName(f), side, fl.Name(), map[string]string{"writer": "reader", "reader": "writer"}[side], strings.Join(setters, ", "), side))
				}
			}
		}
	}
	r.count(rule+"/"+side+"-uses", n)
	r.count(rule+"/"+side+"-functions", len(fns))
	r.floor(rule+"/"+side+"-functions", 10, "functions reachable from the API of that role")
}
