package main

// LA-len, LA-frame (C02): every byte of every page reaches the sizes it must be
// reported in; framing of the file. A small interprocedural evaluator of linear
// integer forms over slice lengths (DESIGN.md §4 LA-len).

import (
	"fmt"
	"go/constant"
	"go/token"
	"go/types"
	"sort"
	"strings"

	"golang.org/x/tools/go/ssa"
)

func init() {
	register("C02", "other", LoadOpts{TC: true, SSA: true, NeedGen: true, Controls: []string{"cells", "cells2"}}, checkC02)
}

type lform struct {
	terms map[string]int
	konst int64
	top   string // non-empty: not a linear form (reason)
}

func (f lform) String() string {
	if f.top != "" {
		return "?(" + f.top + ")"
	}
	var ks []string
	for k, n := range f.terms {
		if n == 1 {
			ks = append(ks, k)
		} else if n != 0 {
			ks = append(ks, fmt.Sprintf("%d*%s", n, k))
		}
	}
	sort.Strings(ks)
	if f.konst != 0 || len(ks) == 0 {
		ks = append(ks, fmt.Sprint(f.konst))
	}
	return strings.Join(ks, " + ")
}

func atom(s string) lform { return lform{terms: map[string]int{s: 1}} }

func addForms(a, b lform, sign int) lform {
	if a.top != "" {
		return a
	}
	if b.top != "" {
		return b
	}
	out := lform{terms: map[string]int{}, konst: a.konst + int64(sign)*b.konst}
	for k, v := range a.terms {
		out.terms[k] += v
	}
	for k, v := range b.terms {
		out.terms[k] += sign * v
	}
	for k, v := range out.terms {
		if v == 0 {
			delete(out.terms, k)
		}
	}
	return out
}

type lenv struct {
	ints   map[*ssa.Parameter]lform
	slices map[*ssa.Parameter]string
	site   string
}

type lenSim struct {
	u        *Universe
	ops      *Ops
	tracked  map[*types.Var]string
	stores   map[string][]lform // tracked field name -> forms stored (deltas for accumulations)
	storePos map[string]string
	accum    map[string]bool // tracked field -> its store adds to the old value
	sites    map[string][]lenStore
	writes   []string // slice identities written to the sink, in program order
	depth    int
}

// lenStore: one store to a tracked field: what is stored (the delta for an accumulation), whether it adds to the old
// value or initialises the field of an object allocated in the same function, and where.
type lenStore struct {
	form  lform
	acc   bool
	fresh bool
	ins   *ssa.Store
	pos   string
}

func (s *lenSim) sliceID(v ssa.Value, env *lenv) string {
	if f := fieldOfLoad(v); f != nil {
		// field-based identity: the same field of the object a page is written from, at any call depth
		return fmt.Sprintf("fld:%s@%d", f.Name(), f.Pos())
	}
	switch x := v.(type) {
	case *ssa.Parameter:
		if id, ok := env.slices[x]; ok {
			return id
		}
		return "param:" + s.u.FnName(x.Parent()) + "." + x.Name()
	case *ssa.Phi:
		return "phi:" + s.u.FnName(x.Parent()) + "." + x.Name() + "@" + env.site
	case *ssa.Extract:
		if call, ok := x.Tuple.(*ssa.Call); ok {
			if sc := call.Call.StaticCallee(); sc != nil && s.u.InUniverse(sc) && sc.Blocks != nil {
				cenv := s.calleeEnv(call, sc, env)
				if rv := singleReturn(sc, x.Index); rv != nil {
					return s.sliceID(rv, cenv)
				}
				// several return statements yielding different slices: one opaque identity per call site and result
				return fmt.Sprintf("ret:%s#%d@%s>%s", s.u.FnName(sc), x.Index, env.site, s.u.Pos(call.Pos()))
			}
		}
	case *ssa.Call:
		if sc := x.Call.StaticCallee(); sc != nil && s.u.InUniverse(sc) && sc.Blocks != nil {
			cenv := s.calleeEnv(x, sc, env)
			if rv := singleReturn(sc, 0); rv != nil {
				return s.sliceID(rv, cenv)
			}
		}
	}
	fn := ""
	if ins, ok := v.(ssa.Instruction); ok && ins.Parent() != nil {
		fn = s.u.FnName(ins.Parent())
	}
	return "val:" + fn + "." + v.Name() + "@" + env.site
}

// successReturns: the return statements whose error operand is (or may be) nil.
func successReturns(fn *ssa.Function) []*ssa.Return {
	var out []*ssa.Return
	ei := errIndex(fn.Signature)
	for _, b := range fn.Blocks {
		ret, ok := lastInstr(b).(*ssa.Return)
		if !ok {
			continue
		}
		if ei >= 0 && ei < len(ret.Results) {
			if c, isC := ret.Results[ei].(*ssa.Const); isC && c.IsNil() {
			} else if _, isPhi := ret.Results[ei].(*ssa.Phi); isPhi {
			} else if ex, isEx := ret.Results[ei].(*ssa.Extract); isEx {
				// the error of an earlier call: a success only if this return is not on its `err != nil` side
				e := ssa.Value(ex)
				onErr := guarded(b, func(iff *ssa.If, truth bool) bool {
					bo, ok := iff.Cond.(*ssa.BinOp)
					if !ok {
						return false
					}
					isE := (bo.X == e && isNilConst(bo.Y)) || (bo.Y == e && isNilConst(bo.X))
					return isE && ((bo.Op == token.NEQ && truth) || (bo.Op == token.EQL && !truth))
				}, 0)
				if onErr {
					continue
				}
			} else {
				continue
			}
		}
		out = append(out, ret)
	}
	return out
}

// singleReturn: the value returned as result i when the function has a single return statement (or all agree).
func singleReturn(fn *ssa.Function, i int) ssa.Value {
	var rv ssa.Value
	for _, b := range fn.Blocks {
		if ret, ok := lastInstr(b).(*ssa.Return); ok && i < len(ret.Results) {
			// error-path returns are ignored: a return whose error operand is not the nil constant
			if ei := errIndex(fn.Signature); ei >= 0 && ei < len(ret.Results) && ei != i {
				if c, isC := ret.Results[ei].(*ssa.Const); isC && c.IsNil() {
					// success path
				} else if _, isPhi := ret.Results[ei].(*ssa.Phi); isPhi {
					// mixed
				} else {
					continue
				}
			}
			if rv != nil && rv != ret.Results[i] {
				return nil
			}
			rv = ret.Results[i]
		}
	}
	return rv
}

func (s *lenSim) calleeEnv(call ssa.CallInstruction, sc *ssa.Function, env *lenv) *lenv {
	cenv := &lenv{ints: map[*ssa.Parameter]lform{}, slices: map[*ssa.Parameter]string{}, site: env.site + ">" + s.u.Pos(call.Pos())}
	args := callArgs(call.Common())
	for i, p := range sc.Params {
		if i >= len(args) {
			break
		}
		if w, _ := intWidth(p.Type()); w > 0 {
			cenv.ints[p] = s.form(args[i], env, 0)
		} else if _, ok := p.Type().Underlying().(*types.Slice); ok {
			cenv.slices[p] = s.sliceID(args[i], env)
		}
	}
	return cenv
}

func (s *lenSim) form(v ssa.Value, env *lenv, depth int) lform {
	if depth > 12 {
		return lform{top: "too deep"}
	}
	switch x := v.(type) {
	case *ssa.Const:
		if x.Value != nil && x.Value.Kind() == constant.Int {
			k, _ := constant.Int64Val(x.Value)
			return lform{terms: map[string]int{}, konst: k}
		}
	case *ssa.Parameter:
		if f, ok := env.ints[x]; ok {
			return f
		}
		return atom("param:" + s.u.FnName(x.Parent()) + "." + x.Name())
	case *ssa.Convert:
		return s.form(x.X, env, depth+1)
	case *ssa.BinOp:
		switch x.Op {
		case token.ADD:
			return addForms(s.form(x.X, env, depth+1), s.form(x.Y, env, depth+1), 1)
		case token.SUB:
			return addForms(s.form(x.X, env, depth+1), s.form(x.Y, env, depth+1), -1)
		}
	case *ssa.Call:
		if b, ok := x.Call.Value.(*ssa.Builtin); ok && b.Name() == "len" {
			return atom("len(" + s.sliceID(x.Call.Args[0], env) + ")")
		}
		if sc := x.Call.StaticCallee(); sc != nil && s.u.InUniverse(sc) && sc.Blocks != nil {
			if rv := singleReturn(sc, 0); rv != nil {
				return s.form(rv, s.calleeEnv(x, sc, env), depth+1)
			}
		}
	case *ssa.Extract:
		if call, ok := x.Tuple.(*ssa.Call); ok {
			if sc := call.Call.StaticCallee(); sc != nil && s.u.InUniverse(sc) && sc.Blocks != nil {
				if rv := singleReturn(sc, x.Index); rv != nil {
					return s.form(rv, s.calleeEnv(call, sc, env), depth+1)
				}
				// several return statements: the result is len(result j) on each of them for one j, or the same form on all
				rets := successReturns(sc)
				j := -1
				for _, ret := range rets {
					lc, ok := ret.Results[x.Index].(*ssa.Call)
					jj := -1
					if ok {
						if bi, isB := lc.Call.Value.(*ssa.Builtin); isB && bi.Name() == "len" {
							for k, rk := range ret.Results {
								if rk == lc.Call.Args[0] {
									jj = k
								}
							}
						}
					}
					if jj < 0 || (j >= 0 && jj != j) {
						j = -2
						break
					}
					j = jj
				}
				if j >= 0 {
					for _, ref := range *call.Referrers() {
						if ex, ok := ref.(*ssa.Extract); ok && ex.Index == j {
							return atom("len(" + s.sliceID(ex, env) + ")")
						}
					}
				}
				cenv := s.calleeEnv(call, sc, env)
				var f0 lform
				for i, ret := range rets {
					f := s.form(ret.Results[x.Index], cenv, depth+1)
					if i == 0 {
						f0 = f
					} else if f.String() != f0.String() {
						return lform{top: "returns of " + sc.Name() + " disagree"}
					}
				}
				if len(rets) > 0 {
					return f0
				}
			}
		}
	case *ssa.Phi:
		var f0 lform
		for i, e := range x.Edges {
			f := s.form(e, env, depth+1)
			if i == 0 {
				f0 = f
			} else if f.String() != f0.String() {
				return lform{top: "phi of different values"}
			}
		}
		return f0
	}
	fn := ""
	if ins, ok := v.(ssa.Instruction); ok && ins.Parent() != nil {
		fn = s.u.FnName(ins.Parent())
	}
	return atom("val:" + fn + "." + v.Name() + "@" + env.site)
}

// sim walks fn (and its universe callees) recording stores to tracked fields and sink writes.
func (s *lenSim) sim(fn *ssa.Function, env *lenv) {
	if s.depth > 6 {
		return
	}
	s.depth++
	defer func() { s.depth-- }()
	for _, b := range fn.Blocks {
		for _, ins := range b.Instrs {
			switch x := ins.(type) {
			case *ssa.Store:
				fld := fieldOf(x.Addr)
				name, ok := s.tracked[fld]
				if !ok {
					continue
				}
				val := x.Val
				// accumulation: field = field + v
				acc := false
				if bo, isB := val.(*ssa.BinOp); isB && bo.Op == token.ADD && fieldOfLoad(bo.X) == fld {
					val, acc = bo.Y, true
				} else if isB && bo.Op == token.ADD && fieldOfLoad(bo.Y) == fld {
					val, acc = bo.X, true
				}
				if s.accum == nil {
					s.accum = map[string]bool{}
				}
				s.accum[name] = acc
				fm := s.form(val, env, 0)
				s.stores[name] = append(s.stores[name], fm)
				s.storePos[name] = s.u.Pos(x.Pos())
				fresh := false
				if fa, ok := x.Addr.(*ssa.FieldAddr); ok {
					if al, ok := fa.X.(*ssa.Alloc); ok && al.Heap {
						fresh = true // a field of the struct literal the chunk's metadata starts from
					}
				}
				if s.sites == nil {
					s.sites = map[string][]lenStore{}
				}
				s.sites[name] = append(s.sites[name], lenStore{fm, acc, fresh, x, s.u.Pos(x.Pos())})
			case *ssa.Call:
				c := &x.Call
				if c.IsInvoke() && c.Method.Name() == "Write" && s.ops.t.Has(c.Value) && len(c.Args) == 1 {
					s.writes = append(s.writes, s.sliceID(c.Args[0], env))
					continue
				}
				if sc := c.StaticCallee(); sc != nil && s.u.InUniverse(sc) && sc.Blocks != nil && s.u.pkgPathOf(sc) == rtPath {
					s.sim(sc, s.calleeEnv(x, sc, env))
				}
			}
		}
	}
}

func laLen(c *Ctx, rule string) {
	r, u := c.R, c.U
	ops := c.sinkOps()
	tracked := map[*types.Var]string{}
	for _, t := range [][2]string{{"PageHeader", "CompressedPageSize"}, {"PageHeader", "UncompressedPageSize"}, {"DataPageHeader", "NumValues"},
		{"ColumnMetaData", "NumValues"}, {"ColumnMetaData", "TotalCompressedSize"}, {"ColumnMetaData", "TotalUncompressedSize"}} {
		f := schemaField(u, t[0], t[1])
		if f == nil {
			r.failf("%s: schema field %s.%s not found", rule, t[0], t[1])
			return
		}
		tracked[f] = t[0] + "." + t[1]
	}
	// page writers: runtime functions with a direct sink write of a byte slice and a call that reaches another sink write
	n := 0
	for _, f := range u.Funcs {
		if u.pkgPathOf(f) != rtPath || f.Synthetic != "" {
			continue
		}
		var body *ssa.Call
		derived := false
		for _, st := range ops.byFn[f] {
			call, ok := st.Site.(*ssa.Call)
			if !ok {
				continue
			}
			if st.Kind == Primitive && call.Call.IsInvoke() && call.Call.Method.Name() == "Write" {
				body = call
			}
			if st.Kind == Derived {
				derived = true
			}
		}
		if body == nil || !derived {
			continue
		}
		n++
		key := u.FnName(f)
		pos := u.Pos(body.Pos())
		s := &lenSim{u: u, ops: ops, tracked: tracked, stores: map[string][]lform{}, storePos: map[string]string{}}
		env := &lenv{ints: map[*ssa.Parameter]lform{}, slices: map[*ssa.Parameter]string{}, site: key}
		// bind integer parameters to what the (generated) callers pass, when all callers agree
		callerForms := map[int]map[string]lform{}
		for _, g := range u.Funcs {
			if g.Synthetic != "" {
				continue
			}
			for _, b := range g.Blocks {
				for _, ins := range b.Instrs {
					call, ok := ins.(ssa.CallInstruction)
					if !ok || call.Common().StaticCallee() != f {
						continue
					}
					cenv := &lenv{ints: map[*ssa.Parameter]lform{}, slices: map[*ssa.Parameter]string{}, site: key}
					for i, a := range callArgs(call.Common()) {
						if i < len(f.Params) {
							if w, _ := intWidth(f.Params[i].Type()); w > 0 {
								fm := s.form(a, cenv, 0)
								if callerForms[i] == nil {
									callerForms[i] = map[string]lform{}
								}
								callerForms[i][fm.String()] = fm
							}
						}
					}
				}
			}
		}
		for i, forms := range callerForms {
			if len(forms) == 1 {
				for _, fm := range forms {
					if fm.top == "" && strings.Contains(fm.String(), "fld:") {
						env.ints[f.Params[i]] = fm
					}
				}
			}
		}
		s.sim(f, env)
		if len(s.writes) != 2 {
			r.undecided(rule, key+" sink writes", pos, fmt.Sprintf("expected a header write and a body write per page, found %d sink writes", len(s.writes)))
			continue
		}
		hdr, bodyID := s.writes[0], s.writes[1]
		// IN: the data argument of the call that produced the body (a parameter the callee may return unchanged)
		in := ""
		if ex, ok := body.Call.Args[0].(*ssa.Extract); ok {
			if call, ok := ex.Tuple.(*ssa.Call); ok {
				if sc := call.Call.StaticCallee(); sc != nil && sc.Blocks != nil {
					// the parameter that some success return hands back unchanged (directly or through a phi)
					var cands []ssa.Value
					for _, ret := range successReturns(sc) {
						if ex.Index < len(ret.Results) {
							cands = append(cands, ret.Results[ex.Index])
						}
					}
					for len(cands) > 0 {
						v := cands[0]
						cands = cands[1:]
						switch y := v.(type) {
						case *ssa.Phi:
							cands = append(cands, y.Edges...)
						case *ssa.Parameter:
							for i, q := range sc.Params {
								if q == y {
									in = s.sliceID(call.Call.Args[i], env)
								}
							}
						}
					}
				}
			}
		}
		if in == "" {
			r.undecided(rule, key+" uncompressed input", pos, "cannot identify the uncompressed input of the body that is written (the compressor's data parameter)")
			continue
		}
		want := map[string]string{
			"PageHeader.CompressedPageSize":        "len(" + bodyID + ")",
			"PageHeader.UncompressedPageSize":      "len(" + in + ")",
			"ColumnMetaData.TotalCompressedSize":   addForms(atom("len("+bodyID+")"), atom("len("+hdr+")"), 1).String(),
			"ColumnMetaData.TotalUncompressedSize": addForms(atom("len("+in+")"), atom("len("+hdr+")"), 1).String(),
		}
		human := func(x string) string {
			x = strings.ReplaceAll(x, "len("+bodyID+")", "len(BODY written)")
			x = strings.ReplaceAll(x, "len("+in+")", "len(uncompressed page)")
			x = strings.ReplaceAll(x, "len("+hdr+")", "len(HEADER written)")
			return x
		}
		var names []string
		for k := range want {
			names = append(names, k)
		}
		sort.Strings(names)
		for _, name := range names {
			k := key + " " + name
			sts := s.sites[name]
			if len(sts) == 0 {
				r.bad(rule, k, pos, "no store to "+name+" per page")
				continue
			}
			if why := sameLenPath(sts); why != "" {
				r.bad(rule, k, pos, name+" is stored twice on one path ("+why+"): a page is counted twice")
				continue
			}
			okAll := true
			for _, st := range sts {
				if strings.HasPrefix(name, "ColumnMetaData.") && !st.acc && !(st.fresh && len(sts) > 1) {
					r.bad(rule, k, st.pos, name+" is overwritten per page, not accumulated: a chunk written as several pages keeps only its last page's size")
					okAll = false
					break
				}
				if got := st.form.String(); got != want[name] {
					r.bad(rule, k, st.pos, fmt.Sprintf("%s is set to %s per page, but the bytes written require %s", name, human(got), human(want[name])))
					okAll = false
					break
				}
			}
			if okAll {
				r.ok(rule, k, sts[0].pos, name+" = "+human(sts[0].form.String()))
			}
		}
		// value counts: header and chunk agree
		h, ch := s.sites["DataPageHeader.NumValues"], s.sites["ColumnMetaData.NumValues"]
		k := key + " NumValues"
		switch {
		case len(h) != 1 || len(ch) == 0:
			r.bad(rule, k, pos, fmt.Sprintf("%d/%d stores of the value count in header/chunk per page", len(h), len(ch)))
		case sameLenPath(ch) != "":
			r.bad(rule, k, pos, "the chunk's num_values is stored twice on one path ("+sameLenPath(ch)+"): a page is counted twice")
		default:
			bad := false
			for _, st := range ch {
				if !st.acc && !(st.fresh && len(ch) > 1) {
					r.bad(rule, k, st.pos, "the chunk's num_values is overwritten per page, not accumulated: a chunk written as several pages reports only its last page's values")
					bad = true
					break
				}
				if h[0].form.top != "" || h[0].form.String() != st.form.String() {
					r.bad(rule, k, st.pos, "page header num_values is "+h[0].form.String()+" but the chunk's num_values grows by "+st.form.String())
					bad = true
					break
				}
			}
			if !bad {
				r.ok(rule, k, ch[0].pos, "header num_values and chunk num_values increment are the same quantity: "+h[0].form.String())
			}
		}
	}
	r.count(rule+"/page-writers", n)
	r.floor(rule+"/page-writers", 1, "RequiredField.DoWrite, OptionalField.DoWrite")
}

// laFrame: PAR1 first, footer, little-endian footer length of exactly the bytes written, PAR1 last.
func laFrame(c *Ctx, rule string) {
	r, u := c.R, c.U
	ops := c.sinkOps()
	isMagic := func(v ssa.Value) (bool, string) {
		ld, ok := v.(*ssa.UnOp)
		if !ok || ld.Op != token.MUL {
			return false, ""
		}
		g, ok := ld.X.(*ssa.Global)
		if !ok {
			return false, ""
		}
		// initialised in init from the constant "PAR1"
		init := g.Pkg.Func("init")
		for _, b := range init.Blocks {
			for _, ins := range b.Instrs {
				if st, ok := ins.(*ssa.Store); ok && st.Addr == ssa.Value(g) {
					if cv, ok := st.Val.(*ssa.Convert); ok {
						if k, ok := cv.X.(*ssa.Const); ok && k.Value != nil && k.Value.Kind() == constant.String {
							return constant.StringVal(k.Value) == "PAR1", constant.StringVal(k.Value)
						}
					}
				}
			}
		}
		return false, ""
	}
	// magicWriter: the function's only sink activity is one write of the magic (directly or through such a function)
	var magicWriter func(fn *ssa.Function, depth int) (bool, string)
	magicWriter = func(fn *ssa.Function, depth int) (bool, string) {
		ws := ops.byFn[fn]
		if len(ws) != 1 || depth > 3 {
			return false, fmt.Sprintf("%s makes %d sink writes", u.FnName(fn), len(ws))
		}
		call, ok := ws[0].Site.(*ssa.Call)
		if !ok {
			return false, "the sink write of " + u.FnName(fn) + " is deferred or spawned"
		}
		if call.Call.IsInvoke() && len(call.Call.Args) == 1 {
			if m, sv := isMagic(call.Call.Args[0]); m {
				return true, ""
			} else {
				return false, fmt.Sprintf("%s writes %q, not the magic", u.FnName(fn), sv)
			}
		}
		if sc := call.Call.StaticCallee(); sc != nil && u.InUniverse(sc) {
			return magicWriter(sc, depth+1)
		}
		return false, "the sink write of " + u.FnName(fn) + " is not a write of the magic"
	}
	for _, p := range u.TC {
		short := strings.TrimPrefix(p, "uni/")
		ctor := u.Func(p, "NewParquetWriter")
		inner := roleFunc(u, p, "writerInner")
		cl := u.Func(p, "ParquetWriter.Close")
		if ctor == nil || inner == nil || cl == nil {
			r.failf("%s: writer API missing in %s", rule, p)
			continue
		}
		r.count(rule+"/packages", 1)
		// (i) the constructor's only sink activity is the option list; the last option writes the magic
		key := short + " leading magic"
		var tail *ssa.Call
		for _, st := range ops.byFn[ctor] {
			if call, ok := st.Site.(*ssa.Call); ok && call.Call.StaticCallee() == inner {
				tail = call
			}
		}
		okLead, why := false, "NewParquetWriter does not delegate to newParquetWriter"
		if tail != nil && len(ops.byFn[ctor]) == 1 {
			o := &Ops{u: u, t: ops.t, intrinsic: ops.intrinsic, paramDep: ops.paramDep}
			vals := tail.Call.Args[len(tail.Call.Args)-1]
			// among the options handed to newParquetWriter exactly one library function writes, and it writes the magic only;
			// the caller's own options (unresolvable here) are configuration setters
			fns, _ := o.funcValues(vals, 0, map[int]bool{})
			writers := 0
			why = "NewParquetWriter passes no option that writes the magic"
			for _, fn := range fns {
				ws := ops.byFn[fn]
				if len(ws) == 0 {
					continue
				}
				writers++
				okLead = false
				if m, w2 := magicWriter(fn, 0); m {
					okLead = true
				} else {
					why = "an option passed by NewParquetWriter: " + w2
				}
			}
			if writers != 1 {
				okLead = false
				why = fmt.Sprintf("%d of the options NewParquetWriter passes write to the sink, want exactly one (the magic)", writers)
			}
			// nothing in newParquetWriter itself may write before/after the options
			for _, st := range ops.byFn[inner] {
				if st.Kind != ParamDyn {
					okLead, why = false, "newParquetWriter itself writes to the sink at "+u.Pos(st.Site.Pos())
				}
			}
		}
		if okLead {
			r.ok(rule, key, u.Pos(ctor.Pos()), "NewParquetWriter appends, after the caller's options, one option whose only sink write is PAR1; nothing else writes in the constructor")
		} else {
			r.bad(rule, key, u.Pos(ctor.Pos()), why)
		}
		// (ii) Close: footer, then magic as the last sink write
		key = short + " trailing magic"
		sites := ops.byFn[cl]
		okTrail, why2 := false, "Close does not write the footer followed by the magic"
		if len(sites) == 2 {
			a, b := sites[0], sites[1]
			if a.Site.Pos() > b.Site.Pos() {
				a, b = b, a
			}
			ac, _ := a.Site.(*ssa.Call)
			bc, _ := b.Site.(*ssa.Call)
			if ac != nil && bc != nil && a.Kind == Derived && strings.HasSuffix(a.Callee, ".Footer") {
				m, s := false, ""
				if bc.Call.IsInvoke() && len(bc.Call.Args) == 1 {
					m, s = isMagic(bc.Call.Args[0])
					s = fmt.Sprintf("Close ends with a write of %q, not the magic", s)
				} else if sc := bc.Call.StaticCallee(); sc != nil && u.InUniverse(sc) {
					m, s = magicWriter(sc, 0)
					s = "Close ends with: " + s
				}
				if m && dominatesInstr(ac, bc) {
					okTrail = true
				} else if !m {
					why2 = s
				} else {
					why2 = "the magic can be written without the footer having been written"
				}
			}
		} else {
			why2 = fmt.Sprintf("Close makes %d sink-touching calls, want Footer + magic", len(sites))
		}
		if okTrail {
			r.ok(rule, key, u.Pos(cl.Pos()), "Close: Metadata.Footer, then PAR1 as the last sink write")
		} else {
			r.bad(rule, key, u.Pos(cl.Pos()), why2)
		}
	}
	// (iii) Footer: serialised metadata, then the 4-byte little-endian count returned by that very write, nothing after
	ft := u.Func(rtPath, "Metadata.Footer")
	if ft == nil {
		r.failf("%s: Metadata.Footer not found", rule)
		return
	}
	key := "parquet.(*Metadata).Footer length"
	// the data-carrying sink writes: calls that hand bytes (a []byte, string or interface payload) to the sink or a wrapper of it;
	// wrapping the sink (bufio.NewWriter(w)) and flushing the wrapper carry no data of their own
	var sites []*OpSite
	// (the writes of Footer itself, or of a helper of the runtime it hands the serialised metadata to)
	var cands []*OpSite
	for _, st := range ops.byFn[ft] {
		if call, ok := st.Site.(*ssa.Call); ok {
			if sc := call.Call.StaticCallee(); sc != nil && u.pkgPathOf(sc) == rtPath && sc.Blocks != nil && len(ops.byFn[sc]) > 0 {
				cands = append(cands, ops.byFn[sc]...)
				continue
			}
		}
		cands = append(cands, st)
	}
	for _, st := range cands {
		carries := false
		for _, a := range callArgs(st.Site.Common()) {
			if ops.t.Has(a) {
				continue
			}
			switch tt := a.Type().Underlying().(type) {
			case *types.Slice, *types.Interface:
				carries = true
			case *types.Basic:
				if tt.Info()&types.IsString != 0 {
					carries = true
				}
			}
		}
		if carries {
			sites = append(sites, st)
		}
	}
	okLen, why := false, ""
	if len(sites) != 2 {
		why = fmt.Sprintf("Footer makes %d data-carrying sink writes, want metadata + length", len(sites))
	} else {
		a, b := sites[0], sites[1]
		if a.Site.Pos() > b.Site.Pos() {
			a, b = b, a
		}
		ac, _ := a.Site.(*ssa.Call)
		bc, _ := b.Site.(*ssa.Call)
		switch {
		case ac == nil || bc == nil || !isWriteMethodCall(&ac.Call):
			why = "unexpected call forms"
		case fullCalleeName(&bc.Call) != "encoding/binary.Write" && isWriteMethodCall(&bc.Call):
			// the other form: binary.LittleEndian.PutUint32(buf[:], uint32(n)) into a 4-byte buffer, then w.Write(buf[:])
			why = "the footer length is not written with encoding/binary.Write or as a 4-byte little-endian buffer filled by PutUint32"
			root := func(v ssa.Value) ssa.Value {
				if sl, ok := v.(*ssa.Slice); ok {
					return sl.X
				}
				return v
			}
			buf := root(bc.Call.Args[len(bc.Call.Args)-1])
			if fixedBufLen(bc.Call.Args[len(bc.Call.Args)-1]) == 4 || fixedBufLen(buf) == 4 {
				for _, blk := range bc.Parent().Blocks {
					for _, ins := range blk.Instrs {
						put, ok := ins.(*ssa.Call)
						if !ok || put.Call.StaticCallee() == nil || !strings.HasSuffix(put.Call.StaticCallee().String(), "littleEndian).PutUint32") {
							continue
						}
						pa := put.Call.Args
						if root(pa[len(pa)-2]) != buf {
							continue
						}
						cv, _ := pa[len(pa)-1].(*ssa.Convert)
						var ex *ssa.Extract
						if cv != nil {
							ex, _ = cv.X.(*ssa.Extract)
						}
						switch {
						case ex == nil || ex.Tuple != ssa.Value(ac) || ex.Index != 0:
							why = "the footer length written is not the byte count returned by the write of the serialised metadata"
						case !dominatesInstr(ac, put) || !dominatesInstr(put, bc):
							why = "the length can be written without the metadata (or before it is put into its buffer)"
						default:
							okLen = true
						}
					}
				}
			}
		case fullCalleeName(&bc.Call) != "encoding/binary.Write":
			why = "the footer length is not written with encoding/binary.Write"
		case !strings.HasSuffix(symExpr(bc.Call.Args[1], 0), "binary.LittleEndian)"):
			why = "the footer length is not written little-endian: " + symExpr(bc.Call.Args[1], 0)
		default:
			val := bc.Call.Args[2]
			if mi, ok := val.(*ssa.MakeInterface); ok {
				val = mi.X
			}
			w, _ := intWidth(val.Type())
			cv, _ := val.(*ssa.Convert)
			var n ssa.Value
			if cv != nil {
				n = cv.X
			}
			ex, _ := n.(*ssa.Extract)
			switch {
			case w != 32:
				why = fmt.Sprintf("the footer length is written as a %d-bit integer, the format has 4 bytes", w)
			case ex == nil || ex.Tuple != ssa.Value(ac) || ex.Index != 0:
				why = "the footer length written is not the byte count returned by the write of the serialised metadata"
			case !dominatesInstr(ac, bc):
				why = "the length can be written without the metadata"
			default:
				okLen = true
			}
		}
	}
	if okLen {
		r.ok(rule, key, u.Pos(ft.Pos()), "n := w.Write(serialised FileMetaData); binary.Write(w, LittleEndian, uint32(n)) as the last sink write")
	} else {
		r.bad(rule, key, u.Pos(ft.Pos()), why)
	}
	r.floor(rule+"/packages", len(u.TC), "one writer per generated package")
}

func checkC02(c *Ctx) {
	r := c.R
	r.Explanation = "Necessary structural conditions of C02 (all inputs at once): (LA-len) per page, the page header's compressed/uncompressed sizes are the lengths of the body actually written / of its uncompressed input, the chunk totals grow by exactly body + header bytes written (no swap, nothing forgotten), header and chunk value counts are the same quantity — a linear-form evaluation over slice lengths through DoWrite -> WritePageHeader -> updateRowGroup -> updateColumnChunk; (LA-frame) PAR1 is the first thing written, Close writes the footer then PAR1 last, the little-endian 4-byte footer length is the count returned by the write of the serialised metadata; (TV-fields, corpus) the schema inputs handed to the runtime — column list, order, paths, repetition kinds, Types arity — match the struct for every shape; (WH-rows, WH-empty, WH-groups) footer row count from emitted groups, no bytes outside accounted row groups, NumRows assigned at write time from a per-group counter; (TD, FT) the column lists handed to parquet.New / StartRowGroup are Schema() of every column in order, Schema() reports the column's own name/path/repetition/types, page order of Write, value counts handed to DoWrite; (LA-offset, LA-footer) offsets advance by total_compressed_size only, chunk totals and total_byte_size accumulate; (LA-cells) pointer cells of schema elements are per element. (LA-footer) of the schema tree built by schema(): a group's repetition comes from its own index, child counts count direct children once, groups are identified by their whole path. NOT decided: that schema()'s listing is the tree of every struct shape beyond those conditions, offset sums as values, thrift encoding, page record limits."
	laLen(c, "LA-len")
	laFrame(c, "LA-frame")
	laOffset(c, "LA-offset")
	laCells(c, "LA-cells")
	laFooterMeta(c, "LA-footer", map[string]bool{"totals": true})
	runFT(c, "FT", map[string]bool{"count": true, "schema": true})
	runTD(c, "TD", map[string]bool{"write": true, "add": true})
	runWHRows(c, "WH-rows")
	runWHEmpty(c, "WH-empty")
	runWHChild(c, "WH-child")
	runWHGroups(c, "WH-groups")
	runWHReset(c, "WH-reset")
	// the footer's leaves: physical/converted type per Go type, the leaf's own repetition
	checkTypeFuncs(c)
	laMaxLevels(c, "LA-maxlevels")
	laLeafKind(c, "LA-leafkind")
	// schema inputs over the corpus
	res, desc, exhaustive := runCorpusFor(c, false)
	if res != nil {
		programs, _, typeErr, genFail := emitTV(r, res, map[string]bool{"TV-fields": true}, nil)
		r.Extra["corpus"] = desc
		r.Extra["corpus_exhaustive"] = exhaustive
		r.Extra["corpus_programs"] = programs
		r.Extra["corpus_shapes_skipped_not_compiling"] = typeErr + genFail
		r.count("TV/programs", programs)
	}
	r.assume("of the schema tree construction in schema.schema() three structural necessary conditions are decided (LA-footer: a group's repetition comes from its own index, child counts count direct children once, groups are identified by their whole path); that the listing it produces from these inputs is the tree of every struct shape is otherwise value-level and NOT decided")
}

// laOffset (C02): chunk offsets are running sums. A necessary condition that is visible in code shape: every
// loop-carried quantity on the additive spine of the value stored into ColumnChunk.FileOffset / DataPageOffset —
// an SSA phi, or an integer cell of a local struct — is only ever advanced (new = old + something) inside the loop,
// never replaced; otherwise offsets stop accumulating after some iteration (e.g. from the third row group on).
func laOffset(c *Ctx, rule string) {
	r, u := c.R, c.U
	targets := []*types.Var{schemaField(u, "ColumnChunk", "FileOffset"), schemaField(u, "ColumnMetaData", "DataPageOffset")}
	n := 0
	for _, fld := range targets {
		if fld == nil {
			r.failf("%s: schema offset field not found", rule)
			continue
		}
		ctor, other := storesTo(u, fld)
		for _, st := range append(ctor, other...) {
			if u.pkgPathOf(st.Parent()) != rtPath {
				continue
			}
			n++
			key := fmt.Sprintf("%s store to %s", u.FnName(st.Parent()), fld.Name())
			pos := u.Pos(st.Pos())
			var bad []string
			accs := 0
			seen := map[ssa.Value]bool{}
			terms := map[string]bool{}
			phiAt := map[*ssa.BasicBlock]bool{}    // loop headers with a loop-carried accumulator on the spine
			cellLoops := false                     // the accumulator lives in a memory cell (its stores are judged one by one)
			sites := []*ssa.BasicBlock{st.Block()} // the store, and the call sites the spine was followed through
			var spine func(v ssa.Value, depth int)
			inLoop := func(b *ssa.BasicBlock) bool {
				for _, s := range reachableBlocks(b) {
					if s == b {
						return true
					}
				}
				return false
			}
			// contains: v keeps the accumulator — it is the accumulator itself, a sum with it, a phi all of whose incoming
			// values keep it (nested loops), or the result of a helper that returns its argument advanced
			contains := func(v ssa.Value, isSelf func(ssa.Value) bool) bool {
				return keepsAccumulator(u, v, isSelf, map[ssa.Value]bool{}, 0)
			}
			spine = func(v ssa.Value, depth int) {
				if depth > 10 || seen[v] {
					return
				}
				seen[v] = true
				switch x := v.(type) {
				case *ssa.BinOp:
					if x.Op == token.ADD || x.Op == token.SUB {
						spine(x.X, depth+1)
						spine(x.Y, depth+1)
					}
				case *ssa.Convert:
					spine(x.X, depth+1)
				case *ssa.Phi:
					blk := x.Block()
					carried := false
					for i, e := range x.Edges {
						if blk.Dominates(blk.Preds[i]) {
							carried = true
							if !contains(e, func(y ssa.Value) bool { return y == ssa.Value(x) }) {
								bad = append(bad, fmt.Sprintf("the running offset %q is replaced, not advanced, on the loop back-edge at %s (new value %s)", x.Comment, u.Pos(blk.Preds[i].Instrs[len(blk.Preds[i].Instrs)-1].Pos()), symExpr(e, 0)))
							}
						}
						spine(e, depth+1)
					}
					if carried {
						accs++
						phiAt[blk] = true
					}
				case *ssa.Parameter:
					fn := x.Parent()
					idx := -1
					for i, p := range fn.Params {
						if p == x {
							idx = i
						}
					}
					for _, g := range u.Funcs {
						if u.pkgPathOf(g) != rtPath {
							continue
						}
						for _, b := range g.Blocks {
							for _, ins := range b.Instrs {
								if call, ok := ins.(ssa.CallInstruction); ok && call.Common().StaticCallee() == fn {
									sites = append(sites, b)
									spine(callArgs(call.Common())[idx], depth+1)
								}
							}
						}
					}
				case *ssa.UnOp:
					if x.Op != token.MUL {
						return
					}
					// a size taken from the file's own metadata structs: remember which one
					if tf := fieldOf(x.X); tf != nil && tf.Pkg() != nil && tf.Pkg().Path() == schPath {
						terms[tf.Name()] = true
					}
					// integer cell of a local: all stores to the same cell inside loops must advance it
					var cellBase *ssa.Alloc
					var cellFld *types.Var
					switch a := x.X.(type) {
					case *ssa.Alloc:
						cellBase = a
					case *ssa.FieldAddr:
						if al, ok := a.X.(*ssa.Alloc); ok {
							cellBase, cellFld = al, fieldOf(a)
						}
					}
					if cellBase == nil {
						return
					}
					if w, _ := intWidth(x.Type()); w == 0 {
						return
					}
					sameCell := func(addr ssa.Value) bool {
						switch a := addr.(type) {
						case *ssa.Alloc:
							return cellFld == nil && a == cellBase
						case *ssa.FieldAddr:
							return cellFld != nil && a.X == ssa.Value(cellBase) && fieldOf(a) == cellFld
						}
						return false
					}
					// a load that follows a store to the same cell in its own block reads that store's value: a temporary
					var local *ssa.Store
					for _, ins := range x.Block().Instrs {
						if ins == ssa.Instruction(x) {
							break
						}
						if s2, ok := ins.(*ssa.Store); ok && sameCell(s2.Addr) {
							local = s2
						}
					}
					if local != nil {
						spine(local.Val, depth+1)
						return
					}
					for _, b := range cellBase.Parent().Blocks {
						for _, ins := range b.Instrs {
							s2, ok := ins.(*ssa.Store)
							if !ok || !sameCell(s2.Addr) {
								continue
							}
							if inLoop(b) {
								accs++
								cellLoops = true
								self := func(y ssa.Value) bool {
									ld, ok := y.(*ssa.UnOp)
									return ok && ld.Op == token.MUL && sameCell(ld.X)
								}
								if !contains(s2.Val, self) {
									bad = append(bad, fmt.Sprintf("the running size kept in %s is replaced, not advanced, inside the loop at %s", symExpr(x.X, 0), u.Pos(s2.Pos())))
								}
							}
							spine(s2.Val, depth+1)
						}
					}
				case *ssa.Field:
					// field of a struct value returned by a call: follow the callee's returned struct cell
					if call, ok := x.X.(*ssa.Call); ok {
						if sc := call.Call.StaticCallee(); sc != nil && u.InUniverse(sc) {
							for _, b := range sc.Blocks {
								if ret, ok := lastInstr(b).(*ssa.Return); ok && len(ret.Results) == 1 {
									if ld, ok := ret.Results[0].(*ssa.UnOp); ok {
										if al, ok := ld.X.(*ssa.Alloc); ok {
											// synthesise a load of the corresponding field cell
											for _, ref := range *al.Referrers() {
												if fa, ok := ref.(*ssa.FieldAddr); ok && fa.Field == x.Field {
													for _, r2 := range *fa.Referrers() {
														if l2, ok := r2.(*ssa.UnOp); ok {
															spine(l2, depth+1)
														}
													}
												}
											}
										}
									}
								}
							}
						}
					}
				}
			}
			spine(st.Val, 0)
			// the sum runs through EVERY loop around the store (row groups and, inside them, columns): a loop around it
			// without a carried accumulator restarts the position in each of its iterations
			if !cellLoops {
				for _, sb := range sites {
					for _, h := range sb.Parent().Blocks {
						if !(h == sb || h.Dominates(sb)) {
							continue
						}
						isHeader := false
						for _, p := range h.Preds {
							if h.Dominates(p) {
								isHeader = true
							}
						}
						reachesBack := false
						for _, x := range reachableBlocks(sb) {
							if x == h {
								reachesBack = true
							}
						}
						if isHeader && reachesBack && !phiAt[h] && len(phiAt) > 0 {
							bad = append(bad, fmt.Sprintf("the running offset is not carried through the loop at %s around the place it is stored: it restarts in every iteration (from the second row group on, offsets point into the first)", u.Pos(lastInstr(h).Pos())))
						}
					}
				}
			}
			// what the running sum is advanced by: the chunk's size in the file
			var wrong []string
			// (a row group's total_byte_size and earlier offsets are themselves sums of it)
			for t := range terms {
				switch t {
				case "TotalCompressedSize", "TotalByteSize", "FileOffset", "DataPageOffset":
				default:
					wrong = append(wrong, t)
				}
			}
			sort.Strings(wrong)
			if len(wrong) > 0 {
				bad = append(bad, "the running offset is advanced by "+strings.Join(wrong, ", ")+": a chunk occupies total_compressed_size bytes of the file (page headers included), nothing else moves the position")
			}
			switch {
			case len(bad) > 0:
				r.bad(rule, key, pos, strings.Join(bad, "; "))
			case accs == 0:
				r.undecided(rule, key, pos, "no running sum found behind the stored offset: "+symExpr(st.Val, 0))
			default:
				r.ok(rule, key, pos, fmt.Sprintf("the offset is a running sum: %d loop-carried accumulator(s) on its additive spine, each only advanced (new = old + size)", accs))
			}
		}
	}
	r.count(rule+"/offset-stores", n)
	r.floor(rule+"/offset-stores", 2, "FileOffset and DataPageOffset in Footer")
}

// laCells (C02, C15): pointer-typed fields of schema elements (num_children, type, repetition_type, …) must not be
// written *through* when the cell they point to is shared by several elements. A cell allocated once, outside the
// loop that builds the elements, whose address is stored into many elements, is shared: a store through
// `*elem.NumChildren` then changes every element (all groups report the same child count). Writing a fresh cell
// (`n := *p; n++; elem.NumChildren = &n`) is the safe idiom.
func laCells(c *Ctx, rule string) {
	r, u := c.R, c.U
	scan := func(fns []*ssa.Function, ctl bool) {
		for _, f := range fns {
			for _, b := range f.Blocks {
				for _, ins := range b.Instrs {
					st, ok := ins.(*ssa.Store)
					if !ok {
						continue
					}
					// write-through: the address is the value loaded from a pointer-typed struct field
					fld := fieldOfLoad(st.Addr)
					if fld == nil {
						continue
					}
					if _, isPtr := fld.Type().Underlying().(*types.Pointer); !isPtr {
						continue
					}
					if w, _ := intWidth(fld.Type().Underlying().(*types.Pointer).Elem()); w == 0 {
						continue
					}
					// who assigns this field, and with which cells?
					ctor, other := storesTo(u, fld)
					shared := ""
					for _, as := range append(ctor, other...) {
						al, ok := as.Val.(*ssa.Alloc)
						if !ok || as.Parent() != f {
							continue
						}
						// shared if the cell is allocated outside a loop in which it is assigned to the field
						inLoop := false
						for _, s := range reachableBlocks(as.Block()) {
							if s == as.Block() {
								inLoop = true
							}
						}
						allocInSameIter := al.Block() == as.Block() || (as.Block().Dominates(al.Block()))
						if inLoop && !allocInSameIter && al.Parent() == as.Parent() {
							shared = u.Pos(as.Pos())
						}
					}
					key := fmt.Sprintf("%s write through %s", u.FnName(f), fld.Name())
					if ctl {
						c.control(rule, u.FnName(f), shared != "", "write through a field whose cells are per-object")
						continue
					}
					r.count(rule+"/write-through", 1)
					if shared != "" {
						r.bad(rule, key, u.Pos(st.Pos()), fmt.Sprintf("the store at %s writes through %s, but the cell it points to is shared: one cell allocated outside the loop is assigned to that field of several objects at %s — every object sees the update (e.g. all groups report the same num_children)", u.Pos(st.Pos()), fld.Name(), shared))
					} else {
						r.ok(rule, key, u.Pos(st.Pos()), "written through, but every object gets its own cell")
					}
				}
			}
		}
	}
	// second clause: a cell whose address is handed to objects built in a loop, allocated outside that loop, must not be
	// assigned inside the loop: every object built earlier sees the value of the last iteration (all groups take the
	// optionality of the last group created). A cell declared in the loop body is a fresh cell per iteration.
	inCycle := func(a, b *ssa.BasicBlock) bool {
		ab, ba := a == b, a == b
		for _, x := range reachableBlocks(a) {
			if x == b {
				ab = true
			}
		}
		for _, x := range reachableBlocks(b) {
			if x == a {
				ba = true
			}
		}
		return ab && ba
	}
	scan2 := func(fns []*ssa.Function, ctl bool) {
		for _, f := range fns {
			for _, b := range f.Blocks {
				for _, ins := range b.Instrs {
					al, ok := ins.(*ssa.Alloc)
					if !ok || !al.Heap || al.Referrers() == nil {
						continue
					}
					if _, basic := al.Type().Underlying().(*types.Pointer).Elem().Underlying().(*types.Basic); !basic {
						continue
					}
					var handouts, writes []*ssa.Store
					for _, ref := range *al.Referrers() {
						st, ok := ref.(*ssa.Store)
						if !ok {
							continue
						}
						if st.Val == ssa.Value(al) {
							if fld := fieldOf(st.Addr); fld != nil {
								handouts = append(handouts, st)
							}
						} else if st.Addr == ssa.Value(al) {
							writes = append(writes, st)
						}
					}
					// handed out inside a loop that does not contain the allocation
					var loopHand *ssa.Store
					for _, h := range handouts {
						if inCycle(h.Block(), h.Block()) && len(reachableBlocks(h.Block())) > 0 && !inCycle(h.Block(), al.Block()) {
							self := false
							for _, x := range reachableBlocks(h.Block()) {
								if x == h.Block() {
									self = true
								}
							}
							if self {
								loopHand = h
							}
						}
					}
					if loopHand == nil {
						continue
					}
					bad := ""
					for _, w := range writes {
						if inCycle(w.Block(), loopHand.Block()) {
							bad = u.Pos(w.Pos())
						}
					}
					fld := fieldOf(loopHand.Addr)
					key := fmt.Sprintf("%s cell %s handed to %s", u.FnName(f), al.Comment, fld.Name())
					if ctl {
						c.control(rule+"-overwrite", u.FnName(f), bad != "", "cell handed out in a loop and never assigned in it")
						continue
					}
					r.count(rule+"/shared-cells", 1)
					if bad != "" {
						r.bad(rule, key, bad, fmt.Sprintf("the variable %s is declared once, outside the loop, but assigned at %s in every iteration while its address is stored into %s of each object built (%s): all those objects share one cell and end up with the value of the last iteration", al.Comment, bad, fld.Name(), u.Pos(loopHand.Pos())))
					} else {
						r.ok(rule, key, u.Pos(loopHand.Pos()), "shared cell, never assigned inside the loop that hands it out")
					}
				}
			}
		}
	}
	var rt []*ssa.Function
	for _, f := range u.Funcs {
		if u.pkgPathOf(f) == rtPath && f.Synthetic == "" {
			rt = append(rt, f)
		}
	}
	scan(rt, false)
	scan2(rt, false)
	if fns := u.ctlFuncs("cells"); len(fns) > 0 {
		scan(fns, true)
		r.floor("controls/"+rule, 2, "1 bad + 1 good shared-cell control")
	} else {
		r.failf("%s controls not loaded", rule)
	}
	if fns := u.ctlFuncs("cells2"); len(fns) > 0 {
		scan2(fns, true)
		r.floor("controls/"+rule+"-overwrite", 2, "1 bad + 1 good (never written) control; per-iteration and after-loop cells are not candidates")
	} else {
		r.failf("%s-overwrite controls not loaded", rule)
	}
}

// laOverlap (C03, C01): two slices cut from one allocation and kept in different fields must not be able to grow
// into each other: a 2-index slice `buf[a:b]` keeps the capacity up to the end of buf, so appending to it overwrites
// whatever a sibling slice `buf[c:d]` (c >= b) holds. The cut must be a full slice expression `buf[a:b:b]`.
func laOverlap(c *Ctx, rule string) {
	r, u := c.R, c.U
	scan := func(fns []*ssa.Function, ctl bool) {
		for _, f := range fns {
			bases := map[ssa.Value][]*ssa.Slice{}
			for _, b := range f.Blocks {
				for _, ins := range b.Instrs {
					sl, ok := ins.(*ssa.Slice)
					if !ok {
						continue
					}
					// the allocation a slice is cut from (looking through a whole-buffer slice such as `new [N]T` -> t[:N])
					root := sl.X
					for {
						inner, ok := root.(*ssa.Slice)
						if !ok {
							break
						}
						root = inner.X
					}
					switch root.(type) {
					case *ssa.MakeSlice, *ssa.Alloc:
						if _, whole := sl.X.(*ssa.Alloc); whole && sl.Low == nil && sl.Max == nil {
							continue // the whole-buffer slice itself
						}
						bases[root] = append(bases[root], sl)
					}
				}
			}
			flagged, detail := false, ""
			for base, sls := range bases {
				// slices of this allocation that leave the function (returned or stored into a field)
				var kept []*ssa.Slice
				for _, sl := range sls {
					for _, ref := range *sl.Referrers() {
						switch x := ref.(type) {
						case *ssa.Return:
							kept = append(kept, sl)
						case *ssa.Store:
							if fieldOf(x.Addr) != nil {
								kept = append(kept, sl)
							}
						}
					}
				}
				if len(kept) < 2 {
					continue
				}
				if !ctl {
					r.count(rule+"/shared-allocations", 1)
				}
				_ = base
				isZero := func(v ssa.Value) bool { return v == nil || constIs(v, 0) }
				for _, sl := range kept {
					if sl.Max != nil {
						continue
					}
					// a 2-index slice keeps the capacity to the end of the allocation: dangerous when a sibling starts after it
					after := false
					for _, t := range kept {
						if t == sl {
							continue
						}
						switch {
						case isZero(sl.Low) && !isZero(t.Low):
							after = true
						case sl.Low != nil && t.Low != nil:
							a, aok := sl.Low.(*ssa.Const)
							b2, bok := t.Low.(*ssa.Const)
							if aok && bok && a.Value != nil && b2.Value != nil && constant.Compare(b2.Value, token.GTR, a.Value) {
								after = true
							}
						}
					}
					if after {
						flagged = true
						detail = fmt.Sprintf("%s: the slice cut at %s keeps the capacity of the whole allocation; appending to it overwrites the sibling slice cut from the same allocation (use a full slice expression a[lo:hi:hi])", u.FnName(f), u.Pos(sl.Pos()))
					}
				}
				if !ctl {
					key := fmt.Sprintf("%s slices of one allocation", u.FnName(f))
					if flagged {
						r.bad(rule, key, u.Pos(f.Pos()), detail)
					} else {
						r.ok(rule, key, u.Pos(f.Pos()), "sibling slices of one allocation are capacity-limited")
					}
				}
			}
			if ctl {
				c.control(rule, u.FnName(f), flagged, detail)
			}
		}
	}
	var fns []*ssa.Function
	for _, f := range u.Funcs {
		if !u.isCtl(f) && f.Synthetic == "" {
			fns = append(fns, f)
		}
	}
	scan(fns, false)
	if ctl := u.ctlFuncs("overlap"); len(ctl) > 0 {
		scan(ctl, true)
		r.floor("controls/"+rule, 2, "1 bad + 1 good overlap control")
	} else {
		r.failf("%s controls not loaded", rule)
	}
}

// keepsAccumulator: see laOffset.
func keepsAccumulator(u *Universe, x ssa.Value, isSelf func(ssa.Value) bool, visiting map[ssa.Value]bool, d int) bool {
	if d > 14 {
		return false
	}
	if isSelf(x) {
		return true
	}
	if visiting[x] {
		return true
	}
	callResult := func(call *ssa.Call, idx int) bool {
		sc := call.Call.StaticCallee()
		if sc == nil || sc.Blocks == nil || !u.InUniverse(sc) {
			return false
		}
		args := callArgs(&call.Call)
		for pi, a := range args {
			if pi >= len(sc.Params) {
				break
			}
			if w, _ := intWidth(sc.Params[pi].Type()); w == 0 {
				continue
			}
			if !keepsAccumulator(u, a, isSelf, visiting, d+1) {
				continue
			}
			// the callee must hand this parameter back advanced on every return
			okAll, n := true, 0
			for _, b := range sc.Blocks {
				ret, ok := lastInstr(b).(*ssa.Return)
				if !ok || idx >= len(ret.Results) {
					continue
				}
				n++
				prm := sc.Params[pi]
				if !keepsAccumulator(u, ret.Results[idx], func(y ssa.Value) bool { return y == ssa.Value(prm) }, map[ssa.Value]bool{}, d+1) {
					okAll = false
				}
			}
			if okAll && n > 0 {
				return true
			}
		}
		return false
	}
	switch y := x.(type) {
	case *ssa.BinOp:
		if y.Op == token.ADD {
			return keepsAccumulator(u, y.X, isSelf, visiting, d+1) || keepsAccumulator(u, y.Y, isSelf, visiting, d+1)
		}
	case *ssa.Convert:
		return keepsAccumulator(u, y.X, isSelf, visiting, d+1)
	case *ssa.Phi:
		visiting[x] = true
		defer delete(visiting, x)
		for _, e := range y.Edges {
			if !keepsAccumulator(u, e, isSelf, visiting, d+1) {
				return false
			}
		}
		return true
	case *ssa.Call:
		return callResult(y, 0)
	case *ssa.Extract:
		if call, ok := y.Tuple.(*ssa.Call); ok {
			return callResult(call, y.Index)
		}
	}
	return false
}

// isWriteMethodCall: a call of a method Write([]byte) (int, error), through an interface or on a concrete writer.
func isWriteMethodCall(cc *ssa.CallCommon) bool {
	var sig *types.Signature
	name := ""
	if cc.IsInvoke() {
		name, sig = cc.Method.Name(), cc.Method.Type().(*types.Signature)
	} else if sc := cc.StaticCallee(); sc != nil && sc.Signature.Recv() != nil {
		name, sig = sc.Name(), sc.Signature
	}
	if name != "Write" || sig == nil || sig.Params().Len() != 1 || sig.Results().Len() != 2 {
		return false
	}
	sl, ok := sig.Params().At(0).Type().Underlying().(*types.Slice)
	if !ok {
		return false
	}
	b, ok := sl.Elem().Underlying().(*types.Basic)
	return ok && b.Kind() == types.Uint8
}

// sameLenPath: two of the stores can execute on one path through one call (same function and one block reaches the
// other, or they sit in different functions) — "" when they are alternatives of one another.
func sameLenPath(sts []lenStore) string {
	for i := 0; i < len(sts); i++ {
		for j := i + 1; j < len(sts); j++ {
			a, b := sts[i].ins, sts[j].ins
			if a.Parent() != b.Parent() {
				return sts[i].pos + " and " + sts[j].pos
			}
			if a.Block() == b.Block() {
				return sts[i].pos + " and " + sts[j].pos
			}
			for _, x := range reachableBlocks(a.Block()) {
				if x == b.Block() {
					return sts[i].pos + " and " + sts[j].pos
				}
			}
			for _, x := range reachableBlocks(b.Block()) {
				if x == a.Block() {
					return sts[i].pos + " and " + sts[j].pos
				}
			}
		}
	}
	return ""
}
