package p

import (
	"bytes"
	"testing"
)

// D7: a struct whose columns are all bool made parquetgen emit code that does not compile
// ("encoding/binary" imported and not used); this test only has to build and round-trip.
func TestD7(t *testing.T) {
	var buf bytes.Buffer
	w, err := NewParquetWriter(&buf)
	if err != nil {
		t.Fatal(err)
	}
	tr := true
	w.Add(Rec{Flag: true, Maybe: &tr, Flags: []bool{true, false}})
	if err := w.Write(); err != nil {
		t.Fatal(err)
	}
	if err := w.Close(); err != nil {
		t.Fatal(err)
	}
	r, err := NewParquetReader(bytes.NewReader(buf.Bytes()))
	if err != nil {
		t.Fatal(err)
	}
	var x Rec
	if !r.Next() {
		t.Fatal("no row")
	}
	r.Scan(&x)
	if !x.Flag || x.Maybe == nil || !*x.Maybe || len(x.Flags) != 2 {
		t.Fatalf("got %+v", x)
	}
}
