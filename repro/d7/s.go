package p

type Rec struct {
	Flag  bool   `parquet:"flag"`
	Maybe *bool  `parquet:"maybe"`
	Flags []bool `parquet:"flags"`
}
