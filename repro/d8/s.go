package p

type Rec struct {
	ID       int32 `parquet:"id"`
	Lat, Lon float64
	X, y     int32
}
