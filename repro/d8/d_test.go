package p

import (
	"bytes"
	"testing"

	"github.com/parsyl/parquet"
)

// D8: fields declared several to a line (`Lat, Lon float64`) were silently dropped — also the exported ones — so
// adding an unexported field to a declaration (`X, y int32`) removed column X from the file.
func TestD8(t *testing.T) {
	var buf bytes.Buffer
	w, err := NewParquetWriter(&buf)
	if err != nil {
		t.Fatal(err)
	}
	w.Add(Rec{ID: 1, Lat: 1.5, Lon: 2.5, X: 7, y: 9})
	if err := w.Write(); err != nil {
		t.Fatal(err)
	}
	if err := w.Close(); err != nil {
		t.Fatal(err)
	}
	footer, err := parquet.ReadMetaData(bytes.NewReader(buf.Bytes()))
	if err != nil {
		t.Fatal(err)
	}
	var cols []string
	for _, se := range footer.Schema[1:] {
		cols = append(cols, se.Name)
	}
	if len(cols) != 4 {
		t.Fatalf("columns %v, want id, Lat, Lon, X (y is unexported)", cols)
	}
	r, err := NewParquetReader(bytes.NewReader(buf.Bytes()))
	if err != nil {
		t.Fatal(err)
	}
	var x Rec
	if !r.Next() {
		t.Fatal("no row")
	}
	r.Scan(&x)
	if x.ID != 1 || x.Lat != 1.5 || x.Lon != 2.5 || x.X != 7 || x.y != 0 {
		t.Fatalf("got %+v", x)
	}
}
