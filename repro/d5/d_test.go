package p

import (
	"bytes"
	"context"
	"encoding/binary"
	"fmt"
	"testing"

	"github.com/apache/thrift/lib/go/thrift"
	sch "github.com/parsyl/parquet/schema"
)

func ser(x thrift.TStruct) []byte {
	ts := thrift.NewTSerializer()
	ts.Protocol = thrift.NewTCompactProtocolFactory().GetProtocol(ts.Transport)
	b, err := ts.Write(context.TODO(), x)
	if err != nil {
		panic(err)
	}
	return b
}

type page struct {
	h    *sch.PageHeader
	body []byte
}

func le32(vs ...uint32) []byte {
	out := make([]byte, 4*len(vs))
	for i, v := range vs {
		binary.LittleEndian.PutUint32(out[4*i:], v)
	}
	return out
}

func dataPage(n int32, body []byte) page {
	return page{&sch.PageHeader{Type: sch.PageType_DATA_PAGE, UncompressedPageSize: int32(len(body)), CompressedPageSize: int32(len(body)),
		DataPageHeader: &sch.DataPageHeader{NumValues: n, Encoding: sch.Encoding_PLAIN, DefinitionLevelEncoding: sch.Encoding_RLE, RepetitionLevelEncoding: sch.Encoding_RLE}}, body}
}

// file builds a two-row file for Rec by hand: column id (required int32), column nick (optional int32).
func file(id, nick []page) []byte {
	var f bytes.Buffer
	f.WriteString("PAR1")
	var cols []*sch.ColumnChunk
	i32 := sch.Type_INT32
	for ci, pages := range [][]page{id, nick} {
		off := int64(f.Len())
		for _, p := range pages {
			f.Write(ser(p.h))
			f.Write(p.body)
		}
		size := int64(f.Len()) - off
		cols = append(cols, &sch.ColumnChunk{FileOffset: off, MetaData: &sch.ColumnMetaData{Type: i32, Encodings: []sch.Encoding{sch.Encoding_PLAIN},
			PathInSchema: []string{[]string{"id", "nick"}[ci]}, Codec: sch.CompressionCodec_UNCOMPRESSED, NumValues: 2,
			TotalUncompressedSize: size, TotalCompressedSize: size, DataPageOffset: off}})
	}
	req, opt, n2 := sch.FieldRepetitionType_REQUIRED, sch.FieldRepetitionType_OPTIONAL, int32(2)
	fmd := &sch.FileMetaData{Version: 1, NumRows: 2,
		Schema:    []*sch.SchemaElement{{Name: "root", NumChildren: &n2}, {Name: "id", Type: &i32, RepetitionType: &req}, {Name: "nick", Type: &i32, RepetitionType: &opt}},
		RowGroups: []*sch.RowGroup{{NumRows: 2, Columns: cols}}}
	fb := ser(fmd)
	f.Write(fb)
	binary.Write(&f, binary.LittleEndian, uint32(len(fb)))
	f.WriteString("PAR1")
	return f.Bytes()
}

func read(b []byte) (rows []Rec, err error) {
	defer func() {
		if p := recover(); p != nil {
			err = fmt.Errorf("PANIC: %v", p)
		}
	}()
	pr, err := NewParquetReader(bytes.NewReader(b))
	if err != nil {
		return nil, err
	}
	for pr.Next() {
		var x Rec
		pr.Scan(&x)
		rows = append(rows, x)
	}
	return rows, pr.Error()
}

func TestD5(t *testing.T) {
	idBody := le32(7, 9)
	nickBody := append([]byte{2, 0, 0, 0, 4, 1}, le32(70, 90)...) // RLE def levels: run of 2 x level 1, then two values
	okID, okNick := []page{dataPage(2, idBody)}, []page{dataPage(2, nickBody)}

	rows, err := read(file(okID, okNick))
	if err != nil || len(rows) != 2 || rows[0].ID != 7 || rows[1].ID != 9 || rows[1].Nick == nil || *rows[1].Nick != 90 {
		t.Fatalf("control file must read back: rows=%+v err=%v", rows, err)
	}

	dict := page{&sch.PageHeader{Type: sch.PageType_DICTIONARY_PAGE, UncompressedPageSize: 8, CompressedPageSize: 8,
		DictionaryPageHeader: &sch.DictionaryPageHeader{NumValues: 2, Encoding: sch.Encoding_PLAIN}}, le32(7, 9)}
	dictEnc := dataPage(2, idBody)
	dictEnc.h.DataPageHeader.Encoding = sch.Encoding_RLE_DICTIONARY
	bitPacked := dataPage(2, nickBody)
	bitPacked.h.DataPageHeader.DefinitionLevelEncoding = sch.Encoding_BIT_PACKED
	v2 := page{&sch.PageHeader{Type: sch.PageType_DATA_PAGE_V2, UncompressedPageSize: 8, CompressedPageSize: 8,
		DataPageHeaderV2: &sch.DataPageHeaderV2{NumValues: 2, NumRows: 2, Encoding: sch.Encoding_PLAIN}}, idBody}

	for name, f := range map[string][]byte{
		"dictionary page before the data page": file([]page{dict, dataPage(2, idBody)}, okNick),
		"RLE_DICTIONARY value encoding":        file([]page{dictEnc}, okNick),
		"BIT_PACKED definition levels":         file(okID, []page{bitPacked}),
		"v2 data page":                         file([]page{v2}, okNick),
	} {
		rows, err := read(f)
		if err == nil {
			t.Errorf("D5 %s: accepted, rows=%+v (must be refused with an error)", name, rows)
		} else if len(err.Error()) > 5 && err.Error()[:5] == "PANIC" {
			t.Errorf("D5 %s: %v", name, err)
		}
	}
}
