package p

type Rec struct {
	ID   int32  `parquet:"id"`
	Nick *int32 `parquet:"nick"`
}
