package p

type B struct {
	X int32 `parquet:"x"`
	Y int32 `parquet:"y"`
}
type A struct {
	B B     `parquet:"b"`
	Z int32 `parquet:"z"`
}
type Rec struct {
	ID int32 `parquet:"id"`
	A  A     `parquet:"a"`
	W  int32 `parquet:"w"`
}
