package p

type Inner struct {
	C int32 `parquet:"c"`
}

type Mid struct {
	B Inner `parquet:"b"`
}

type Rec struct {
	A Mid `parquet:"a"`
}
