package p

import (
	"bytes"
	"testing"
)

// D6a: a required leaf nested inside two or more required groups made Close panic (index out of range in the
// runtime's schema(): the generated Schema() handed Types: []int{0} for a path of length 3).
func TestD6a(t *testing.T) {
	var buf bytes.Buffer
	w, err := NewParquetWriter(&buf)
	if err != nil {
		t.Fatal(err)
	}
	w.Add(Rec{A: Mid{B: Inner{C: 42}}})
	if err := w.Write(); err != nil {
		t.Fatal(err)
	}
	if err := w.Close(); err != nil {
		t.Fatal(err)
	}
	r, err := NewParquetReader(bytes.NewReader(buf.Bytes()))
	if err != nil {
		t.Fatal(err)
	}
	var x Rec
	if !r.Next() {
		t.Fatal("no row")
	}
	r.Scan(&x)
	if x.A.B.C != 42 {
		t.Fatalf("got %+v", x)
	}
}
