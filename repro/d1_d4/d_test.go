package p

import (
	"bytes"
	"io"
	"testing"

	"github.com/parsyl/parquet"
)

type oneByte struct{ r *bytes.Reader }

func (o oneByte) Read(p []byte) (int, error) {
	if len(p) > 1 {
		p = p[:1]
	}
	return o.r.Read(p)
}
func (o oneByte) Seek(off int64, wh int) (int64, error) { return o.r.Seek(off, wh) }

func write(t *testing.T, opt func(*ParquetWriter) error, f func(w *ParquetWriter)) []byte {
	var buf bytes.Buffer
	w, err := NewParquetWriter(&buf, opt, MaxPageSize(2))
	if err != nil {
		t.Fatal(err)
	}
	f(w)
	if err := w.Close(); err != nil {
		t.Fatal(err)
	}
	return buf.Bytes()
}

func readAll(t *testing.T, r io.ReadSeeker) ([]Rec, int64, error) {
	pr, err := NewParquetReader(r)
	if err != nil {
		return nil, 0, err
	}
	var out []Rec
	for pr.Next() {
		var x Rec
		pr.Scan(&x)
		out = append(out, x)
	}
	return out, pr.Rows(), pr.Error()
}

func s(x string) *string { return &x }

func TestD1(t *testing.T) {
	for name, opt := range map[string]func(*ParquetWriter) error{"uncompressed": Uncompressed, "snappy": Snappy, "gzip": Gzip} {
		b := write(t, opt, func(w *ParquetWriter) {
			w.Add(Rec{ID: 1, Name: "a"})
			w.Add(Rec{ID: 2, Name: "b", Nick: s("x")})
			w.Write()
		})
		got, _, err := readAll(t, oneByte{bytes.NewReader(b)})
		if err != nil || len(got) != 2 || got[1].ID != 2 {
			t.Errorf("D1 %s: one-byte reads: got %v err %v", name, got, err)
		}
	}
}

func TestD2(t *testing.T) {
	b := write(t, Uncompressed, func(w *ParquetWriter) {
		w.Add(Rec{ID: 1, Name: "a"})
		w.Write()
		w.Write()
		w.Add(Rec{ID: 2, Name: "b"})
		w.Add(Rec{ID: 3, Name: "c"})
		w.Write()
	})
	got, _, err := readAll(t, bytes.NewReader(b))
	if err != nil || len(got) != 3 || got[1].ID != 2 || got[2].ID != 3 {
		t.Errorf("D2: got %+v err %v", got, err)
	}
}

func TestD3(t *testing.T) {
	b := write(t, Uncompressed, func(w *ParquetWriter) {
		w.Add(Rec{ID: 1, Name: "a"})
		w.Write()
		w.Add(Rec{ID: 2, Name: "b"})
		w.Add(Rec{ID: 3, Name: "c"})
	})
	got, rows, err := readAll(t, bytes.NewReader(b))
	if err != nil || rows != 1 || len(got) != 1 {
		t.Errorf("D3: rows=%d got %d records err %v (1 row stored)", rows, len(got), err)
	}
}

func TestD4(t *testing.T) {
	var buf bytes.Buffer
	w, _ := NewParquetWriter(&buf, Uncompressed)
	for _, v := range []string{"zzz", "__#NIL#__", "a"} {
		w.Add(Rec{Name: v, Nick: s(v)})
	}
	w.Write()
	w.Close()
	r := bytes.NewReader(buf.Bytes())
	footer, err := parquet.ReadMetaData(r)
	if err != nil {
		t.Fatal(err)
	}
	phs, err := parquet.PageHeaders(footer, r)
	if err != nil {
		t.Fatal(err)
	}
	for i, ph := range phs[1:] {
		st := ph.DataPageHeader.Statistics
		if string(st.MinValue) > "__#NIL#__" || string(st.MaxValue) < "zzz" {
			t.Errorf("D4: column %d min=%q max=%q but page holds \"__#NIL#__\"", i+1, st.MinValue, st.MaxValue)
		}
	}
}
