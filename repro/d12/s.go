package p

type M struct {
	X int32 `parquet:"x"`
}
type A struct {
	Meta M     `parquet:"meta"`
	Z    int32 `parquet:"z"`
}
type B struct {
	Meta M `parquet:"meta"`
}
type Rec struct {
	A A `parquet:"a"`
	B B `parquet:"b"`
}
