package p

import (
	"bytes"
	"fmt"
	"testing"

	"github.com/parsyl/parquet"
)

func TestTree(t *testing.T) {
	var buf bytes.Buffer
	w, err := NewParquetWriter(&buf)
	if err != nil {
		t.Fatal(err)
	}
	w.Add(Rec{A: A{Meta: M{X: 1}, Z: 2}, B: B{Meta: M{X: 3}}})
	if err := w.Write(); err != nil {
		t.Fatal(err)
	}
	if err := w.Close(); err != nil {
		t.Fatal(err)
	}
	md, err := parquet.ReadMetaData(bytes.NewReader(buf.Bytes()))
	if err != nil {
		t.Fatal(err)
	}
	for _, se := range md.Schema {
		n := int32(-1)
		if se.NumChildren != nil {
			n = *se.NumChildren
		}
		fmt.Printf("%s children=%d\n", se.Name, n)
	}
	// depth-first walk as a spec parser does
	i := 0
	var walk func(depth int) error
	walk = func(depth int) error {
		if i >= len(md.Schema) {
			return fmt.Errorf("schema list exhausted at depth %d", depth)
		}
		se := md.Schema[i]
		i++
		if se.NumChildren != nil {
			for k := int32(0); k < *se.NumChildren; k++ {
				if err := walk(depth + 1); err != nil {
					return err
				}
			}
		}
		return nil
	}
	if err := walk(0); err != nil {
		t.Fatal(err)
	}
	// the listing must be root, a, meta, x, z, b, meta, x
	want := []string{"root", "a", "meta", "x", "z", "b", "meta", "x"}
	if len(md.Schema) != len(want) {
		t.Fatalf("schema has %d elements, want %d", len(md.Schema), len(want))
	}
	for k, se := range md.Schema {
		if se.Name != want[k] {
			t.Fatalf("schema element %d is %s, want %s", k, se.Name, want[k])
		}
	}
	if i != len(md.Schema) {
		t.Fatalf("tree covers %d of %d elements", i, len(md.Schema))
	}
	r, err := NewParquetReader(bytes.NewReader(buf.Bytes()))
	if err != nil {
		t.Fatal(err)
	}
	for r.Next() {
		var x Rec
		r.Scan(&x)
		fmt.Printf("%+v\n", x)
	}
}
