package p

type Rec struct {
	ID   int32   `parquet:"id"`
	Name *string `parquet:"name"`
}
