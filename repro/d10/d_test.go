package p

import (
	"bytes"
	"fmt"
	"strings"
	"testing"
)

func accept(b []byte) (rows int, err error) {
	defer func() {
		if p := recover(); p != nil {
			err = fmt.Errorf("panic: %v", p)
		}
	}()
	r, err := NewParquetReader(bytes.NewReader(b))
	if err != nil {
		return 0, err
	}
	for r.Next() {
		var x Rec
		r.Scan(&x)
		rows++
	}
	return rows, r.Error()
}

// D10: the reader never looked at the trailing magic and took the footer length from whatever 4 bytes precede the
// last 4. For this file (8 row groups, footer of 560 bytes) the last four footer bytes happen to equal the length of
// the footer minus 4, so the file cut 4 bytes short — its trailing "PAR1" missing — was accepted with all 9 rows.
// Found by the sub-agent that seeded C11 (probe on the unchanged tree).
func TestD10(t *testing.T) {
	var buf bytes.Buffer
	w, _ := NewParquetWriter(&buf)
	for i := 0; i < 8; i++ {
		s := strings.Repeat("x", 1+(i*16)%200)
		w.Add(Rec{ID: int32(i * 1000003), Name: &s})
		if i == 7 {
			w.Add(Rec{ID: 7})
		}
		w.Write()
	}
	w.Close()
	full := buf.Bytes()
	if rows, err := accept(full); err != nil || rows != 9 {
		t.Fatalf("complete file: rows=%d err=%v", rows, err)
	}
	for n := 0; n < len(full); n++ {
		if rows, err := accept(full[:n]); err == nil {
			t.Errorf("prefix of %d/%d bytes accepted as a complete file with %d rows", n, len(full), rows)
		}
	}
}
