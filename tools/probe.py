#!/usr/bin/env python3
"""Development aid: probe candidate mutants (plain diffs against /repo) — does the suite still pass, which checks fire?
usage: probe.py <diff>...   prints one line per diff:  <name> build=… suite=… caught_by=[…]"""
import os, subprocess, sys, tempfile, shutil, time, concurrent.futures as cf
V="/verif"; REPO="/repo"
ENV=dict(os.environ, GOFLAGS="-mod=mod", GOPROXY="off", GOSUMDB="off", GOTOOLCHAIN="local"); ENV.pop("GOWORK",None)
IDS=["C%02d"%i for i in range(1,19)]
def wt_add(path):
    for i in range(8):
        p=subprocess.run(["git","-C",REPO,"worktree","add","--detach","-f",path],capture_output=True,text=True)
        if p.returncode==0: return
        time.sleep(1+i)
    raise RuntimeError(p.stderr)
def one(path):
    name=os.path.basename(path)
    tmp=tempfile.mkdtemp(prefix="probe-"); wt=tmp+"/repo"
    try:
        wt_add(wt)
        p=subprocess.run(["git","-C",wt,"apply","--whitespace=nowarn",path],capture_output=True,text=True)
        if p.returncode: return f"{name} DOES-NOT-APPLY {p.stderr.strip()[:200]}"
        b=subprocess.run(["go","build","./..."],cwd=wt,env=ENV,capture_output=True,text=True)
        if b.returncode: return f"{name} build=FAIL {b.stderr.strip()[:200]}"
        t=subprocess.run(["go","test","-vet=off","-count=1","./..."],cwd=wt,env=ENV,capture_output=True,text=True)
        caught=[]; rep=[]
        def chk(i):
            e=dict(ENV,VERIF_REPO=wt,VERIF_OUT=f"{tmp}/out-{i}",VERIF_DIR=V)
            c=subprocess.run([V+"/bin/verif","check",i,"--tier","quick"],env=e,capture_output=True,text=True)
            lines=[l.strip() for l in c.stdout.splitlines() if l.startswith("  violated") or l.startswith("  undecided") or l.startswith("  check failed")]
            return i,c.returncode,lines
        with cf.ThreadPoolExecutor(max_workers=6) as ex:
            for i,rc,lines in ex.map(chk,IDS):
                if rc!=0:
                    caught.append(i); rep.append(f"      {i}: "+(lines[0][:200] if lines else f"exit {rc}"))
        s=f"{name} suite={'pass' if t.returncode==0 else 'FAIL'} caught_by={caught}"
        if "-v" in sys.argv: s+="\n"+"\n".join(rep)
        return s
    finally:
        subprocess.run(["git","-C",REPO,"worktree","remove","--force",wt],capture_output=True)
        subprocess.run(["git","-C",REPO,"worktree","prune"],capture_output=True)
        shutil.rmtree(tmp,ignore_errors=True)
paths=[a for a in sys.argv[1:] if not a.startswith("-")]
with cf.ThreadPoolExecutor(max_workers=int(os.environ.get("JOBS","3"))) as ex:
    for r in ex.map(one,paths): print(r,flush=True)
