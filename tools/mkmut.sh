#!/bin/sh
# usage: mkmut.sh <name> <props> <expect> [names]  — turn the edits made in the scratch worktree /tmp/mw into /verif/mutants/<name>.diff and reset it
set -e
W=/tmp/mw
[ -d $W ] || git -C /repo worktree add --detach -f $W >/dev/null 2>&1
if [ "$1" = "init" ]; then git -C $W checkout -q --detach $(git -C /repo rev-parse HEAD); git -C $W checkout -- .; exit 0; fi
{ echo "# property: $2"; echo "# expect: $3"; [ -n "$4" ] && echo "# names: $4"; git -C $W diff; } > /verif/mutants/$1.diff
git -C $W checkout -- .
echo "wrote /verif/mutants/$1.diff ($(grep -c '^[-+][^-+]' /verif/mutants/$1.diff) changed lines)"
