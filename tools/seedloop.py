#!/usr/bin/env python3
"""Development aid: re-run the target property's check against every confirmed seed (seeded/*/patch.diff) without
repeating the confirmation (suite, demonstration) that tools/seedcheck.py did when the seed was accepted.
usage: seedloop.py [--thorough]   (JOBS=n for parallelism)"""
import json, os, subprocess, sys, tempfile, shutil
V = "/verif"
tmp = tempfile.mkdtemp(prefix="seedloop-")
paths = []
for d in sorted(os.listdir(f"{V}/seeded")):
    m = f"{V}/seeded/{d}/meta.json"
    if not os.path.exists(m):
        continue
    prop = json.load(open(m))["property"]
    out = f"{tmp}/{d}.diff"
    open(out, "w").write(f"# property: {prop}\n# expect: violation\n# origin: seeded/{d}\n" + open(f"{V}/seeded/{d}/patch.diff").read())
    paths.append(out)
rc = subprocess.call([f"{V}/tools/selftest.py"] + paths + [a for a in sys.argv[1:] if a.startswith("--")])
shutil.rmtree(tmp)
sys.exit(rc)
