#!/usr/bin/env python3
"""Regenerates /verif/MANIFEST.json from the table below (kept in one place so it stays valid)."""
import json, subprocess, os
V = "/verif"
ids = [json.loads(l)["id"] for l in open(f"{V}/properties.jsonl")]
SETUP = "cd /verif/checker && GOFLAGS=-mod=mod GOPROXY=off GOSUMDB=off GOTOOLCHAIN=local GOWORK=off go build -o /verif/bin/verif ."
C = {}
def claim(id, cat, text, note, tech, ref):
    C[id] = dict(cat=cat, text=text, note=note, tech=tech, ref=ref)

claim("C08", "other",
  "Sufficient structural condition for the whole property: every consumption of the source goes through a fill-or-fail primitive or a count-preserving forwarding wrapper, so what each call site obtains is the same under every fragmentation the io.Reader contract allows (including data+EOF). Decided for all files and all fragmentations at once from the code's shape.",
  "Trusted: contracts of opaque callees (io.ReadFull/CopyN, encoding/binary.Read, thrift compact protocol over StreamTransport reads via io.ReadFull/readByte without read-ahead). Source identity by field-based wrapper-alias analysis over go/ssa + VTA.",
  "static analysis: resource-identity (wrapper-alias) dataflow over go/ssa + per-call-site contract table (SR rule)", "DESIGN.md §4 SR, §5 C08")
claim("C09", "other",
  "For every k at once: each of the finitely many call sites that can touch the destination writer propagates a non-nil error, on every CFG path on which its error is non-nil, up to NewParquetWriter/Write/Close; the 'cannot happen' belief in Add is checked by resolving the option functions passed there. 'Nothing panics' is not decided.",
  "Sound w.r.t. VTA call graph and field-based wrapper aliasing; io.Writer contract (failed write => non-nil error); sink does not flow through reflection/unsafe.",
  "static analysis: resource-identity dataflow + path-sensitive (nil-test) error-propagation check on go/ssa CFGs (EP rule)", "DESIGN.md §4 EP, §5 C09")
claim("C10", "other",
  "Sufficient condition 'every failed Read/Seek is reported': every source-touching call site reachable from NewParquetReader/Next/Scan returns its error, or records it in the sticky error that Error() returns with Next returning false and Scan a no-op. Stronger than the statement's 'or every delivered row is correct'. 'Does not panic' is not decided.",
  "Same trusted base as C09, on the io.ReadSeeker; thrift-generated Read and binary.Read return the transport's error.",
  "static analysis: resource-identity dataflow + path-sensitive error-propagation check incl. sticky-error (H3) side conditions", "DESIGN.md §4 EP, §5 C10")
claim("C11", "other",
  "Necessary condition only (thin claim): every failure while locating/decoding the footer aborts the constructor, and the footer read dominates every column read in the constructor. Whether each strict prefix actually makes one of those calls fail depends on which bytes thrift rejects — NOT decided.",
  "Value-level behaviour of thrift decoding on garbage is outside this technique; no magic-number check exists in the reader.",
  "static analysis: error-propagation check restricted to the footer path + SSA dominator check (footer before first column read)", "DESIGN.md §5 C11")

claim("C06", "other",
  "Two clauses of C06 decided as structural necessary conditions, for all histories at once: (WH-empty) a Write with nothing pending puts nothing on the stream — every sink-touching call site reachable from Write is guarded by a rows-pending test; (WH-rows) the footer's file-level row count is computed from the row groups emitted, never from an Add-time counter; (WH-reset) Write re-initialises every writer/column field Add advances; (WH-child) the next page's writer inherits sink, page size, codec, metadata; (WH-groups) no row group without rows reaches the footer, and RowGroup.NumRows — by which Footer decides which groups were written — is never stored on the Add path (records pending at Close), assigned from a counter advanced once per record and restarted per row group; (TD) Add counts/hands out/advances exactly once per stored record, Write emits parent page then child-chain pages per column. The rest of C06 (one row group per batch, exact-multiple batches, ordering) needs model exploration and is NOT decided.",
  "Reader is sequential from byte 4 (template fact). Guards recognised by SSA dominance; quantities discovered from what Add increments/appends.",
  "static analysis: must-be-guarded (dominator) check on sink-touching call sites + backward data-flow slice of the NumRows store over go/ssa", "DESIGN.md §4 WH, §5 C06")
claim("C12", "other",
  "Complete structural soundness argument for the accumulators of every parquet.Stats implementation in the instantiated templates (8 element types x required/optional): monotone guarded updates (ST1), every value reaches both updates (ST2), comparison order = column order via the declared physical/converted type (ST3), Min/Max serialise their own field bit-preservingly (ST4), absence keyed on a value-only counter/flag (ST5), exact null counter under def < maxDef (ST6). Holds for every value multiset incl. NaN, extremes, arbitrary byte strings.",
  "Trusted: thrift serialisation of the Statistics struct; one stats object per page (template-fixed). Required columns' absence on empty pages relies on WH-empty, re-checked here.",
  "static analysis: per-store guard classification on go/ssa (dominators, cut-set path checks) + encoding/table agreement checks", "DESIGN.md §4 ST, §5 C12")
claim("C13", "other",
  "Sufficient structural condition for the whole property: pooled buffers never outlive their Get..Put window and their stale contents are never observable (PO1-3, alias/escape analysis with callee summaries), all package-level variables are concurrency-safe pools or frozen (GL), and nothing reachable from the API uses goroutines, channels, map iteration, clock, randomness, environment, unsafe, reflect or %p (ND). Covers all interleavings and all prior pool histories at once.",
  "Trusted: thread-safety and determinism of thrift serialisation, snappy, gzip, bytebufferpool; io.Writer does not retain/modify p.",
  "static analysis: SSA alias/escape analysis of pooled buffers with interprocedural summaries, global-mutation walk, reachability scan for nondeterminism sources", "DESIGN.md §4 PO/GL/ND, §5 C13")
claim("C17", "proof",
  "Exact decision of C17 for every 8-tuple of W-bit values, W=1..4, and every W-byte group: a bit-provenance abstract interpretation evaluates each output bit of pack_W/unpack_W to a single input bit; 336 bit obligations + lengths + mutual-inverse check + dispatch + call-site obligations, all must discharge.",
  "Trusted base: go/parser, go/types, go/constant; ~80 lines of transfer functions for & | ^ &^ << >> and integer conversion in /verif/checker/bp.go.",
  "static analysis: bit-provenance abstract interpretation over go/ast + go/types", "DESIGN.md §4 BP, §5 C17")

claim("C18", "other",
  "'Rejected with an error' decided for every unsupported page type, value encoding, level encoding (where the column decodes such levels) and codec, at every page of every chunk: must-check-before-use over all CFG paths of each page-header consumer (with helper summaries and correlated boolean fields), error default of the codec dispatch, and propagation of the refusal to the constructor / sticky Error(). 'Does not panic' for otherwise malformed content is NOT decided.",
  "Header fields are what thrift decoded; selectors and supported constants come from the schema package by name (PageHeader.Type, DataPageHeader.{Encoding,DefinitionLevelEncoding,RepetitionLevelEncoding}, CompressionCodec).",
  "static analysis: path-sensitive must-check-before-use exploration on go/ssa CFGs (FG rule) + error-propagation check (EP)", "DESIGN.md §4 FG, §5 C18")

claim("C03", "translation_validation",
  "Per generated program: every column's shredder function is abstractly interpreted into a decision tree over (access path, nil/empty) tests with emissions (def, rep, value path) and compared with the canonical Dremel shredder derived from the struct's go/types description; Fields() hands the runtime the struct's own column list, paths and repetition kinds. Each comparison holds for ALL records of the shape; shapes are enumerated exhaustively in the thorough tier (bounded grammar: depth <= 3, <= 2 children per group, all kind combinations, 2013 programs).",
  "Bounded grammar of struct shapes; structured-AST subset the generator emits (anything else is undecided = failure). Programs that do not type-check are C05 findings and skipped here. Level stream widths are checked to be bits.Len(max level) on both sides (LA-order); RLE bytes are C07.",
  "static analysis: translation validation — abstract interpretation of generated shredders (go/ast + go/types) against a reference computed from the struct type", "DESIGN.md §4 TV, §5 C03")
claim("C05", "translation_validation",
  "Per generated program over the bounded grammar: generation succeeds and is byte-deterministic, the output type-checks against today's runtime, Fields() matches the struct, shredders are canonical, and each assembler case (def, rep) has exactly the required effect (no clobber, no dangling access, exact creation, right indices, coverage, value counting) — for all values of the shape. 'Silently wrong' = type-checks and a TV obligation is violated. Known findings (generator case-analysis defects D6, validated shape by shape against a dynamic round-trip harness at development time) are listed per (shape, column, case); any other violation is reported.",
  "Template-fixed drivers (indices.rep, Scan order) assumed; shapes outside the grammar not covered. Known-findings list in /verif/known_findings_c05.jsonl.",
  "static analysis: translation validation — type-check + AST-level symbolic evaluation of generated assemblers/shredders against a go/types-derived reference; exhaustive enumeration of a finite struct grammar", "DESIGN.md §4 TV, §5 C05")
claim("C14", "translation_validation",
  "Per (base struct, decorated struct) pair — excluded fields of assorted types inserted everywhere / per nesting level; field runs moved into embedded structs everywhere / per level — the generated program must be textually identical to the base program, type-check against the decorated struct and re-validate against the reference columns computed from the decorated struct (embedded inlined, excluded skipped): identical programs produce byte-identical files and never touch excluded fields. Known findings: decorated structs for which the identical program does not compile (positional literals, promoted fields in literals).",
  "Base shapes = corpus shapes whose own program discharges C05. Known-findings list in /verif/known_findings_c14.jsonl (validated: each listed pair fails to build).",
  "static analysis: translation validation over program pairs (text identity + go/types re-validation)", "DESIGN.md §4 TV-inert, §5 C14")

claim("C01", "other",
  "Necessary conditions of the round trip that are static choices shared by writer and reader, decided for all values: inverse codec operations and codec provenance (LA-codec); PLAIN layout per element type with bit-preserving conversions, string length prefix, bool bit order (LA-plain); presence/order/width agreement of level streams, widths = bits.Len(max level) (LA-order); Write re-initialises per-batch state and page writers inherit configuration (WH-reset, WH-child: 'any split into batches, any page size'); the generated drivers (TD: page order of Write over the child chain, Add bookkeeping, Next true exactly Rows() times and row groups loaded exactly when used up, constructor row count and Seek behind the magic, readRowGroup consuming exactly one row group and one chunk descriptor per column) and column templates (FT: value counts handed to the page writer, values decoded per chunk, bool payload size); level bookkeeping (max levels, trimming to num_values, non-null counts, per-page counts, chunk descriptors); Add copies the record, shredders keep only primitives, assemblers never store a slice of reader buffers into a record (LA-alias) — decides the two 'unaffected by mutation' sentences. Per-shape inversion of shredding by assembly is claimed under C05. NOT decided: page-chain / row-group / cursor arithmetic, loop termination, multi-page bool unpacking, thrift, Rows()/Next() counts.",
  "Thin on value-level behaviour by nature; the listed arithmetic needs execution against a model.",
  "static analysis: sibling-agreement and data-flow checks on go/ssa (codec dispatch, PLAIN encoders/decoders, level stream call sites, alias check of assemblers)", "DESIGN.md §4 LA, §5 C01")
claim("C02", "other",
  "Necessary structural conditions of C02: per page, header sizes and chunk totals are exactly the lengths of the bytes written (linear-form evaluation over slice lengths through DoWrite..updateColumnChunk: no swap of compressed/uncompressed, header bytes included); PAR1 first / footer / LE footer length = bytes written / PAR1 last (LA-frame); schema inputs handed to the runtime match the struct for every shape of the corpus (TV-fields); footer row count from emitted groups, no bytes outside accounted row groups, NumRows stored at write time only from a per-group counter (WH); the column lists handed to New/StartRowGroup are Schema() of every column in order and Schema() reports the column's own name/path/repetition/types (TD, FT); chunk totals accumulate per page; chunk offsets are accumulated (LA-offset); pointer cells of schema elements are neither written through while shared nor reassigned per iteration while shared (LA-cells). NOT decided: the rest of the schema tree built by schema() (same-named groups under different parents collide), offset sums, thrift, page record limits.",
  "Value-level parts need execution against an independent parser.",
  "static analysis: interprocedural linear-form (slice-length) evaluation on go/ssa, framing dominance checks, translation validation of Fields() over the shape corpus", "DESIGN.md §4 LA-len/LA-frame, §5 C02")
claim("C04", "other",
  "Necessary structural preconditions only (thin): decode-time choices come from the file, never from writer configuration (codec provenance; no reader-reachable load of a writer-configuration field); inverse codec pairing; both run kinds and multi-byte run headers handled by the level decoder; page body extent from the header's compressed size; level stream order/width agreement, each width = bits.Len(maximum level); no use on the decode path of a thrift field a conformant writer may omit (statistics, crc, optional offsets; LA-optmeta); fragmentation independence (SR, SR-count); reader drivers (TD: Next/readRowGroup/constructor), level trimming to num_values, non-null and per-page counts, chunk descriptors from the file's metadata. NOT decided: correctness of level/run/PLAIN decoding, page concatenation and trimming for all legal encodings (needs an independent writer).",
  "C04 is a statement about decoding values for all legal encodings; only its structural preconditions are claimed.",
  "static analysis: provenance/data-flow checks and sibling agreement on go/ssa; bit-provenance evaluation of run headers and varints", "DESIGN.md §5 C04")
claim("C07", "other",
  "Necessary structural conditions: run-kind flag agreement between encoder headers and decoder dispatch; LEB128 writer/reader structure (7 bits per byte, continuation bit, multi-byte headers) by bit-provenance evaluation on SSA; exact little-endian int32 length prefix agreement; level stream presence/order/width agreement at the page level; bit-packed payload layout (BP, the C17 proof obligations). NOT decided: the encoder state machine (8-repeat switch, 63-group close, back-patching, padding) and the decoder's acceptance of every run segmentation — they need a relational invariant over all value sequences, out of reach of this family here.",
  "No numeric/relational abstract domain beyond constants and bit provenance is available.",
  "static analysis: bit-provenance abstract interpretation over go/ssa + sibling-agreement checks", "DESIGN.md §4 LA-runkind/LA-prefix/BP, §5 C07")
claim("C15", "other",
  "Necessary condition only (thin): the physical-type table used to regenerate a struct from a footer is the inverse of the schema type functions of the generated writer on every type C15 covers, and OPTIONAL <-> pointer on both sides; the footer schema's pointer-typed cells (num_children, repetition_type) are per element — not written through while shared, not reassigned per iteration while shared (LA-cells). The depth-first reconstruction structs.getStruct is checked as linear forms over its two counters (child at i+j, recursion from i+j+1, j += consumed, returns i+j) and field() tags with the element's own name (LA-structs); the leaf repetition an optional/repeated column declares in the footer is the table entry of its own last repetition code (LA-leafkind). The footer fed to it is otherwise value-level and NOT decided.",
  "Thin by nature.",
  "static analysis: table-agreement check (go/ast constant table vs. SSA analysis of generated Type functions)", "DESIGN.md §4 LA-types, §5 C15")
claim("C16", "other",
  "Necessary structural conditions only (thin): every Read/Seek failure on the introspection paths is reported (EP); the page walk reads one header per iteration, appends it exactly once, skips exactly its compressed_page_size, advances by its num_values; PageHeaders visits every chunk of every row group in order with that chunk's own offset and count. Equality with an independent walk of arbitrary files is value-level and NOT decided.",
  "Thin by nature.",
  "static analysis: error-propagation check + data-flow/shape checks of the page walk on go/ssa", "DESIGN.md §4 LA-extent, §5 C16")

NA_DEFAULT = "check not built yet (static-analysis framework under construction, see DESIGN.md §9)"
NA = {}
checks = []
for i in ids:
    if i in C:
        c = C[i]
        checks.append({
            "property_id": i,
            "quick_cmd": f"/verif/bin/verif check {i} --tier quick",
            "thorough_cmd": f"/verif/bin/verif check {i} --tier thorough",
            "evidence_file": f"/verif/evidence/{i}.json",
            "replay_cmd_template": "/verif/bin/verif explain {path}",
            "engine": "verif-checker",
            "level_claimed": {"category": c["cat"], "text": c["text"], "design_ref": c["ref"]},
            "level_note": c["note"],
            "technique": c["tech"],
        })
m = {
    "version": 1,
    "setup_cmd": SETUP,
    "hooks": {"guard": "verif", "enable": "none needed: every check analyses source; there are no guarded files and no hook commits",
              "baseline_off_cmd": "cd /repo && go test -vet=off -count=1 ./...", "source_commits": [], "add_only": True},
    "engines": [{"name": "verif-checker", "path": "/verif/checker", "serves_properties": sorted(C), 
                 "kind_free_text": "repository-specific static analyser (Go; go/packages, go/ssa, VTA call graph, go/types, go/ast) over /repo's working tree and over template code instantiated by the tree's own parquetgen"}],
    "checks": checks,
    "notes": "All checks are static: they read /repo's working tree (and the output of its build-time generator), never run the reader/writer. Unguarded fix: commits in /repo are listed in /verif/known_findings.jsonl (fixed: lines). tools/selftest.py applies /verif/mutants and /verif/seeded patches to scratch worktrees (development aid).",
    "not_applicable": [{"property_id": i, "reason": NA.get(i, NA_DEFAULT)} for i in ids if i not in C],
}
json.dump(m, open(f"{V}/MANIFEST.json", "w"), indent=1)
print("claimed:", sorted(C))
