#!/bin/sh
# usage: tools/repro.sh <dir under /verif/repro> [repo]   — scratch module under a temp dir, removed afterwards
set -e
export GOFLAGS=-mod=mod GOPROXY=off GOSUMDB=off GOTOOLCHAIN=local; unset GOWORK
D=$1; REPO=${2:-/repo}; T=$(mktemp -d); trap 'rm -rf $T' EXIT
mkdir -p $T/p; cp /verif/repro/$D/*.go $T/p/
printf 'module rep\n\ngo 1.20\n\nrequire github.com/parsyl/parquet v0.0.0\n\nreplace github.com/parsyl/parquet => %s\n' $REPO > $T/go.mod
cp $REPO/go.sum $T/
(cd $REPO && go build -o $T/parquetgen ./cmd/parquetgen)
TYPE=$(sed -n 's/^\/\/ *root: *//p' $T/p/s.go); TYPE=${TYPE:-Rec}
(cd $T/p && ../parquetgen -input s.go -type $TYPE -package p -output parquet.go)
cd $T && go test -count=1 ./p
