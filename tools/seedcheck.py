#!/usr/bin/env python3
"""Confirm a seeded change and run the checks against it (development aid).
usage: seedcheck.py <seed-id> <property> <dir with patch.diff, demo/, NOTES.md> [--tier thorough]
Copies the material to /verif/seeded/<seed-id>/, verifies in scratch worktrees of /repo (removed afterwards) that
 (1) the patch applies and the tree builds, (2) the repository's own suite still passes, (3) the demonstration fails
 with the change and passes without it, then runs every check of MANIFEST.json against the changed tree and writes meta.json."""
import time, json, os, shutil, subprocess, sys, tempfile, concurrent.futures as cf
V="/verif"; REPO="/repo"
ENV=dict(os.environ, GOFLAGS="-mod=mod", GOPROXY="off", GOSUMDB="off", GOTOOLCHAIN="local"); ENV.pop("GOWORK",None)
sid, prop, src = sys.argv[1:4]
tier = "thorough" if "--thorough" in sys.argv else "quick"
dst=f"{V}/seeded/{sid}"
os.makedirs(dst, exist_ok=True)
if os.path.abspath(src)!=os.path.abspath(dst):
    shutil.copy(f"{src}/patch.diff", f"{dst}/patch.diff")
    if os.path.isdir(f"{dst}/demo"): shutil.rmtree(f"{dst}/demo")
    shutil.copytree(f"{src}/demo", f"{dst}/demo")
    if os.path.exists(f"{src}/NOTES.md"): shutil.copy(f"{src}/NOTES.md", f"{dst}/NOTES.md")
tmp=tempfile.mkdtemp(prefix="seed-"); wt=f"{tmp}/repo"; base=f"{tmp}/base"
meta={"seed":sid,"property":prop,"ran":[]}
def wt_add(path):
    """git worktree add with retries (other processes may hold the repository lock)"""
    for i in range(8):
        p = subprocess.run(["git", "-C", REPO, "worktree", "add", "--detach", "-f", path], capture_output=True, text=True)
        if p.returncode == 0:
            return
        time.sleep(1 + i)
    raise RuntimeError("git worktree add failed: " + p.stderr)

def sh(cmd, cwd=None, env=ENV, timeout=1800):
    p=subprocess.run(cmd, cwd=cwd, env=env, capture_output=True, text=True, shell=isinstance(cmd,str), timeout=timeout)
    return p.returncode, (p.stdout+p.stderr)
try:
    for d in (wt, base):
        wt_add(d)
    rc,out=sh(["git","-C",wt,"apply","--whitespace=nowarn",f"{dst}/patch.diff"]); meta["patch_applies"]=rc==0
    assert rc==0, "patch does not apply: "+out
    rc,out=sh(["go","build","./..."],cwd=wt); meta["builds"]=rc==0; meta["ran"].append("go build ./...")
    rc,out=sh(["go","test","-vet=off","-count=1","./..."],cwd=wt); meta["suite_passes_with_change"]=rc==0; meta["ran"].append("go test -vet=off -count=1 ./... (changed tree)")
    if rc!=0: meta["suite_output_tail"]=out[-600:]
    os.chmod(f"{dst}/demo/run.sh",0o755)
    rc,out=sh(["bash",f"{dst}/demo/run.sh",wt],cwd=f"{dst}/demo"); meta["demo_fails_with_change"]=rc!=0; meta["demo_output_with_change_tail"]=out[-500:]
    rc,out=sh(["bash",f"{dst}/demo/run.sh",base],cwd=f"{dst}/demo"); meta["demo_passes_without_change"]=rc==0
    if rc!=0: meta["demo_output_without_change_tail"]=out[-500:]
    meta["ran"]+= ["demo/run.sh <changed tree>","demo/run.sh <unchanged tree>"]
    ids=[c["property_id"] for c in json.load(open(f"{V}/MANIFEST.json"))["checks"]]
    def one(i):
        e=dict(ENV, VERIF_REPO=wt, VERIF_OUT=f"{tmp}/out-{i}", VERIF_DIR=V)
        t = tier if i==prop else "quick"
        p=subprocess.run([f"{V}/bin/verif","check",i,"--tier",t],env=e,capture_output=True,text=True)
        rep=[l.strip() for l in p.stdout.splitlines() if l.startswith("  violated") or l.startswith("  undecided") or l.startswith("  check failed")]
        return i,p.returncode,rep
    res={}
    with cf.ThreadPoolExecutor(max_workers=6) as ex:
        for i,rc,rep in ex.map(one, ids):
            res[i]={"exit":rc,"reports":rep[:4]}
    meta["checks"]={i:r for i,r in res.items() if r["exit"]!=0}
    meta["caught_by"]=sorted(i for i,r in res.items() if r["exit"]==1)
    meta["caught_by_target_check"]= prop in meta["caught_by"]
    meta["ran"].append(f"bin/verif check <all 18> against the changed tree (target tier {tier})")
finally:
    for d in (wt, base):
        subprocess.run(["git","-C",REPO,"worktree","remove","--force",d],capture_output=True)
    subprocess.run(["git","-C",REPO,"worktree","prune"],capture_output=True)
    shutil.rmtree(tmp, ignore_errors=True)
    for k in list(os.listdir(f"{dst}/demo")):
        if k in ("parquetgen",) or k.endswith(".test"): 
            try: os.remove(f"{dst}/demo/{k}")
            except OSError: pass
if os.path.exists(f"{dst}/meta.json"):
    old=json.load(open(f"{dst}/meta.json"))
    for k in ("needs_to_manifest","what","notes"):
        if k in old: meta.setdefault(k, old[k])
json.dump(meta, open(f"{dst}/meta.json","w"), indent=1)
ok = meta.get("builds") and meta.get("suite_passes_with_change") and meta.get("demo_fails_with_change") and meta.get("demo_passes_without_change")
print(sid, "CONFIRMED" if ok else "NOT-CONFIRMED", "caught_by=",meta.get("caught_by"), "target_caught=",meta.get("caught_by_target_check"))
for i,r in meta.get("checks",{}).items():
    for l in r["reports"][:2]: print("   ",i,l[:230])
