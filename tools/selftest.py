#!/usr/bin/env python3
"""Mutant self-test (development aid, DESIGN.md §7; not a registered check).

Each /verif/mutants/*.diff (or a seeded change /verif/seeded/<id>/patch.diff) starts with header lines
  # property: C09[,C10]     checks to run
  # expect: violation | silent
  # names: <substring that must occur in the checker's report>   (optional)
The patch is applied to a scratch git worktree of /repo (removed afterwards); the scratch tree
must still build; the named checks run against it (VERIF_REPO) with evidence redirected (VERIF_OUT).
"""
import time, os, re, subprocess, sys, tempfile, shutil, json, concurrent.futures as cf

VERIF = os.environ.get("VERIF_DIR", "/verif")
REPO = "/repo"
ENV = dict(os.environ, GOFLAGS="-mod=mod", GOPROXY="off", GOSUMDB="off", GOTOOLCHAIN="local")
ENV.pop("GOWORK", None)

def wt_add(path):
    """git worktree add with retries (other processes may hold the repository lock)"""
    for i in range(8):
        p = subprocess.run(["git", "-C", REPO, "worktree", "add", "--detach", "-f", path], capture_output=True, text=True)
        if p.returncode == 0:
            return
        time.sleep(1 + i)
    raise RuntimeError("git worktree add failed: " + p.stderr)

def header(path):
    h = {}
    for line in open(path):
        m = re.match(r"#\s*(\w+):\s*(.*)", line)
        if m: h[m.group(1)] = m.group(2).strip()
        elif not line.startswith("#"): break
    return h

def run_one(path, tier):
    h = header(path)
    props = [p.strip() for p in h.get("property", "").split(",") if p.strip()]
    expect = h.get("expect", "violation")
    name = os.path.relpath(path, VERIF)
    tmp = tempfile.mkdtemp(prefix="mut-")
    wt = os.path.join(tmp, "repo")
    out = os.path.join(tmp, "out")
    res = {"mutant": name, "expect": expect, "props": {}, "ok": True, "msg": ""}
    try:
        wt_add(wt)
        p = subprocess.run(["git", "-C", wt, "apply", "--whitespace=nowarn", path], capture_output=True, text=True)
        if p.returncode != 0:
            res["ok"] = False; res["msg"] = "patch does not apply: " + p.stderr.strip(); return res
        b = subprocess.run(["go", "build", "./..."], cwd=wt, env=ENV, capture_output=True, text=True)
        if b.returncode != 0:
            res["ok"] = False; res["msg"] = "mutant does not build: " + b.stderr.strip()[:300]; return res
        if "--tests" in sys.argv:
            t = subprocess.run(["go", "test", "-vet=off", "-count=1", "./..."], cwd=wt, env=ENV, capture_output=True, text=True)
            if t.returncode != 0:
                res["msg"] += "[suite FAILS on mutant] "
        for prop in props:
            e = dict(ENV, VERIF_REPO=wt, VERIF_OUT=out, VERIF_DIR=VERIF)
            c = subprocess.run([os.path.join(VERIF, "bin", "verif"), "check", prop, "--tier", tier], env=e, capture_output=True, text=True)
            viol = [l for l in c.stdout.splitlines() if l.startswith("  violated") or l.startswith("  undecided") or l.startswith("  check failed")]
            res["props"][prop] = {"exit": c.returncode, "reports": viol[:6]}
            if expect == "violation":
                good = c.returncode == 1 and "VIOLATION property=" + prop in c.stdout
                if good and h.get("names") and h["names"] not in c.stdout:
                    good = False; res["msg"] += f"{prop}: report does not name '{h['names']}' "
                if any(l.startswith("  check failed") for l in viol) and not h.get("allow_checker_failure"):
                    res["msg"] += f"{prop}: (reported as checker failure) "
            else:
                good = c.returncode == 0
            if not good:
                res["ok"] = False
                res["msg"] += f"{prop}: exit {c.returncode}, wanted {expect}. "
                if c.returncode not in (0, 1): res["msg"] += c.stderr[-300:]
    finally:
        subprocess.run(["git", "-C", REPO, "worktree", "remove", "--force", wt], capture_output=True)
        subprocess.run(["git", "-C", REPO, "worktree", "prune"], capture_output=True)
        shutil.rmtree(tmp, ignore_errors=True)
    return res

def main():
    args = [a for a in sys.argv[1:] if not a.startswith("--")]
    tier = "thorough" if "--thorough" in sys.argv else "quick"
    paths = [os.path.abspath(a) for a in args] or sorted([os.path.join(VERIF, "mutants", f) for f in os.listdir(os.path.join(VERIF, "mutants")) if f.endswith(".diff")])
    bad = 0
    with cf.ThreadPoolExecutor(max_workers=int(os.environ.get("JOBS", "4"))) as ex:
        for r in ex.map(lambda p: run_one(p, tier), paths):
            status = "ok  " if r["ok"] else "FAIL"
            print(f"{status} {r['mutant']} expect={r['expect']} {r['msg']}")
            for prop, d in r["props"].items():
                for l in d["reports"][:3]:
                    print(f"       {prop}: {l.strip()[:260]}")
            if not r["ok"]: bad += 1
    print(f"{len(paths)-bad}/{len(paths)} mutants behaved as expected")
    sys.exit(1 if bad else 0)

main()
