#!/usr/bin/env python3
"""Compare static TV verdicts (static.jsonl) with the dynamic round trip (go test -v ./... > dyn.out). Dev aid."""
import re,json,collections,sys
d=sys.argv[1] if len(sys.argv)>1 else '/tmp/dynw'
dyn={}
last=None
for line in open(d+'/dyn.out'):
    m=re.match(r'^RESULT (\w+)',line)
    if m: last=m.group(1)
    m2=re.match(r'^(ok|FAIL)\s+shapes/(s\d+)(.*)',line)
    if m2:
        dyn[m2.group(2)]='BUILD' if 'build failed' in line else last
        last=None
cnt=collections.Counter()
ex={}
for l in open(d+'/static.jsonl'):
    r=json.loads(l)
    dd=dyn.get(r['id'],'NONE')
    cnt[(r['status'],dd)]+=1
    ex.setdefault((r['status'],dd),(r['id'],r['shape'],(r['viol'] or [''])[0]))
for k,v in sorted(cnt.items(), key=str): print(k,v,ex[k])
