#!/usr/bin/env python3
"""Development aid (DESIGN.md §6): turn a findings dump of a corpus check into the committed known-findings file,
after validating it against the dynamic round-trip results of tools/dyn (every listed static violation must belong to a shape
that fails to build, panics or round-trips wrongly; every shape that fails dynamically must have a listed violation).
usage: mkfindings.py <dump.jsonl> <dyn dir> <out.jsonl>"""
import json, re, sys, collections
dump, dyn_dir, out = sys.argv[1:4]
dyn = {}; last = None
for line in open(dyn_dir + '/dyn.out'):
    m = re.match(r'^RESULT (\w+)', line)
    if m: last = m.group(1)
    m2 = re.match(r'^(ok|FAIL)\s+shapes/(s\d+)(.*)', line)
    if m2:
        dyn[m2.group(2)] = 'BUILD' if 'build failed' in line else last
        last = None
shape_dyn = {}
for l in open(dyn_dir + '/static.jsonl'):
    r = json.loads(l)
    shape_dyn[r['shape']] = 'GENFAIL' if r['status'] in ('GENFAIL', 'PARSEFAIL') else dyn.get(r['id'], 'NONE')
words = {'BUILD': 'the generated package does not compile', 'PANIC': 'the round trip panics', 'MISMATCH': 'a record reads back different from what was written',
         'GENFAIL': 'parquetgen exits with an error (gofmt of its own output fails)', 'TOOFEW': 'fewer records read back than written', 'TOOMANY': 'more records read back than written', 'ERR': 'the round trip returns an error'}
bad = 0; listed = collections.Counter(); n = 0
with open(out, 'w') as f:
    f.write('# Known findings of a corpus check (generator case analysis; see DESIGN.md §6). Generated at development time by tools/dyn/mkfindings.py\n')
    f.write('# from the TV rules\' own report and validated shape by shape against the dynamic round-trip harness (tools/dyn). Never written by a check.\n')
    for l in open(dump):
        fd = json.loads(l)
        m = re.match(r'^(\S+ \+ \S+)', fd['construct'])
        shape = m.group(1) if m else fd['construct'].split(' ')[0]
        base = shape
        d = shape_dyn.get(base)
        if d is None or d == 'OK' or d == 'NONE':
            print('NOT CONFIRMED dynamically:', fd['construct'], d); bad += 1; continue
        listed[base] += 1
        fd['repro'] = f"struct shape {shape} (source: Shape.Source in checker/tv_shapes.go, fields N0,N1,... depth-first, int32 leaves unless noted); 60 random records through tools/dyn/rt_test.go.tmpl: {words.get(d, d)}"
        f.write(json.dumps(fd, ensure_ascii=False) + '\n'); n += 1
for s, d in shape_dyn.items():
    if d not in ('OK',) and listed[s] == 0:
        print('DYNAMIC FAILURE WITHOUT STATIC FINDING:', s, d); bad += 1
print(f'{n} findings over {len(listed)} shapes; {bad} disagreements')
sys.exit(1 if bad else 0)
