package rfirst

// Template-coverage struct: for every column category the REPEATED column of a Go type comes before the OPTIONAL one
// (the generator instantiates each column template once per Go type, from the first field of that type it meets).

type Inner struct {
	RS []string `parquet:"rs"`
	OS *string  `parquet:"os"`
	RB []bool   `parquet:"rb"`
	OB *bool    `parquet:"ob"`
}

type Rec struct {
	RI32 []int32   `parquet:"ri32"`
	OI32 *int32    `parquet:"oi32"`
	RF64 []float64 `parquet:"rf64"`
	OF64 *float64  `parquet:"of64"`
	In   []Inner   `parquet:"in"`
	QI64 int64     `parquet:"qi64"`
}
