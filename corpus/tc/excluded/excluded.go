package excluded

type Base struct {
	ID   int32   `parquet:"id"`
	Note *string `parquet:"note"`
	priv int
}

type Rec struct {
	Base
	Age     *int64 `parquet:"age"`
	Skipped string `parquet:"-"`
	hidden  map[string]int
	Score   float64 `parquet:"score"`
}
