package alltypes

type InOpt struct {
	AQInt32 int32 `parquet:"aq_int32"`
	AOInt32 *int32 `parquet:"ao_int32"`
	ARInt32 []int32 `parquet:"ar_int32"`
	AQUint32 uint32 `parquet:"aq_uint32"`
	AOUint32 *uint32 `parquet:"ao_uint32"`
	ARUint32 []uint32 `parquet:"ar_uint32"`
	AQInt64 int64 `parquet:"aq_int64"`
	AOInt64 *int64 `parquet:"ao_int64"`
	ARInt64 []int64 `parquet:"ar_int64"`
	AQUint64 uint64 `parquet:"aq_uint64"`
	AOUint64 *uint64 `parquet:"ao_uint64"`
	ARUint64 []uint64 `parquet:"ar_uint64"`
	AQFloat32 float32 `parquet:"aq_float32"`
	AOFloat32 *float32 `parquet:"ao_float32"`
	ARFloat32 []float32 `parquet:"ar_float32"`
	AQFloat64 float64 `parquet:"aq_float64"`
	AOFloat64 *float64 `parquet:"ao_float64"`
	ARFloat64 []float64 `parquet:"ar_float64"`
	AQBool bool `parquet:"aq_bool"`
	AOBool *bool `parquet:"ao_bool"`
	ARBool []bool `parquet:"ar_bool"`
	AQString string `parquet:"aq_string"`
	AOString *string `parquet:"ao_string"`
	ARString []string `parquet:"ar_string"`
}

type InRep struct {
	BQInt32 int32 `parquet:"bq_int32"`
	BOInt32 *int32 `parquet:"bo_int32"`
	BRInt32 []int32 `parquet:"br_int32"`
	BQUint32 uint32 `parquet:"bq_uint32"`
	BOUint32 *uint32 `parquet:"bo_uint32"`
	BRUint32 []uint32 `parquet:"br_uint32"`
	BQInt64 int64 `parquet:"bq_int64"`
	BOInt64 *int64 `parquet:"bo_int64"`
	BRInt64 []int64 `parquet:"br_int64"`
	BQUint64 uint64 `parquet:"bq_uint64"`
	BOUint64 *uint64 `parquet:"bo_uint64"`
	BRUint64 []uint64 `parquet:"br_uint64"`
	BQFloat32 float32 `parquet:"bq_float32"`
	BOFloat32 *float32 `parquet:"bo_float32"`
	BRFloat32 []float32 `parquet:"br_float32"`
	BQFloat64 float64 `parquet:"bq_float64"`
	BOFloat64 *float64 `parquet:"bo_float64"`
	BRFloat64 []float64 `parquet:"br_float64"`
	BQBool bool `parquet:"bq_bool"`
	BOBool *bool `parquet:"bo_bool"`
	BRBool []bool `parquet:"br_bool"`
	BQString string `parquet:"bq_string"`
	BOString *string `parquet:"bo_string"`
	BRString []string `parquet:"br_string"`
}

type Rec struct {
	TQInt32 int32 `parquet:"tq_int32"`
	TOInt32 *int32 `parquet:"to_int32"`
	TRInt32 []int32 `parquet:"tr_int32"`
	TQUint32 uint32 `parquet:"tq_uint32"`
	TOUint32 *uint32 `parquet:"to_uint32"`
	TRUint32 []uint32 `parquet:"tr_uint32"`
	TQInt64 int64 `parquet:"tq_int64"`
	TOInt64 *int64 `parquet:"to_int64"`
	TRInt64 []int64 `parquet:"tr_int64"`
	TQUint64 uint64 `parquet:"tq_uint64"`
	TOUint64 *uint64 `parquet:"to_uint64"`
	TRUint64 []uint64 `parquet:"tr_uint64"`
	TQFloat32 float32 `parquet:"tq_float32"`
	TOFloat32 *float32 `parquet:"to_float32"`
	TRFloat32 []float32 `parquet:"tr_float32"`
	TQFloat64 float64 `parquet:"tq_float64"`
	TOFloat64 *float64 `parquet:"to_float64"`
	TRFloat64 []float64 `parquet:"tr_float64"`
	TQBool bool `parquet:"tq_bool"`
	TOBool *bool `parquet:"to_bool"`
	TRBool []bool `parquet:"tr_bool"`
	TQString string `parquet:"tq_string"`
	TOString *string `parquet:"to_string"`
	TRString []string `parquet:"tr_string"`
	Opt *InOpt  `parquet:"opt"`
	Rep []InRep `parquet:"rep"`
}
