package person

type Skill struct {
	Name       string `parquet:"name"`
	Difficulty string `parquet:"difficulty"`
}

type Hobby struct {
	Name       string  `parquet:"name"`
	Difficulty *int32  `parquet:"difficulty"`
	Skills     []Skill `parquet:"skills"`
}

type Person struct {
	Name  string `parquet:"name"`
	Hobby *Hobby `parquet:"hobby"`
}
